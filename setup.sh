#!/bin/sh
# Build the offline 3.12 overlay venv used by every check (idempotent).
set -e
cd "$(dirname "$0")"
if [ -x .venv/bin/python ] && .venv/bin/python -c "import z3, cvc5, static_frame" 2>/dev/null; then
  echo "overlay venv present"; exit 0
fi
rm -rf .venv
/venv/bin/python -m venv .venv
PIP_NO_INDEX=1 .venv/bin/pip install -q --no-index --find-links /opt/veriftools/wheels z3-solver cvc5 crosshair-tool deal icontract jsonschema >/dev/null
echo "import site; site.addsitedir('/venv/lib/python3.12/site-packages')" > .venv/lib/python3.12/site-packages/repo_overlay.pth
.venv/bin/python -c "import z3, cvc5, static_frame, numpy; print('overlay venv ok', z3.get_version_string(), static_frame.__version__, numpy.__version__)"
