"""Encoder cross-check against CPython (DESIGN §2.8): for sampled concrete inputs the REAL function is executed and the
symbolic executor is run on the same input (parameters pinned by equalities); the engine must PROVE that its result
(or yielded sequence / raised exception) is exactly what CPython produced.  A disagreement is a checker fault: the
translator mis-encodes Python semantics and no verdict of that function can be trusted."""
from __future__ import annotations
import inspect
import time


def lit(v):
    if isinstance(v, slice):
        return f'slice({lit(v.start)}, {lit(v.stop)}, {lit(v.step)})'
    if isinstance(v, bool) or v is None:
        return repr(v)
    if isinstance(v, int):
        return repr(int(v))
    if isinstance(v, list):
        return '[' + ', '.join(lit(x) for x in v) + ']'
    if isinstance(v, tuple):
        return '(' + ', '.join(lit(x) for x in v) + (',' if len(v) == 1 else '') + ')'
    raise ValueError(f'no literal for {v!r}')


def crosscheck(repo_root, key, contract, registry, records, inputs_iter, limit=40):
    from .verify import verify_target
    from .replay import resolve
    fn = resolve(contract['relpath'], contract['qualname'])
    n = agree = 0
    problems = []
    t0 = time.time()
    for inputs in inputs_iter:
        if n >= limit:
            break
        order = [p for p in contract.get('order', []) if p in inputs]
        try:
            lits = {p: lit(inputs[p]) for p in inputs if p in contract.get('params', {}) or p in contract.get('ghost_params', {})}
        except ValueError:
            continue
        raised = None
        try:
            out = fn(*[inputs[p] for p in order])
            if inspect.isgenerator(out):
                out = list(out)
            out_lit = lit(out)
        except ValueError:
            continue
        except Exception as e:
            raised = type(e).__name__
        c2 = dict(contract)
        c2['requires'] = [f'{p} == {l}' for p, l in lits.items()]
        c2.pop('variants', None)
        if raised:
            c2['raises'] = {raised: True}
            c2['ensures'] = ['false()']
            c2['at_exit'] = ['false()']
            c2['raise_ensures'] = []
        elif contract.get('is_generator'):
            c2['ghost_init'] = list(contract.get('ghost_init', [])) + ['yields = []']
            c2['at_exit'] = [f'yields == {out_lit}']
            c2['raises'] = {}
        else:
            c2['ensures'] = [f'result == {out_lit}']
            c2['raises'] = {}
        rep = verify_target(repo_root, contract['relpath'], contract['qualname'], c2, registry, records, timeout_ms=20000)
        n += 1
        bad = [o for o in rep['obligations'] if o['verdict'] != 'proved' and (o['kind'] in ('post', 'exit', 'raise') or o['name'].startswith('no-'))]
        if rep['status'] != 'ok' or rep['unsupported'] or bad:
            problems.append(dict(inputs={k: repr(v) for k, v in inputs.items()}, cpython=(raised or out_lit),
                                 engine=[(o['name'], o['verdict']) for o in bad][:4] or rep.get('detail') or rep['unsupported'][:2]))
        else:
            agree += 1
    return dict(key=key, samples=n, agree=agree, problems=problems[:5], wall_s=round(time.time() - t0, 2))
