"""G1 / G2: mechanically generated per-site obligations over EVERY function of the anchored modules
(DESIGN §2.3), discharged by a flow-sensitive type-state pass over the real ASTs.

Abstract state of an expression = set of tags:
  FRESH    array allocated in this activation (writeable, ours)
  FROZEN   array known to be read-only (immutable_filter result, flags.writeable = False applied,
           or read from a container field -- rely/guarantee on the representation invariant)
  FOREIGN  array that belongs to the caller / another object (parameter, unknown attribute)
  NONARR   list / dict / set / scalar (in-place update is not an ndarray write)
  UNKNOWN  result of a call without a contract in the tables below

Obligations
  G1 (freeze at field write)  every value stored into a container's array field, passed as blocks= to the raw
                              TypeBlocks constructor, or returned by a function whose contract promises a
                              read-only array, has tags <= {FROZEN}
  G2 (write only to fresh)    every in-place ndarray effect (X[k] = v, X op= v, out=X, X.sort(), X.fill(),
                              np.copyto/put/place(X, ..), X.flags.writeable = True) has root tags <= {FRESH}
                              (or NONARR), unless the function is a declared mutator of that field.
Verdicts: proved / refuted (a definite bad tag reaches the site) / undecided (UNKNOWN reaches it).
The call tables are ASSUMED contracts (NumPy) or contracts on /repo functions that are themselves G1-checked
at their return sites (FROZEN_RETURNS).  Aliasing is handled conservatively (a tag is attached to a name;
`a = b` copies the tag set; freezing through one alias does not freeze the other)."""
from __future__ import annotations
import ast
import os

FRESH, FROZEN, FOREIGN, NONARR, UNKNOWN = 'FRESH', 'FROZEN', 'FOREIGN', 'NONARR', 'UNKNOWN'

CORE_MODULES = ['util', 'type_blocks', 'series', 'frame', 'index', 'index_hierarchy', 'index_level',
                'container_util', 'array_go', 'index_datetime', 'index_auto', 'index_base', 'container']

# --- assumed NumPy contracts: calls returning a new writeable array -------------------------------------
NP_FRESH = {'empty', 'full', 'zeros', 'ones', 'array', 'arange', 'concatenate', 'repeat', 'tile', 'fromiter',
            'empty_like', 'full_like', 'zeros_like', 'ones_like', 'where', 'nonzero', 'flatnonzero', 'cumsum', 'cumprod',
            'argsort', 'lexsort', 'unique', 'isin', 'in1d', 'logical_not', 'logical_and', 'logical_or', 'logical_xor',
            'invert', 'isnan', 'isnat', 'isfinite', 'equal', 'not_equal', 'greater', 'less', 'sort', 'roll', 'delete',
            'insert', 'append', 'hstack', 'vstack', 'column_stack', 'stack', 'union1d', 'intersect1d', 'setdiff1d',
            'searchsorted', 'argmax', 'argmin', 'nanargmax', 'nanargmin', 'frompyfunc', 'vectorize', 'add', 'subtract',
            'multiply', 'divide', 'floor_divide', 'power', 'mod', 'abs', 'absolute', 'round', 'around', 'clip', 'sum', 'prod',
            'min', 'max', 'mean', 'median', 'std', 'var', 'nansum', 'nanprod', 'nanmin', 'nanmax', 'nanmean', 'nanmedian',
            'nanstd', 'nanvar', 'all', 'any', 'dot', 'matmul', 'cov', 'genfromtxt', 'loadtxt', 'linspace', 'char',
            'take', 'compress', 'diff', 'digitize', 'bincount', 'count_nonzero', 'datetime64', 'timedelta64', 'float64', 'int64'}
NP_VIEW = {'reshape', 'transpose', 'ravel', 'squeeze', 'asarray', 'asanyarray', 'atleast_1d', 'atleast_2d', 'broadcast_to', 'swapaxes'}
METH_FRESH = {'copy', 'astype', 'tolist', 'nonzero', 'cumsum', 'cumprod', 'argsort', 'round', 'sum', 'prod', 'min', 'max', 'mean',
              'std', 'var', 'all', 'any', 'dot', 'repeat', 'take', 'compress', 'flatten', 'argmax', 'argmin', 'conj', 'clip', 'searchsorted'}
METH_VIEW = {'reshape', 'transpose', 'ravel', 'squeeze', 'view', 'swapaxes'}
METH_INPLACE = {'sort', 'fill', 'put', 'itemset', 'resize', 'partition', 'setfield', 'byteswap'}
NP_INPLACE_FIRST_ARG = {'copyto', 'put', 'place', 'putmask', 'fill_diagonal', 'put_along_axis'}
NONARR_CALLS = {'list', 'dict', 'set', 'tuple', 'frozenset', 'defaultdict', 'OrderedDict', 'deque', 'len', 'int', 'str', 'bool', 'float',
                'range', 'enumerate', 'zip', 'sorted', 'reversed', 'iter', 'next', 'isinstance', 'hasattr', 'getattr', 'id', 'hash', 'type',
                'slice', 'Counter', 'chain', 'partial', 'map', 'filter', 'sum', 'min', 'max', 'abs', 'any', 'all', 'repr', 'format'}

# --- contracts on /repo functions: return a read-only array.  Each is G1-checked at its own return sites. ------
FROZEN_RETURNS = {
    'immutable_filter', 'concat_resolved', 'TypeBlocks.dtypes', 'TypeBlocks.shapes', 'TypeBlocks.mloc',
    'TypeBlocks.ufunc_axis_skipna', 'PositionsAllocator.get', 'Index._extract_labels', 'Index._extract_positions',
    '_IndexGOMixin._extract_labels', '_IndexGOMixin._extract_positions',
}
# returns (array, flag): first item read-only
FROZEN_RETURNS_TUPLE0 = {'iterable_to_array_1d', 'prepare_iter_for_array_x'}
# returns a new writeable array (explicitly documented as not frozen)
FRESH_RETURNS = {'full_for_fill', 'isna_array', 'array_to_duplicated', 'binary_transition', 'roll_1d', 'roll_2d', 'array_to_groups_and_locations',
                 'ufunc_unique', 'dtype_to_fill_value', '_ufunc_set_1d_x', 'blocks_to_array_2d', 'column_2d_filter_x'}
# methods (on any receiver) that return a new array; every function of that name in the analysed modules is checked at its return sites
FRESH_RETURN_METHODS = {'iloc_searchsorted'}
# methods of this package's containers that return a container (never an ndarray); applied only when the receiver is itself not an ndarray
CONTAINER_METHODS = {'reindex', 'to_frame', 'to_frame_go', 'to_frame_he', 'to_series', 'relabel', 'rename', 'sort_index', 'sort_columns', 'sort_values',
                     'set_index', 'set_index_hierarchy', 'unset_index', 'fillna', 'dropna', 'head', 'tail'}
# pass-through of the argument's state (views / identity)
VIEW_FUNCS = {'column_2d_filter', 'column_1d_filter', 'row_1d_filter', 'array_deepcopy'}    # result is as writeable/shared as argument 0 (array_deepcopy: a copy carrying the flag)

# attributes of containers that hold read-only arrays by the representation invariant (rely side)
FROZEN_FIELDS = {'values', '_labels', '_positions', '_array', 'positions'}
ARRAY_FIELDS_WRITE = {'values', '_labels', '_positions', '_array'}          # G1 field-write sites

# declared mutators: (function qualname suffix) allowed to update attribute-rooted state in place
DECLARED_MUTATORS = {
    '__init__', '__setstate__', '__deepcopy__', '_update_array_cache', 'append', 'extend', '__setitem__', 'extend_items',
    '_update_series_cache_iloc', '_extract_labels', '_extract_positions', 'from_frame', '_store_reader', '_update_axis_labels',
}
# parameters that are mutable by contract (memo dicts, explicit out buffers)
MUTABLE_PARAM_NAMES = {'memo', 'values_source', 'out', 'store', 'dst', 'target'}


class Site:
    __slots__ = ('kind', 'fn', 'module', 'lineno', 'what', 'tags', 'verdict', 'ordinal', 'note')

    def __init__(self, kind, fn, module, lineno, what, tags, verdict, note=''):
        self.kind, self.fn, self.module, self.lineno, self.what, self.tags, self.verdict, self.note = kind, fn, module, lineno, what, tags, verdict, note
        self.ordinal = 0

    @property
    def sid(self):
        return f'{self.kind}:{self.module}:{self.fn}:{self.what}#{self.ordinal}'


def _root(n):
    while isinstance(n, (ast.Subscript, ast.Attribute)):
        if isinstance(n, ast.Attribute) and not isinstance(n.value, (ast.Subscript, ast.Attribute, ast.Name)):
            break
        if isinstance(n, ast.Attribute) and isinstance(n.value, ast.Name):
            return n
        n = n.value
    return n


class FnAnalysis:
    def __init__(self, module, qualname, fn, gen_yields, cls, genv=None):
        self.module, self.qualname, self.fn, self.gen_yields, self.cls = module, qualname, fn, gen_yields, cls
        self.genv = genv or {}
        self.sites = []
        self.all_binds = {}
        self.yield_tags = set()
        self.return_tags = set()
        args = fn.args
        self.params = [a.arg for a in args.posonlyargs + args.args + args.kwonlyargs]
        if args.vararg:
            self.params.append(args.vararg.arg)
        if args.kwarg:
            self.params.append(args.kwarg.arg)

    # ---- expressions -> tags ----------------------------------------------------------------------
    def tags(self, e, env):
        if e is None:
            return {NONARR}
        if isinstance(e, ast.Constant):
            return {NONARR}
        if isinstance(e, ast.Name):
            if e.id in env:
                return set(env[e.id])
            return {UNKNOWN}
        if isinstance(e, (ast.List, ast.ListComp, ast.Dict, ast.DictComp, ast.Set, ast.SetComp, ast.JoinedStr, ast.Lambda)):
            return {NONARR}
        if isinstance(e, ast.Tuple):
            return {NONARR}
        if isinstance(e, ast.GeneratorExp):
            return {NONARR}
        if isinstance(e, (ast.BinOp, ast.UnaryOp, ast.Compare, ast.BoolOp)):
            return {FRESH}       # operators never return one of their operands for ndarrays (ints: harmless)
        if isinstance(e, ast.IfExp):
            return self.tags(e.body, env) | self.tags(e.orelse, env)
        if isinstance(e, ast.Subscript):
            base = self.tags(e.value, env)
            if isinstance(e.value, ast.Name) and e.value.id in getattr(self, 'pure', ()):
                return {NONARR}      # item of a container built here that only ever receives containers built here / scalars
            if base == {NONARR}:
                return {UNKNOWN}     # element of a list / dict: unknown provenance
            return base          # view (basic) or copy (advanced): never *more* writeable-and-shared than the base
        if isinstance(e, ast.Attribute):
            if e.attr in FROZEN_FIELDS:
                return {FROZEN}
            if e.attr in ('T',):
                return self.tags(e.value, env)
            if e.attr in ('dtype', 'shape', 'ndim', 'size', 'name', 'flags', 'kind', 'itemsize', 'depth', '_name', 'nbytes'):
                return {NONARR}
            return {FOREIGN} if isinstance(e.value, ast.Name) and e.value.id in ('self', 'cls') else {UNKNOWN}
        if isinstance(e, ast.Call):
            return self.call_tags(e, env)
        if isinstance(e, ast.Starred):
            return self.tags(e.value, env)
        if isinstance(e, (ast.Yield, ast.YieldFrom, ast.Await)):
            return {UNKNOWN}
        if isinstance(e, ast.NamedExpr):
            return self.tags(e.value, env)
        return {UNKNOWN}

    def call_tags(self, e, env):
        f = e.func
        name = None
        if isinstance(f, ast.Name):
            name = f.id
            if name in NONARR_CALLS:
                return {NONARR}
            if name == 'deepcopy':
                return {FRESH}          # copy.deepcopy: a new object (a new array for an array)
            if name[:1].isupper() and name not in FROZEN_RETURNS and name not in FRESH_RETURNS:
                return {NONARR}         # construction of a class instance: containers of this package / stdlib classes are not ndarrays
            if name in FROZEN_RETURNS:
                return {FROZEN}
            if name in FROZEN_RETURNS_TUPLE0:
                return {NONARR}
            if name in FRESH_RETURNS:
                return {FRESH}
            if name in VIEW_FUNCS and e.args:
                return self.tags(e.args[0], env)
            if name in self.gen_yields:
                return {NONARR}
            return {UNKNOWN}
        if isinstance(f, ast.Attribute):
            name = f.attr
            base = f.value
            if isinstance(base, ast.Name) and base.id == 'np':
                if name in NP_FRESH:
                    cp = [k for k in e.keywords if k.arg == 'copy']
                    if name in ('array',) and cp and isinstance(cp[0].value, ast.Constant) and cp[0].value.value is False and e.args:
                        return self.tags(e.args[0], env) | {FRESH}
                    return {FRESH}
                if name in NP_VIEW and e.args:
                    return self.tags(e.args[0], env)
                return {UNKNOWN}
            if isinstance(base, ast.Attribute) and isinstance(base.value, ast.Name) and base.value.id == 'np':
                return {FRESH}      # np.char.xxx / np.ma.xxx / np.core....: computed results
            qual = None
            if isinstance(base, ast.Name) and base.id in ('self', 'cls') and self.cls:
                qual = f'{self.cls}.{name}'
            elif isinstance(base, ast.Name):
                qual = f'{base.id}.{name}'
            if qual in FROZEN_RETURNS or name in FROZEN_RETURNS:
                return {FROZEN}
            if name in FRESH_RETURN_METHODS:
                return {FRESH}
            if name[:1].isupper() and isinstance(base, ast.Name) and base.id not in ('np',) and name not in ('T',):
                return {NONARR}         # module.Class(...) / cls.Class(...): an instance, not an ndarray
            if name in CONTAINER_METHODS and self.tags(base, env) <= {NONARR}:
                return {NONARR}         # a container method of this package returning a container (assumed table)
            if name in METH_FRESH:
                if name == 'astype':
                    cp = [k for k in e.keywords if k.arg == 'copy']
                    if cp and not (isinstance(cp[0].value, ast.Constant) and cp[0].value.value is True):
                        return self.tags(base, env) | {FRESH}
                return {FRESH}
            if name in METH_VIEW:
                return self.tags(base, env)
            if name in ('get', 'pop', 'popleft', 'setdefault', 'keys', 'items', 'values_at_depth'):
                return {UNKNOWN}
            return {UNKNOWN}
        return {UNKNOWN}

    # ---- sites ---------------------------------------------------------------------------------------
    def site(self, kind, node, what, tags, allowed, note=''):
        bad = tags - allowed
        if not bad:
            v = 'proved'
        elif bad <= {UNKNOWN}:
            v = 'undecided'
        else:
            v = 'refuted'
        self.sites.append(Site(kind, self.qualname, self.module, node.lineno, what, sorted(tags), v, note))

    def is_mutator(self):
        return self.qualname.split('.')[-1] in DECLARED_MUTATORS

    def inplace(self, node, target, env, what):
        r = _root(target)
        if isinstance(r, ast.Name):
            t = self.tags(r, env)
            if t <= {NONARR}:
                return
            if r.id in MUTABLE_PARAM_NAMES and r.id in self.params:
                return
            self.site('G2', node, f'{what}:{r.id}', t, {FRESH, NONARR})
        elif isinstance(r, ast.Attribute):
            if self.is_mutator():
                return
            src = ast.unparse(r)
            if r.attr.startswith('_') and not r.attr in ('_blocks', '_labels', '_positions', '_array', '_values'):
                # private bookkeeping containers (dicts / lists of the object itself): not ndarray state
                if isinstance(r.value, ast.Name) and r.value.id == 'self':
                    self.site('G2', node, f'{what}:{src}', {FOREIGN}, {FRESH, NONARR}, note='attribute-rooted in-place update outside a declared mutator')
                    return
            self.site('G2', node, f'{what}:{src}', {FOREIGN}, {FRESH, NONARR}, note='attribute-rooted in-place update outside a declared mutator')
        else:
            t = self.tags(r, env)
            if not t <= {NONARR}:
                self.site('G2', node, f'{what}:<expr>', t, {FRESH, NONARR})

    # ---- pure containers ---------------------------------------------------------------------------
    def pure_containers(self):
        """names bound only to containers built in this function (dict()/list()/literals, or items / aliases of such containers) into which
        only such containers or scalars are ever stored: a subscript load from one of them cannot be an ndarray (greatest fixpoint,
        flow-insensitive)"""
        fn = self.fn
        own = [n for n in ast.walk(fn)]
        inner = {id(x) for f2 in own if isinstance(f2, (ast.FunctionDef, ast.AsyncFunctionDef, ast.Lambda)) and f2 is not fn for x in ast.walk(f2)}
        binds, stores = {}, {}

        def rec(d, k, v):
            d.setdefault(k, []).append(v)
        for n in own:
            if id(n) in inner:
                continue
            if isinstance(n, (ast.Assign, ast.AnnAssign)) and n.value is not None:
                tgts = n.targets if isinstance(n, ast.Assign) else [n.target]
                for t in tgts:
                    if isinstance(t, ast.Name):
                        rec(binds, t.id, n.value)
                    elif isinstance(t, ast.Subscript) and isinstance(t.value, ast.Name):
                        rec(stores, t.value.id, n.value)
                    elif isinstance(t, (ast.Tuple, ast.List)):
                        for el in ast.walk(t):
                            if isinstance(el, ast.Name):
                                rec(binds, el.id, None)
            elif isinstance(n, (ast.For, ast.comprehension)):
                for el in ast.walk(n.target):
                    if isinstance(el, ast.Name):
                        rec(binds, el.id, None)
            elif isinstance(n, (ast.With,)):
                for it in n.items:
                    if it.optional_vars is not None:
                        for el in ast.walk(it.optional_vars):
                            if isinstance(el, ast.Name):
                                rec(binds, el.id, None)
            elif isinstance(n, ast.AugAssign) and isinstance(n.target, ast.Name):
                rec(binds, n.target.id, None)
            elif isinstance(n, ast.Call) and isinstance(n.func, ast.Attribute) and isinstance(n.func.value, ast.Name) \
                    and n.func.attr in ('append', 'extend', 'insert', 'setdefault', 'update', 'add', 'appendleft'):
                for a in list(n.args) + [k.value for k in n.keywords]:
                    rec(stores, n.func.value.id, a)
        cand = {k for k in binds if k not in self.params}

        def ok_value(v, cand):
            if v is None:
                return False
            if isinstance(v, (ast.Constant, ast.Dict, ast.List, ast.Set, ast.DictComp, ast.ListComp, ast.SetComp)):
                if isinstance(v, (ast.Dict, ast.List, ast.Set)):
                    parts = (v.values if isinstance(v, ast.Dict) else v.elts)
                    return all(p is not None and ok_value(p, cand) for p in parts)
                return isinstance(v, ast.Constant)
            if isinstance(v, ast.Call) and isinstance(v.func, ast.Name) and v.func.id in ('dict', 'list', 'set', 'OrderedDict', 'defaultdict') and not v.args and not v.keywords:
                return True
            if isinstance(v, ast.Name):
                return v.id in cand
            if isinstance(v, ast.Subscript) and isinstance(v.value, ast.Name):
                return v.value.id in cand
            if isinstance(v, ast.Tuple):
                return all(ok_value(p, cand) for p in v.elts)
            return False
        changed = True
        while changed:
            changed = False
            for k in list(cand):
                if not all(ok_value(v, cand) for v in binds.get(k, [])) or not all(ok_value(v, cand) for v in stores.get(k, [])):
                    cand.discard(k)
                    changed = True
        # a scalar-only name is harmless but useless; keep names that are containers at least once
        return cand

    # ---- statements -----------------------------------------------------------------------------------
    def run(self):
        self.pure = self.pure_containers()
        env = dict((k, set(v)) for k, v in self.genv.items())
        args = self.fn.args
        ann = {a.arg: (ast.unparse(a.annotation) if a.annotation is not None else '') for a in args.posonlyargs + args.args + args.kwonlyargs}
        for p in self.params:
            a = ann.get(p, '')
            scalar = a in ('int', 'bool', 'str', 'float', 'tp.Hashable', 'tp.Optional[int]', 'tp.Optional[str]', 'tp.Optional[bool]', 'DtypeSpecifier', 'np.dtype', 'tp.Optional[np.dtype]', 'NameType')
            if any(w in a for w in ('Dict', 'Mapping', 'Callable', 'tp.Type[')) and 'ndarray' not in a:
                scalar = True
            env[p] = {NONARR} if (p in ('self', 'cls') or scalar) else {FOREIGN}
        self.block(self.fn.body, env)
        return self

    def join(self, a, b):
        out = {}
        for k in set(a) | set(b):
            out[k] = set(a.get(k, {UNKNOWN})) | set(b.get(k, {UNKNOWN}))
        return out

    def block(self, stmts, env):
        for s in stmts:
            env = self.stmt(s, env)
        return env

    def bind(self, tgt, tags, env, value=None):
        if isinstance(tgt, ast.Name):
            env[tgt.id] = set(tags)
            self.all_binds.setdefault(tgt.id, set()).update(tags)      # flow-insensitive summary (what nested functions may see of this name)
        elif isinstance(tgt, (ast.Tuple, ast.List)):
            for k, el in enumerate(tgt.elts):
                t = {UNKNOWN}
                if value is not None and isinstance(value, (ast.Tuple, ast.List)) and len(value.elts) == len(tgt.elts):
                    t = self.tags(value.elts[k], env)
                elif value is not None and isinstance(value, ast.Call):
                    fn = value.func
                    nm = fn.id if isinstance(fn, ast.Name) else (fn.attr if isinstance(fn, ast.Attribute) else None)
                    if nm in FROZEN_RETURNS_TUPLE0:
                        # contract: item 0 is read-only, OR it is the ndarray argument itself handed back unchanged
                        a0 = self.tags(value.args[0], env) if value.args else {UNKNOWN}
                        t = ({FROZEN} | (a0 - {NONARR})) if k == 0 else {NONARR}
                    elif nm == 'shape_filter':
                        t = {NONARR}
                self.bind(el, t, env)
        elif isinstance(tgt, ast.Starred):
            self.bind(tgt.value, {UNKNOWN}, env)

    def stmt(self, s, env):
        if isinstance(s, (ast.FunctionDef, ast.AsyncFunctionDef, ast.ClassDef)):
            if isinstance(s, ast.FunctionDef):
                env[s.name] = {NONARR}
            return env
        if isinstance(s, ast.Assign):
            self.expr_sites(s.value, env)
            t = self.tags(s.value, env)
            for tgt in s.targets:
                self.assign_target(s, tgt, t, env, s.value)
                if isinstance(tgt, ast.Name):
                    env.pop('$elems:' + tgt.id, None)
                    v = s.value
                    if isinstance(v, ast.Call) and isinstance(v.func, ast.Name) and v.func.id in ('list', 'tuple') and v.args:
                        env['$elems:' + tgt.id] = self.elem_tags(v.args[0], env)      # list(<iterable of arrays>): element states of the iterable
                    elif isinstance(v, (ast.List, ast.Tuple, ast.ListComp)):
                        env['$elems:' + tgt.id] = self.elem_tags(v, env)      # [] / () give the empty set (vacuously frozen until appended to)
                    elif isinstance(v, ast.Call) and isinstance(v.func, ast.Name) and v.func.id == 'list' and not v.args:
                        env['$elems:' + tgt.id] = set()
            return env
        if isinstance(s, ast.AnnAssign):
            if s.value is not None:
                return self.stmt(ast.copy_location(ast.Assign(targets=[s.target], value=s.value), s), env)
            return env
        if isinstance(s, ast.AugAssign):
            self.expr_sites(s.value, env)
            if isinstance(s.target, ast.Subscript):
                self.inplace(s, s.target, env, 'augassign-subscript')
            elif isinstance(s.target, ast.Name):
                t = self.tags(s.target, env)
                if not t <= {NONARR, FRESH} and not isinstance(s.op, (ast.Add, ast.Sub)) or (FOREIGN in t or FROZEN in t):
                    # `x op= v` mutates an ndarray in place (ints rebind: tags NONARR/unknown scalars are counters)
                    if FOREIGN in t or FROZEN in t:
                        if s.target.id in self.params and s.target.id not in MUTABLE_PARAM_NAMES:
                            self.site('G2', s, f'augassign:{s.target.id}', t, {FRESH, NONARR}, note='op= on a parameter (in place for ndarrays)')
                env[s.target.id] = t if t <= {FRESH, NONARR} else t
            return env
        if isinstance(s, ast.Expr):
            self.expr_sites(s.value, env)
            if isinstance(s.value, (ast.Yield,)):
                self.yield_tags |= self.tags(s.value.value, env) if s.value.value is not None else {NONARR}
            elif isinstance(s.value, ast.YieldFrom):
                self.yield_tags |= self.elem_tags(s.value.value, env) or {NONARR}
            return env
        if isinstance(s, ast.Return):
            if s.value is not None:
                self.expr_sites(s.value, env)
                t = self.tags(s.value, env)
                self.return_tags |= t
                short = self.qualname
                if (short in FROZEN_RETURNS or short.split('.')[-1] in FROZEN_RETURNS and '.' not in short):
                    self.site('G1', s, 'return-frozen', t, {FROZEN, NONARR}, note='contract: returns a read-only array')
                if short.split('.')[-1] in FRESH_RETURN_METHODS:
                    self.site('G2', s, 'return-fresh', t, {FRESH, NONARR}, note='contract: returns a new array (callers may write into it)')
                if short in FROZEN_RETURNS_TUPLE0 and isinstance(s.value, ast.Tuple) and s.value.elts:
                    e0 = s.value.elts[0]
                    if not (isinstance(e0, ast.Name) and e0.id == self.params[0]):      # handing back the argument itself is the documented case
                        self.site('G1', s, 'return-frozen[0]', self.tags(e0, env), {FROZEN, NONARR}, note='contract: returns (read-only array or the argument itself, flag)')
            return env
        if isinstance(s, ast.If):
            self.expr_sites(s.test, env)
            b1 = dict((k, set(v)) for k, v in env.items())
            b2 = dict((k, set(v)) for k, v in env.items())
            t, neg = s.test, False
            if isinstance(t, ast.UnaryOp) and isinstance(t.op, ast.Not):
                t, neg = t.operand, True
            if isinstance(t, ast.Attribute) and t.attr == 'writeable' and isinstance(t.value, ast.Attribute) and t.value.attr == 'flags' and isinstance(t.value.value, ast.Name):
                (b1 if neg else b2)[t.value.value.id] = {FROZEN}      # on this branch the array is known read-only
            if isinstance(t, ast.Compare) and len(t.ops) == 1 and isinstance(t.ops[0], (ast.Is, ast.IsNot)) and ast.unparse(t.comparators[0]) == 'np.ndarray' \
                    and isinstance(t.left, ast.Attribute) and t.left.attr == '__class__' and isinstance(t.left.value, ast.Name):
                isnot = isinstance(t.ops[0], ast.IsNot) != neg
                (b1 if isnot else b2)[t.left.value.id] = {NONARR}      # on this branch the value is not an ndarray
            e1 = self.block(s.body, b1)
            e2 = self.block(s.orelse, b2)
            # refinement: `if x.flags.writeable: x = x.copy(); x.flags.writeable = False` style is handled by the joins
            t1 = self.terminates(s.body)
            t2 = self.terminates(s.orelse) if s.orelse else False
            if t1 and not t2:
                return e2
            if t2 and not t1:
                return e1
            return self.join(e1, e2)
        if isinstance(s, (ast.For, ast.AsyncFor, ast.While)):
            if isinstance(s, (ast.For, ast.AsyncFor)):
                self.expr_sites(s.iter, env)
                it = self.tags(s.iter, env)
                # elements of container block lists are read-only by the invariant
                el = {FROZEN} if (isinstance(s.iter, ast.Attribute) and s.iter.attr == '_blocks') else ({UNKNOWN} if it != {NONARR} else {UNKNOWN})
                if isinstance(s.iter, ast.Attribute) and s.iter.attr == '_blocks' and isinstance(s.iter.value, ast.Name) and env.get(s.iter.value.id) == {FRESH}:
                    el = {FRESH}      # container built in this activation (operator result): its blocks are ours
                if isinstance(s.iter, ast.Call) and isinstance(s.iter.func, ast.Name) and s.iter.func.id in ('enumerate', 'zip') and s.iter.args:
                    a0 = s.iter.args[-1] if s.iter.func.id == 'enumerate' else s.iter.args[0]
                    if isinstance(a0, ast.Attribute) and a0.attr == '_blocks':
                        el = {FROZEN}
                self.bind_loop_target(s.target, el, env, s.iter)
            else:
                self.expr_sites(s.test, env)
            e = dict((k, set(v)) for k, v in env.items())
            n0 = len(self.sites)
            e1 = self.block(s.body, e)
            e = self.join(env, e1)
            del self.sites[n0:]               # second pass with the joined state is the one that counts
            if isinstance(s, (ast.For, ast.AsyncFor)):
                self.bind_loop_target(s.target, el, e, s.iter)
            e2 = self.block(s.body, dict((k, set(v)) for k, v in e.items()))
            out = self.join(e, e2)
            # `for b in blocks: b.flags.writeable = False` freezes every element of the list
            if isinstance(s, ast.For) and isinstance(s.iter, ast.Name) and isinstance(s.target, ast.Name) and not s.orelse:
                frz = [x for x in s.body if isinstance(x, ast.Assign) and len(x.targets) == 1 and ast.unparse(x.targets[0]) == f'{s.target.id}.flags.writeable'
                       and isinstance(x.value, ast.Constant) and x.value.value is False]
                if frz and not any(isinstance(x, (ast.Break, ast.Continue, ast.Return)) for x in ast.walk(s)):
                    out['$elems:' + s.iter.id] = {FROZEN}
            if s.orelse:
                out = self.block(s.orelse, out)
            return out
        if isinstance(s, ast.Try):
            e0 = dict((k, set(v)) for k, v in env.items())
            e1 = self.block(s.body, env)
            outs = [e1]
            for h in s.handlers:
                eh = self.join(e0, e1)
                if h.name:
                    eh[h.name] = {NONARR}
                eo = self.block(h.body, eh)
                if not self.terminates(h.body):
                    outs.append(eo)
            out = outs[0]
            for o in outs[1:]:
                out = self.join(out, o)
            if s.orelse:
                out = self.block(s.orelse, out)
            if s.finalbody:
                out = self.block(s.finalbody, out)
            return out
        if isinstance(s, (ast.With, ast.AsyncWith)):
            for item in s.items:
                self.expr_sites(item.context_expr, env)
                if item.optional_vars is not None:
                    self.bind(item.optional_vars, {UNKNOWN}, env)
            return self.block(s.body, env)
        if isinstance(s, ast.Assert):
            return env
        if isinstance(s, ast.Delete):
            return env
        if isinstance(s, ast.Raise):
            return env
        return env

    def bind_loop_target(self, tgt, el, env, it):
        if isinstance(tgt, ast.Name):
            env[tgt.id] = set(el)
        elif isinstance(tgt, (ast.Tuple, ast.List)):
            for k, sub in enumerate(tgt.elts):
                last = k == len(tgt.elts) - 1
                if isinstance(it, ast.Call) and isinstance(it.func, ast.Name) and it.func.id == 'enumerate':
                    self.bind_loop_target(sub, el if last else {NONARR}, env, None)
                else:
                    self.bind_loop_target(sub, el if k == 0 and isinstance(it, ast.Call) and getattr(it.func, 'id', '') == 'zip' else {UNKNOWN}, env, None)

    @staticmethod
    def terminates(stmts):
        return bool(stmts) and isinstance(stmts[-1], (ast.Return, ast.Raise, ast.Continue, ast.Break))

    def assign_target(self, s, tgt, t, env, value):
        if isinstance(tgt, ast.Name):
            env[tgt.id] = set(t)
            self.all_binds.setdefault(tgt.id, set()).update(t)
        elif isinstance(tgt, (ast.Tuple, ast.List)):
            self.bind(tgt, t, env, value)
        elif isinstance(tgt, ast.Subscript):
            self.inplace(s, tgt, env, 'subscript-store')
        elif isinstance(tgt, ast.Attribute):
            # X.flags.writeable = ...
            if tgt.attr == 'writeable' and isinstance(tgt.value, ast.Attribute) and tgt.value.attr == 'flags':
                arr = tgt.value.value
                if isinstance(value, ast.Constant) and value.value is False:
                    if isinstance(arr, ast.Name):
                        env[arr.id] = {FROZEN}
                    else:      # `self.x = a; self.x.flags.writeable = False`: the pending field-write site is discharged
                        src = ast.unparse(arr)
                        for st_ in reversed(self.sites):
                            if st_.kind == 'G1' and st_.what == f'field:{src}' and st_.verdict != 'proved':
                                st_.verdict, st_.tags, st_.note = 'proved', [FROZEN], 'frozen through the field immediately after the store'
                                break
                    return
                if isinstance(value, ast.Attribute) and value.attr == 'writeable' and self.tags(arr, env) <= {FRESH}:
                    # flag copied from another array onto our own fresh copy (array_deepcopy): carries the source's status
                    if isinstance(arr, ast.Name) and isinstance(value.value, ast.Attribute) and isinstance(value.value.value, ast.Name):
                        env[arr.id] = set(env.get(value.value.value.id, {UNKNOWN}))
                    return
                # making something writeable: only our own fresh arrays
                self.site('G2', s, f'set-writeable:{ast.unparse(arr)}', self.tags(arr, env), {FRESH}, note='flags.writeable set to a non-False value')
                if isinstance(arr, ast.Name):
                    env[arr.id] = {FRESH} if self.tags(arr, env) <= {FRESH} else self.tags(arr, env) | {FOREIGN}
                return
            if tgt.attr in ARRAY_FIELDS_WRITE and not (isinstance(value, ast.Constant) and value.value is None):
                self.site('G1', s, f'field:{ast.unparse(tgt)}', t, {FROZEN}, note='array field of a container must hold a read-only array')

    # sites inside expressions: raw constructor, out=, in-place methods, np.copyto ...
    def expr_sites(self, e, env):
        for n in ast.walk(e):
            if not isinstance(n, ast.Call):
                continue
            f = n.func
            for kw in n.keywords:
                if kw.arg == 'out' and not (isinstance(kw.value, ast.Constant) and kw.value.value is None):
                    self.inplace(n, kw.value, env, 'out=')
            if isinstance(f, ast.Attribute):
                if f.attr in METH_INPLACE and not (isinstance(f.value, ast.Name) and (f.value.id == 'np' or self.tags(f.value, env) <= {NONARR})):
                    if f.attr == 'sort' and self.tags(f.value, env) <= {NONARR, UNKNOWN} and not isinstance(f.value, ast.Name):
                        continue
                    self.inplace(n, f.value, env, f'.{f.attr}()')
                if isinstance(f.value, ast.Name) and f.value.id == 'np' and f.attr in NP_INPLACE_FIRST_ARG and n.args:
                    self.inplace(n, n.args[0], env, f'np.{f.attr}')
                # list-of-blocks bookkeeping: blocks.append(x) joins the element tags into the list's tag
                if f.attr in ('append', 'extend', 'insert') and isinstance(f.value, ast.Name) and n.args:
                    cur = env.get(f.value.id)
                    if cur is not None and (cur <= {NONARR} or 'ELEMS' in cur or f.value.id.endswith('blocks')):
                        el = self.tags(n.args[-1], env)
                        prev = env.get('$elems:' + f.value.id, set())
                        env['$elems:' + f.value.id] = prev | el
            # raw TypeBlocks constructor
            is_raw = (isinstance(f, ast.Name) and f.id in ('cls', 'TypeBlocks') and self.module == 'type_blocks') or \
                     (isinstance(f, ast.Name) and f.id == 'TypeBlocks' and self.module != 'type_blocks')
            if isinstance(f, ast.Attribute) and f.attr == '__class__' and isinstance(f.value, ast.Name) and f.value.id == 'self' and self.cls == 'TypeBlocks':
                is_raw = True
            if is_raw and (self.cls == 'TypeBlocks' or (isinstance(f, ast.Name) and f.id == 'TypeBlocks')):
                for kw in n.keywords:
                    if kw.arg == 'blocks':
                        self.site('G1', n, 'raw-TypeBlocks(blocks=)', self.elem_tags(kw.value, env), {FROZEN}, note='every block handed to the raw constructor must be read-only')

    def elem_tags(self, e, env):
        """tags of the ELEMENTS of a list-of-arrays expression"""
        if isinstance(e, ast.Name):
            k = '$elems:' + e.id
            if k in env:
                return set(env[k])
            return {UNKNOWN}
        if isinstance(e, (ast.List, ast.Tuple)):
            out = set()
            for el in e.elts:
                out |= self.tags(el, env)
            return out
        if isinstance(e, ast.ListComp) and len(e.generators) == 1:
            g = e.generators[0]
            env2 = dict(env)
            el = {FROZEN} if isinstance(g.iter, ast.Attribute) and g.iter.attr == '_blocks' else {UNKNOWN}
            self.bind_loop_target(g.target, el, env2, g.iter)
            return self.tags(e.elt, env2)
        if isinstance(e, ast.Attribute) and e.attr == '_blocks':
            return {FROZEN}
        if isinstance(e, ast.Call):
            f = e.func
            if isinstance(f, ast.Name) and f.id == 'list' and not e.args:
                return set()
            if isinstance(f, ast.Name) and f.id == 'list' and e.args:
                return self.elem_tags(e.args[0], env)
            nm = f.attr if isinstance(f, ast.Attribute) else getattr(f, 'id', None)
            q = f'{self.cls}.{nm}' if isinstance(f, ast.Attribute) and isinstance(f.value, ast.Name) and f.value.id in ('self', 'cls') else nm
            if q in self.gen_yields:
                return set(self.gen_yields[q])
            if nm in self.gen_yields:
                return set(self.gen_yields[nm])
        return {UNKNOWN}


def iter_functions(tree):
    """(qualname, FunctionDef, class name) for every function incl. methods and nested generators"""
    def walk(body, prefix, cls, outer=None):
        for n in body:
            if isinstance(n, ast.ClassDef):
                yield from walk(n.body, prefix + n.name + '.', n.name, outer)
            elif isinstance(n, (ast.FunctionDef, ast.AsyncFunctionDef)):
                yield prefix + n.name, n, cls
                _OUTER[id(n)] = outer
                yield from walk(n.body, prefix + n.name + '.', cls, n)
            elif isinstance(n, (ast.If, ast.Try, ast.With, ast.For, ast.While)):
                for sub in ('body', 'orelse', 'finalbody'):
                    yield from walk(getattr(n, sub, []) or [], prefix, cls, outer)
    yield from walk(tree.body, '', None)


_OUTER = {}      # id(FunctionDef) -> enclosing FunctionDef (or None)


def analyse(repo_root, modules=CORE_MODULES):
    """-> list[Site] for all modules; two passes so generator yield-tags are available to their callers"""
    parsed = {}
    for m in modules:
        p = os.path.join(repo_root, 'static_frame', 'core', m + '.py')
        if os.path.exists(p):
            parsed[m] = ast.parse(open(p, encoding='utf-8').read())
    # module-level constants (EMPTY_ARRAY ...): the same pass over each module body gives their state
    genv = {}
    for m, tree in parsed.items():
        top = ast.FunctionDef(name='<module>', args=ast.arguments(posonlyargs=[], args=[], kwonlyargs=[], kw_defaults=[], defaults=[]),
                              body=[n for n in tree.body if isinstance(n, (ast.Assign, ast.AnnAssign, ast.Expr))], decorator_list=[], lineno=1, col_offset=0)
        fa = FnAnalysis(m, '<module>', top, {}, None)
        env = {}
        fa.block(top.body, env)
        for k, v in env.items():
            if v == {FROZEN} and k.isupper():
                genv[k] = {FROZEN}
    gen_yields = {}
    for rnd in range(2):
        sites = []
        new_yields = {}
        for m, tree in parsed.items():
            done = {}
            for qual, fn, cls in iter_functions(tree):
                g2 = genv
                outer = _OUTER.get(id(fn))
                if outer is not None and id(outer) in done:
                    # free variables of a nested function: every state the enclosing function ever binds to that name (flow-insensitive, so
                    # whenever the nested function runs it sees one of them); its own parameters and locals shadow these
                    g2 = dict(genv)
                    for k_, v_ in done[id(outer)].all_binds.items():
                        g2.setdefault(k_, set(v_))
                fa = FnAnalysis(m, qual, fn, gen_yields, cls, g2).run()
                done[id(fn)] = fa
                is_gen = any(isinstance(x, (ast.Yield, ast.YieldFrom)) for x in ast.walk(fn))
                if is_gen:
                    new_yields[qual] = fa.yield_tags or {UNKNOWN}
                sites.extend(fa.sites)
        gen_yields = new_yields
    # ordinals: stable site ids independent of line numbers
    seen = {}
    for s in sites:
        k = (s.kind, s.module, s.fn, s.what)
        s.ordinal = seen.get(k, 0)
        seen[k] = s.ordinal + 1
    return sites
