"""Concrete semantics of the contract language: the same contract text is evaluated with plain
Python `eval` over real values (used for counterexample replay and the bounded stand-in)."""
from __future__ import annotations
import itertools

WINDOW_CAP = 24


def decode(v):
    """model value (from verify.concretize) -> Python object"""
    if isinstance(v, tuple) and v:
        if v[0] == 'slice':
            return slice(v[1], v[2], v[3])
        if v[0] == 'tuple':
            return tuple(decode(x) for x in v[1])
        if v[0] == 'list':
            return [decode(x) for x in v[1]]
        if v[0] == 'rec':
            return {k: decode(x) for k, x in v[2].items()}
    if isinstance(v, list) and v and v[0] in ('slice', 'tuple', 'list', 'rec'):   # json round trip
        return decode(tuple(v))
    return v


def _ints_in(x, acc):
    if isinstance(x, bool):
        return
    if isinstance(x, int):
        acc.append(abs(x))
    elif isinstance(x, slice):
        for p in (x.start, x.stop, x.step):
            _ints_in(p, acc)
    elif isinstance(x, (list, tuple)):
        acc.append(len(x))
        for i in x:
            _ints_in(i, acc)
    elif isinstance(x, dict):
        for i in x.values():
            _ints_in(i, acc)


def namespace(bindings: dict):
    acc = [2]
    for v in bindings.values():
        _ints_in(v, acc)
    B = min(max(acc) + 3, WINDOW_CAP)

    def implies(a, b):
        return (not a) or bool(b)

    def iff(a, b):
        return bool(a) == bool(b)

    def cond(c, a, b):
        return a if c else b

    def forall(f):
        n = f.__code__.co_argcount
        return all(f(*xs) for xs in itertools.product(range(-B, B + 1), repeat=n))

    def exists(f):
        n = f.__code__.co_argcount
        return any(f(*xs) for xs in itertools.product(range(-B, B + 1), repeat=n))

    def forall_in(lo, hi, f):
        return all(f(i) for i in range(lo, hi))

    def exists_in(lo, hi, f):
        return any(f(i) for i in range(lo, hi))

    def is_none(x):
        return x is None

    def at(xs, i):
        return xs[i] if 0 <= i < len(xs) else None

    def length(xs):
        return len(xs)

    def s_start(s, n):
        return s.indices(n)[0]

    def s_stop(s, n):
        return s.indices(n)[1]

    def s_step(s):
        return 1 if s.step is None else s.step

    def R(s, n):
        return list(range(*s.indices(n)))

    def R_len(s, n):
        return len(range(*s.indices(n)))

    def nth(s, n, k, i):
        r = range(*s.indices(n))
        return 0 <= k < len(r) and r[k] == i

    def in_slice(i, s, n):
        return i in range(*s.indices(n))

    import numpy as _np

    def W(b):
        return 1 if b.ndim == 1 else b.cols

    def frozen(b):
        return not b.writeable

    def same_array(a, b):
        return a == b

    def kind_is(dt, *ks):
        return dt.kind in ks

    def np_result_type(a, b):
        try:
            return _np.result_type(a, b)
        except TypeError:
            return None

    def dtype_class(dt):
        k = dt.kind
        return 0 if k in 'US' else 1 if k == 'M' else 2 if k == 'm' else 3 if k == 'b' else 4 if k in 'iufc' else 5 if k == 'O' else 6
    ns = dict(W=W, frozen=frozen, same_array=same_array, kind_is=kind_is, np_result_type=np_result_type, dtype_class=dtype_class,
              DTYPE_OBJECT=_np.dtype(object), DTYPE_BOOL=_np.dtype(bool), DTYPE_FLOAT_DEFAULT=_np.dtype('float64'), DTYPE_INT_DEFAULT=_np.dtype('int64'),
              implies=implies, iff=iff, cond=cond, forall=forall, exists=exists, forall_in=forall_in,
              exists_in=exists_in, is_none=is_none, at=at, length=length, s_start=s_start, s_stop=s_stop,
              s_step=s_step, R=R, R_len=R_len, nth=nth, in_slice=in_slice, true=lambda: True, false=lambda: False)
    from specs.refs import REFS
    ns.update(REFS)
    ns.update(bindings)
    return ns


import ast as _ast


class _Lazy(_ast.NodeTransformer):
    """implies(a, b) -> (not a) or b ; cond(c, a, b) -> a if c else b   (Python evaluates call arguments eagerly)"""

    def visit_Call(self, node):
        self.generic_visit(node)
        if isinstance(node.func, _ast.Name) and node.func.id == 'implies' and len(node.args) == 2:
            return _ast.copy_location(_ast.BoolOp(op=_ast.Or(), values=[_ast.UnaryOp(op=_ast.Not(), operand=node.args[0]), node.args[1]]), node)
        if isinstance(node.func, _ast.Name) and node.func.id == 'cond' and len(node.args) == 3:
            return _ast.copy_location(_ast.IfExp(test=node.args[0], body=node.args[1], orelse=node.args[2]), node)
        return node


_compiled = {}


def _compile(expr):
    if expr not in _compiled:
        tree = _ast.parse(expr.strip(), mode='eval')
        tree = _ast.fix_missing_locations(_Lazy().visit(tree))
        _compiled[expr] = compile(tree, '<spec>', 'eval')
    return _compiled[expr]


def _subst_old(expr: str, old_bindings: dict, ns_extra: dict):
    """replace every old(E) by a fresh name bound to E evaluated over the entry-state bindings"""
    tree = _ast.parse(expr.strip(), mode='eval')
    consts = {}

    class T(_ast.NodeTransformer):
        def visit_Call(self, node):
            if isinstance(node.func, _ast.Name) and node.func.id == 'old' and len(node.args) == 1:
                name = f'__old{len(consts)}'
                ns = namespace(dict(old_bindings))
                ns.update(ns_extra)
                ns['__builtins__'] = __builtins__
                inner = _ast.fix_missing_locations(_Lazy().visit(_ast.Expression(node.args[0])))
                consts[name] = eval(compile(inner, '<old>', 'eval'), ns)
                return _ast.copy_location(_ast.Name(id=name, ctx=_ast.Load()), node)
            return self.generic_visit(node)
    tree = _ast.fix_missing_locations(_Lazy().visit(T().visit(tree)))
    return tree, consts


def ceval(expr: str, bindings: dict, old_bindings: dict = None, predicates: dict = None):
    extra = {}
    if predicates:
        for name, (params, body) in predicates.items():
            extra[name] = _mk_pred(name, params, body, extra)
    if old_bindings is not None and 'old(' in expr:
        tree, consts = _subst_old(expr, old_bindings, extra)
        ns = namespace(bindings)
        ns.update(extra)
        ns.update(consts)
        ns['__builtins__'] = __builtins__
        return eval(compile(tree, '<spec>', 'eval'), ns)
    if extra:
        ns = namespace(bindings)
        ns.update(extra)
        ns['__builtins__'] = __builtins__
        return eval(_compile(expr), ns)
    return _ceval0(expr, bindings)


def _mk_pred(name, params, body, extra):
    def pred(*args):
        ns = namespace(dict(zip(params, args)))
        ns.update(extra)
        ns['__builtins__'] = __builtins__
        return eval(_compile(body), ns)
    return pred


def _ceval0(expr: str, bindings: dict):
    ns = namespace(bindings)
    ns['__builtins__'] = __builtins__
    return eval(_compile(expr), ns)


def cexec(stmts: str, bindings: dict):
    """ghost statement(s) executed over a mutable bindings dict"""
    ns = namespace(bindings)
    ns['__builtins__'] = __builtins__
    exec(stmts, ns)
    for k, v in ns.items():
        if k != '__builtins__' and (k in bindings or not callable(v)):
            bindings[k] = v
