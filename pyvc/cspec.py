"""Concrete semantics of the contract language: the same contract text is evaluated with plain
Python `eval` over real values (used for counterexample replay and the bounded stand-in)."""
from __future__ import annotations
import itertools

WINDOW_CAP = 24


def decode(v):
    """model value (from verify.concretize) -> Python object"""
    if isinstance(v, tuple) and v:
        if v[0] == 'slice':
            return slice(v[1], v[2], v[3])
        if v[0] == 'tuple':
            return tuple(decode(x) for x in v[1])
        if v[0] == 'list':
            return [decode(x) for x in v[1]]
        if v[0] == 'rec':
            return {k: decode(x) for k, x in v[2].items()}
    if isinstance(v, list) and v and v[0] in ('slice', 'tuple', 'list', 'rec'):   # json round trip
        return decode(tuple(v))
    return v


def _ints_in(x, acc):
    if isinstance(x, bool):
        return
    if isinstance(x, int):
        acc.append(abs(x))
    elif isinstance(x, slice):
        for p in (x.start, x.stop, x.step):
            _ints_in(p, acc)
    elif isinstance(x, (list, tuple)):
        acc.append(len(x))
        for i in x:
            _ints_in(i, acc)
    elif isinstance(x, dict):
        for i in x.values():
            _ints_in(i, acc)


def namespace(bindings: dict):
    acc = [2]
    for v in bindings.values():
        _ints_in(v, acc)
    B = min(max(acc) + 3, WINDOW_CAP)

    def implies(a, b):
        return (not a) or bool(b)

    def iff(a, b):
        return bool(a) == bool(b)

    def cond(c, a, b):
        return a if c else b

    def forall(f):
        n = f.__code__.co_argcount
        return all(f(*xs) for xs in itertools.product(range(-B, B + 1), repeat=n))

    def exists(f):
        n = f.__code__.co_argcount
        return any(f(*xs) for xs in itertools.product(range(-B, B + 1), repeat=n))

    def forall_in(lo, hi, f):
        return all(f(i) for i in range(lo, hi))

    def exists_in(lo, hi, f):
        return any(f(i) for i in range(lo, hi))

    def is_none(x):
        return x is None

    def at(xs, i):
        return xs[i] if 0 <= i < len(xs) else None

    def length(xs):
        return len(xs)

    def s_start(s, n):
        return s.indices(n)[0]

    def s_stop(s, n):
        return s.indices(n)[1]

    def s_step(s):
        return 1 if s.step is None else s.step

    def R(s, n):
        return list(range(*s.indices(n)))

    def R_len(s, n):
        return len(range(*s.indices(n)))

    def nth(s, n, k, i):
        r = range(*s.indices(n))
        return 0 <= k < len(r) and r[k] == i

    def in_slice(i, s, n):
        return i in range(*s.indices(n))

    ns = dict(implies=implies, iff=iff, cond=cond, forall=forall, exists=exists, forall_in=forall_in,
              exists_in=exists_in, is_none=is_none, at=at, length=length, s_start=s_start, s_stop=s_stop,
              s_step=s_step, R=R, R_len=R_len, nth=nth, in_slice=in_slice, true=lambda: True, false=lambda: False)
    ns.update(bindings)
    return ns


def ceval(expr: str, bindings: dict):
    ns = namespace(bindings)
    ns['__builtins__'] = __builtins__
    return eval(expr, ns)


def cexec(stmts: str, bindings: dict):
    """ghost statement(s) executed over a mutable bindings dict"""
    ns = namespace(bindings)
    ns['__builtins__'] = __builtins__
    exec(stmts, ns)
    for k, v in ns.items():
        if k != '__builtins__' and (k in bindings or not callable(v)):
            bindings[k] = v
