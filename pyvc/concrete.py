"""Concrete side of the record sorts: build real objects from counter-models, and view real
objects through proxies exposing the ghost attribute names used in contracts (rows, cols,
writeable, fresh, ...).  Used by replay and by the per-function bounded stand-ins."""
from __future__ import annotations
import copy
import numpy as np

# a fixed palette: uninterpreted Dtype model values are mapped onto real dtypes consistently with kind axioms
PALETTE = [np.dtype('int64'), np.dtype('float64'), np.dtype('<U2'), np.dtype('datetime64[D]'), np.dtype('int32'),
           np.dtype('float32'), np.dtype('<U4'), np.dtype('timedelta64[s]'), np.dtype('uint8'), np.dtype('complex128'),
           np.dtype('datetime64[s]'), np.dtype('S2')]


class DtypeMap:
    def __init__(self):
        self.m = {}

    def get(self, token):
        if token in ('DTYPE_OBJECT',):
            return np.dtype(object)
        if token in ('DTYPE_BOOL',):
            return np.dtype(bool)
        if token == 'DTYPE_FLOAT64':
            return np.dtype('float64')
        if token == 'DTYPE_INT64':
            return np.dtype('int64')
        if token not in self.m:
            self.m[token] = PALETTE[len(self.m) % len(PALETTE)]
        return self.m[token]


def build(v, dm=None):
    """decoded model value (pyvc.cspec.decode output) -> real object"""
    dm = dm or DtypeMap()
    if isinstance(v, dict) and set(v) >= {'ndim', 'rows', 'cols', 'dtype', 'writeable'}:
        dt = dm.get(v['dtype'][2] if isinstance(v['dtype'], (tuple, list)) else v['dtype'])
        rows, cols = min(v['rows'], 50), min(v['cols'], 50)
        shape = (rows,) if v['ndim'] == 1 else (rows, cols)
        a = np.zeros(shape, dtype=dt)
        a.flags.writeable = bool(v['writeable'])
        return a
    if isinstance(v, dict) and set(v) >= {'_blocks', '_index', '_dtypes', '_shape'}:
        from static_frame.core.type_blocks import TypeBlocks
        blocks = [build(b, dm) for b in v['_blocks']]
        tb = TypeBlocks.__new__(TypeBlocks)
        tb._blocks = blocks
        tb._index = [tuple(x) for x in v['_index']]
        tb._dtypes = [dm.get(d[2] if isinstance(d, (tuple, list)) else d) for d in v['_dtypes']]
        tb._shape = tuple(v['_shape'])
        rd = v.get('_row_dtype')
        tb._row_dtype = None if rd is None else dm.get(rd[2] if isinstance(rd, (tuple, list)) else rd)
        return tb
    if isinstance(v, (tuple, list)) and len(v) == 3 and v[0] == 'u' and v[1] == 'dtype':
        return dm.get(v[2])
    if isinstance(v, (tuple, list)) and len(v) == 3 and v[0] == 'u':
        return str(v[2])          # opaque element / label: distinct model values -> distinct strings
    if isinstance(v, list):
        return [build(x, dm) for x in v]
    if isinstance(v, tuple):
        return tuple(build(x, dm) for x in v)
    if isinstance(v, dict):
        return {k: build(x, dm) for k, x in v.items()}
    return v


def _root(a):
    while isinstance(a.base, np.ndarray):
        a = a.base
    return a


class ArrP:
    """proxy of a real ndarray with the ghost attribute names of the `arr` record"""
    __slots__ = ('a', 'inputs')

    def __init__(self, a, inputs=()):
        self.a, self.inputs = a, inputs

    ndim = property(lambda s: s.a.ndim)
    rows = property(lambda s: s.a.shape[0] if s.a.ndim >= 1 else 0)
    cols = property(lambda s: 1 if s.a.ndim == 1 else (s.a.shape[1] if s.a.ndim == 2 else 0))
    dtype = property(lambda s: s.a.dtype)
    writeable = property(lambda s: bool(s.a.flags.writeable))
    # ghost buffer identity / column offset of a view: data pointer of the root buffer and offset in columns
    src = property(lambda s: _root(s.a).__array_interface__['data'][0])

    @property
    def off(self):
        r = _root(self.a)
        if self.a.ndim == 0 or r.ndim < 2 or self.a.strides[-1 if self.a.ndim == 2 else 0] == 0:
            return 0
        delta = self.a.__array_interface__['data'][0] - r.__array_interface__['data'][0]
        return (delta % r.strides[0]) // r.strides[1] if r.strides[0] else 0
    shape = property(lambda s: s.a.shape)

    @property
    def fresh(self):
        return all(self.a is not i and not np.shares_memory(self.a, i) for i in self.inputs)

    def __eq__(self, other):
        return isinstance(other, ArrP) and self.a is other.a

    def __ne__(self, other):
        return not self.__eq__(other)

    def __hash__(self):
        return id(self.a)

    def __repr__(self):
        return f'arr(ndim={self.ndim}, shape={self.a.shape}, dtype={self.a.dtype}, writeable={self.writeable})'


class TBP:
    __slots__ = ('_blocks', '_index', '_dtypes', '_shape', '_row_dtype', '_offs')

    def __init__(self, tb, inputs=()):
        self._blocks = [ArrP(b, inputs) for b in tb._blocks]
        offs = [0]
        for b in tb._blocks:
            offs.append(offs[-1] + (1 if b.ndim == 1 else b.shape[1]))
        self._offs = offs          # ghost prefix offsets, recomputed from the real blocks
        self._index = list(tb._index)
        self._dtypes = list(tb._dtypes)
        self._shape = tuple(tb._shape)
        self._row_dtype = tb._row_dtype

    def _key(self):
        return (self._blocks, self._index, self._dtypes, self._shape, self._row_dtype)

    def __eq__(self, other):
        return isinstance(other, TBP) and self._key() == other._key()

    def __ne__(self, other):
        return not self.__eq__(other)

    def __repr__(self):
        return f'TB(shape={self._shape}, blocks={self._blocks}, index={self._index})'


def view(obj, inputs=()):
    """real object -> proxy for contract evaluation"""
    from static_frame.core.type_blocks import TypeBlocks
    if isinstance(obj, np.ndarray):
        return ArrP(obj, inputs)
    if isinstance(obj, TypeBlocks):
        return TBP(obj, inputs)
    if isinstance(obj, list):
        return [view(x, inputs) for x in obj]
    if isinstance(obj, tuple):
        return tuple(view(x, inputs) for x in obj)
    return obj


def input_arrays(objs):
    from static_frame.core.type_blocks import TypeBlocks
    out = []
    for o in objs:
        if isinstance(o, np.ndarray):
            out.append(o)
        elif isinstance(o, TypeBlocks):
            out.extend(o._blocks)
        elif isinstance(o, (list, tuple)):
            out.extend(input_arrays(o))
    return out
