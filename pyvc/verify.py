"""Per-function driver: extract the real function, run the engine, discharge obligations with
z3 (cvc5 takes z3's unknowns), concretise counter-models."""
from __future__ import annotations
import ast
import hashlib
import os
import subprocess
import tempfile
import time
import traceback
import z3
from .sorts import (VInt, VBool, VU, VNone, VOpt, VSlice, VTuple, VList, VRec, VConst, VUnknown, Unsupported,
                    define_record)
from .engine import Engine, SpecError, Obligation
from .menv import Repo, ModuleEnv
from .npmodel import NpModuleEnv, install_records, DTYPE_AXIOMS, arr_wellformed

CVC5 = '/usr/bin/cvc5'


def concretize(v, model):
    """symbolic value -> plain Python value under a z3 model (model completion on)."""
    def ev(t):
        return model.eval(t, model_completion=True)
    if isinstance(v, VInt):
        return ev(v.t).as_long()
    if isinstance(v, VBool):
        return z3.is_true(ev(v.t))
    if isinstance(v, VNone):
        return None
    if isinstance(v, VOpt):
        return None if z3.is_true(ev(v.isnone)) else concretize(v.val, model)
    if isinstance(v, VSlice):
        return ('slice', concretize(v.start, model), concretize(v.stop, model), concretize(v.step, model))
    if isinstance(v, VTuple):
        return ('tuple', [concretize(i, model) for i in v.items])
    if isinstance(v, VList):
        n = ev(v.length).as_long()
        n = max(0, min(n, 64))
        from .sorts import list_get
        return ('list', [concretize(list_get(v, z3.IntVal(k)), model) for k in range(n)])
    if isinstance(v, VRec):
        return ('rec', v.name, {f: concretize(x, model) for f, x in v.fields.items()})
    if isinstance(v, VU):
        return ('u', v.sort, str(ev(v.t)))
    return ('?', repr(v))


def _int_leaves(v, out):
    if isinstance(v, VInt):
        out.append(v.t)
    elif isinstance(v, VOpt):
        _int_leaves(v.val, out)
    elif isinstance(v, VSlice):
        for p in (v.start, v.stop, v.step):
            _int_leaves(p, out)
    elif isinstance(v, VTuple):
        for i in v.items:
            _int_leaves(i, out)
    elif isinstance(v, VList):
        out.append(v.length)
        from .sorts import list_get
        for k in range(4):
            try:
                _int_leaves(list_get(v, z3.IntVal(k)), out)
            except Exception:
                break
    elif isinstance(v, VRec):
        for x in v.fields.values():
            _int_leaves(x, out)


def _small_bounds(params, B=6):
    leaves = []
    for v in params.values():
        _int_leaves(v, leaves)
    return [z3.And(t >= -B, t <= B) for t in leaves if z3.is_int(t)]


def _check(pc, goal, timeout_ms, mbqi=True):
    s = z3.Solver()
    s.set('timeout', timeout_ms)
    if not mbqi:
        s.set('smt.mbqi', False)      # pure E-matching: fast on the array-property style hypotheses used here
    s.add(*pc)
    s.add(z3.Not(goal))
    t0 = time.time()
    r = s.check()
    return r, s, (time.time() - t0) * 1000


def _cvc5(smt2: str, timeout_s: int):
    with tempfile.NamedTemporaryFile('w', suffix='.smt2', delete=False, dir=os.environ.get('VERIF_SCRATCH', None)) as f:
        f.write('(set-logic ALL)\n' + smt2 + '\n(check-sat)\n')
        path = f.name
    try:
        p = subprocess.run([CVC5, '--lang', 'smt2', f'--tlimit={timeout_s * 1000}', path],
                           capture_output=True, text=True, timeout=timeout_s + 5)
        out = p.stdout.strip().splitlines()
        return out[0] if out else 'unknown'
    except Exception:
        return 'unknown'
    finally:
        os.unlink(path)


def discharge(ob: Obligation, timeout_ms=10000, use_cvc5=True, hook=None):
    """-> dict(verdict=proved|refuted|undecided, backend, ms, model?)"""
    g = ob.goal
    if z3.is_true(z3.simplify(g)) if z3.is_bool(g) else False:
        return dict(verdict='proved', backend='syntactic', ms=0.0)
    r, s, ms = _check(ob.pc, g, max(1000, min(5000, timeout_ms // 6)), mbqi=False)
    if r == z3.unsat:
        return dict(verdict='proved', backend='z3(e-matching)', ms=ms)
    ms0 = ms
    r, s, ms = _check(ob.pc, g, max(2000, min(10000, timeout_ms // 3)) if use_cvc5 else timeout_ms)     # cvc5 gets the long budget
    ms += ms0
    if r == z3.unsat:
        return dict(verdict='proved', backend='z3', ms=ms)
    if r == z3.sat:
        m = s.model()
        if ob.params:      # prefer a small counter-model (replayable): bound every integer leaf of the inputs
            small = _small_bounds(ob.params)
            if small:
                for B in (6, 16):        # only on a refutation: worth the time, a replayable input is what makes the report useful
                    s.push()
                    s.add(*_small_bounds(ob.params, B))
                    s.set('timeout', 10000)
                    ok = s.check() == z3.sat
                    if ok:
                        m = s.model()
                    s.pop()
                    if ok:
                        break
        cex = None
        if ob.params:
            try:
                cex = {k: concretize(v, m) for k, v in ob.params.items()}
                if hook:
                    import importlib
                    mod, fn = hook.split(':')
                    cex['__hook'] = getattr(importlib.import_module(mod), fn)(m, ob.params)
            except Exception as e:       # model incomplete for some leaf
                cex = {'error': repr(e)}
        return dict(verdict='refuted', backend='z3', ms=ms, model=cex, tainted=ob.tainted)
    if use_cvc5:
        t0 = time.time()
        res = _cvc5(s.to_smt2().replace('(check-sat)', ''), max(1, timeout_ms // 1000))
        if res != 'unsat':      # last resort: both z3 configurations again with the full budget (wall-clock budgets shrink when all cores are busy)
            r3, s3, ms3 = _check(ob.pc, g, timeout_ms, mbqi=False)
            if r3 == z3.unsat:
                return dict(verdict='proved', backend='z3(e-matching)', ms=ms + ms3)
            r3, s3, ms4 = _check(ob.pc, g, timeout_ms)
            if r3 == z3.unsat:
                return dict(verdict='proved', backend='z3', ms=ms + ms3 + ms4)
        ms2 = (time.time() - t0) * 1000
        if res == 'unsat':
            return dict(verdict='proved', backend='cvc5', ms=ms + ms2)
    return dict(verdict='undecided', backend='z3+cvc5' if use_cvc5 else 'z3', ms=ms, reason=f'solver {r}: {s.reason_unknown()}')


_OBS, _OBS_ARGS = [], (10000, None)


def _discharge_idx(i):
    try:
        return discharge(_OBS[i], _OBS_ARGS[0], hook=_OBS_ARGS[1])
    except Exception as e:      # a crash in a child must not look like a verdict
        return dict(verdict='undecided', backend='z3', ms=0.0, reason=f'discharge crashed: {e!r}')


def verify_target(repo_root: str, relpath: str, qualname: str, contract: dict, registry: dict,
                  records: dict, timeout_ms=10000, consts=None):
    """verify one function; returns a plain-data report (picklable)."""
    t0 = time.time()
    rep = dict(fn=f'{relpath}:{qualname}', relpath=relpath, qualname=qualname, obligations=[], unsupported=[],
               status='ok', props=contract.get('props', []), wall_s=0.0)
    try:
        install_records()
        for name, fields in records.items():
            define_record(name, fields)
        repo = Repo(repo_root)
        node, seg, cls = repo.find_function(relpath, qualname)
        if node is None:
            rep['status'] = 'spec-drift'
            rep['detail'] = 'function not found in source'
            return rep
        rep['sha256'] = hashlib.sha256(seg.encode()).hexdigest()
        rep['lines'] = (node.lineno, node.end_lineno)
        n_loops = sum(isinstance(n, (ast.For, ast.While)) for n in ast.walk(node))
        if 'loops' in contract and contract.get('n_loops', n_loops) != n_loops:
            rep['status'] = 'spec-drift'
            rep['detail'] = f'loop count changed: contract expects {contract.get("n_loops")}, source has {n_loops}'
            return rep
        if contract.get('is_generator') and contract.get('ensures') and not contract.get('assumed'):
            # what callers assume about the whole yield sequence (`ensures` over `result`) must be proved here as an exit condition over the
            # ghost list `yields` (same text): a mechanical link, not a second statement
            import re as _re
            exits = set(contract.get('at_exit', []))
            for e in contract['ensures']:
                if _re.sub(r'\bresult\b', 'yields', e) not in exits:
                    raise SpecError(f'{qualname}: generator ensures not backed by an at_exit condition over `yields`: {e[:80]}')
        variants = contract.get('variants') or [None]
        obs = []
        eng = None
        all_unsupported, modelled, paths = [], set(), 0
        assumed_used, callee_used, ghost_hits = set(), set(), set()
        dead_exits = []
        for vi, var in enumerate(variants):
            c2 = contract
            if var is not None:
                c2 = dict(contract)
                c2['params'] = dict(contract.get('params', {}), **var)
                c2['requires'] = list(contract.get('requires', [])) + list(contract.get('requires_variant', {}).get(vi, []))
                c2['ensures'] = list(contract.get('ensures', [])) + list(contract.get('ensures_variant', {}).get(vi, []))
            menv = NpModuleEnv(repo, relpath, registry, consts)
            eng = Engine(node, c2, registry, menv, qualname, cls_name=cls)
            for ob in eng.run():
                if var is not None:
                    ob.name = f'{ob.name}|v{vi}'
                obs.append(ob)
            all_unsupported += [(l, (f'[variant {vi}] ' if var is not None else '') + w) for l, w in eng.unsupported]
            modelled |= eng.stmts_modelled
            paths += eng.paths_done
            assumed_used |= eng.assumed_used
            dead_exits += list(eng.dead_exits)
            callee_used |= eng.callee_used
            ghost_hits |= eng.ghost_hits
        eng.unsupported, eng.stmts_modelled, eng.paths_done = all_unsupported, modelled, paths
        missing = set(contract.get('ghost_after', {})) - ghost_hits
        if missing and not all_unsupported:
            present = {ast.unparse(n) for n in ast.walk(node) if isinstance(n, ast.stmt)}
            gone = sorted(m for m in missing if m not in present)
            if gone:
                raise SpecError(f'{qualname}: ghost_after anchors not found in the source (spec drift): {gone}')
            # the anchor statement is still in the source but no explored path reached it (dead branch under this contract): not drift;
            # reported so that the function cannot count as fully verified
            for m in sorted(missing):
                all_unsupported.append((node.lineno, f'ghost anchor never reached on any explored path: {m}'))
            eng.unsupported = all_unsupported
        body_stmts = [n for n in ast.walk(node) if isinstance(n, ast.stmt) and n is not node
                      and not (isinstance(n, ast.Expr) and isinstance(n.value, ast.Constant))]
        rep['stmts_total'] = len({n.lineno for n in body_stmts})
        rep['stmts_modelled'] = len(eng.stmts_modelled & {n.lineno for n in body_stmts})
        rep['paths'] = eng.paths_done
        rep['assumed_used'] = sorted(assumed_used)
        rep['dead_exit_paths'] = sorted(set(dead_exits))
        if dead_exits and len(dead_exits) >= max(1, paths):
            raise SpecError(f'{qualname}: every explored exit is unreachable under the accumulated assumptions (vacuous proof)')
        rep['lenient_skips'] = [dict(lineno=l, why=w) for l, w in getattr(eng, 'lenient_skips', [])]
        rep['callee_contracts_used'] = sorted(callee_used)
        rep['unsupported'] = [dict(lineno=l, why=w) for l, w in eng.unsupported]
        # canary: the entry state must be satisfiable and `False` must be refutable there
        can = Obligation('canary-false-is-refuted', 'canary', eng.entry_pc, z3.BoolVal(False), node.lineno, qualname)
        r = discharge(can, 5000, use_cvc5=False)
        rep['canary'] = 'ok' if r['verdict'] == 'refuted' else f'FAILED ({r["verdict"]})'
        seen = {}
        names = []
        for ob in obs:
            k = seen.get(ob.name, 0)
            seen[ob.name] = k + 1
            names.append(ob.name if k == 0 else f'{ob.name}#p{k}')
        global _OBS, _OBS_ARGS
        _OBS, _OBS_ARGS = obs, (timeout_ms, contract.get('model_hook'))
        inner = int(os.environ.get('VERIF_INNER_JOBS', '6'))
        results = None
        if len(obs) > 150 and inner > 1:
            # many obligations of one function: discharge in forked children (they inherit the z3 terms; results are plain data)
            import multiprocessing as mp
            try:
                with mp.get_context('fork').Pool(inner) as pool:
                    results = pool.map(_discharge_idx, range(len(obs)), chunksize=8)
            except (AssertionError, OSError):      # e.g. inside a daemonic worker: children not allowed -> sequential
                results = None
        if results is None:
            results = [_discharge_idx(i) for i in range(len(obs))]
        for ob, name, r in zip(obs, names, results):
            r.update(name=name, kind=ob.kind, lineno=ob.lineno, note=ob.note)
            rep['obligations'].append(r)
    except SpecError as e:
        rep['status'] = 'spec-error'
        rep['detail'] = str(e)
    except Exception as e:
        rep['status'] = 'checker-fault'
        rep['detail'] = traceback.format_exc()
    rep['wall_s'] = time.time() - t0
    return rep
