"""Symbolic values and sort descriptors for pyvc.

A *sort descriptor* is a small immutable tree:
    'int' | 'bool' | 'elem' | 'label' | 'dtype' | 'slice'
    ('opt', s) | ('tuple', (s1, ...)) | ('list', s) | ('rec', name, ((field, s), ...))
A symbolic value is a Python object (V*) whose leaves are z3 terms.  Integers are z3 `Int`
(mathematical, exact for Python int).  Lists are (length, one SMT array per leaf of the element
sort).  None is modelled by the `opt` wrapper (a Boolean `isnone` leaf).
"""
from __future__ import annotations
import z3

ELEM = z3.DeclareSort('Elem')      # uninterpreted array cell / python object
LABEL = z3.DeclareSort('Label')    # uninterpreted hashable label
DTYPE = z3.DeclareSort('Dtype')    # uninterpreted numpy dtype (kind(), itemsize via functions)

_UNINTERP = {'elem': ELEM, 'label': LABEL, 'dtype': DTYPE}

_counter = [0]


def fresh_name(prefix: str) -> str:
    _counter[0] += 1
    return f'{prefix}!{_counter[0]}'


class Unsupported(Exception):
    """A construct outside the modelled subset was met on this path."""


# ---------------------------------------------------------------------------------------------
# sort descriptor parsing

_RECORDS: dict = {}


def define_record(name: str, fields: dict) -> None:
    _RECORDS[name] = tuple((k, parse_sort(v)) for k, v in fields.items())


def parse_sort(text):
    if not isinstance(text, str):
        return text
    text = text.strip()
    if text in ('int', 'bool', 'elem', 'label', 'dtype', 'slice', 'str', 'unknown'):
        return text
    if text == 'optint':
        return ('opt', 'int')
    if text.startswith('rec:'):
        name = text[4:]
        return ('rec', name, _RECORDS[name])
    if text in _RECORDS:
        return ('rec', text, _RECORDS[text])
    head, _, rest = text.partition('[')
    if not rest.endswith(']'):
        raise ValueError(f'bad sort {text!r}')
    inner = rest[:-1]
    if head == 'opt':
        return ('opt', parse_sort(inner))
    if head == 'list':
        return ('list', parse_sort(inner))
    if head == 'tuple':
        parts, depth, cur = [], 0, ''
        for ch in inner:
            if ch == '[':
                depth += 1
            elif ch == ']':
                depth -= 1
            if ch == ',' and depth == 0:
                parts.append(cur)
                cur = ''
            else:
                cur += ch
        if cur.strip():
            parts.append(cur)
        return ('tuple', tuple(parse_sort(p) for p in parts))
    raise ValueError(f'bad sort {text!r}')


# ---------------------------------------------------------------------------------------------
# values

class V:
    pass


class VInt(V):
    __slots__ = ('t',)

    def __init__(self, t):
        self.t = z3.IntVal(t) if isinstance(t, int) else t

    def __repr__(self):
        return f'VInt({self.t})'


class VBool(V):
    __slots__ = ('t',)

    def __init__(self, t):
        self.t = z3.BoolVal(t) if isinstance(t, bool) else t

    def __repr__(self):
        return f'VBool({self.t})'


class VU(V):
    """value of an uninterpreted sort (elem / label / dtype)."""
    __slots__ = ('t', 'sort')

    def __init__(self, t, sort):
        self.t, self.sort = t, sort

    def __repr__(self):
        return f'VU[{self.sort}]({self.t})'


class VNone(V):
    def __repr__(self):
        return 'VNone'


class VOpt(V):
    __slots__ = ('isnone', 'val', 'sort')

    def __init__(self, isnone, val, sort):
        self.isnone, self.val, self.sort = isnone, val, sort   # sort = inner sort

    def __repr__(self):
        return f'VOpt({self.isnone},{self.val})'


class VSlice(V):
    __slots__ = ('start', 'stop', 'step')

    def __init__(self, start, stop, step):
        self.start, self.stop, self.step = start, stop, step

    def __repr__(self):
        return f'VSlice({self.start},{self.stop},{self.step})'


class VTuple(V):
    __slots__ = ('items',)

    def __init__(self, items):
        self.items = tuple(items)

    def __repr__(self):
        return f'VTuple{self.items}'


class VList(V):
    """length + one z3 array per leaf of the element sort; sort None = not yet known (empty literal)."""
    __slots__ = ('length', 'sort', 'arrs')

    def __init__(self, length, sort, arrs):
        self.length = z3.IntVal(length) if isinstance(length, int) else length
        self.sort, self.arrs = sort, tuple(arrs)

    def __repr__(self):
        return f'VList(len={self.length}, {self.sort})'


class VRec(V):
    __slots__ = ('name', 'fields', 'fsorts')

    def __init__(self, name, fields, fsorts):
        self.name, self.fields, self.fsorts = name, dict(fields), fsorts

    def __repr__(self):
        return f'VRec:{self.name}({self.fields})'


class VConst(V):
    """a concrete Python object (string, class tag, enum-like module constant)."""
    __slots__ = ('py',)

    def __init__(self, py):
        self.py = py

    def __repr__(self):
        return f'VConst({self.py!r})'


class VRange(V):
    __slots__ = ('start', 'stop', 'step')

    def __init__(self, start, stop, step):
        self.start, self.stop, self.step = start, stop, step


class VSeq(V):
    """a lazily described finite sequence: length + element function (views, zips, comprehensions)"""
    __slots__ = ('length', 'get')

    def __init__(self, length, get):
        self.length, self.get = length, get


class VUnknown(V):
    """a havocked value of unknown sort (result of an unmodelled call).  Any use taints the path."""
    __slots__ = ('why',)

    def __init__(self, why=''):
        self.why = why

    def __repr__(self):
        return f'VUnknown({self.why})'


class VFunc(V):
    __slots__ = ('fn', 'name')

    def __init__(self, fn, name=''):
        self.fn, self.name = fn, name


# ---------------------------------------------------------------------------------------------
# leaves

def z3sorts(sort) -> list:
    """z3 sorts of the leaves of `sort`, in canonical order."""
    if sort == 'int':
        return [z3.IntSort()]
    if sort == 'bool':
        return [z3.BoolSort()]
    if sort in _UNINTERP:
        return [_UNINTERP[sort]]
    if sort == 'slice':
        return [z3.BoolSort(), z3.IntSort()] * 3
    if sort[0] == 'opt':
        return [z3.BoolSort()] + z3sorts(sort[1])
    if sort[0] == 'tuple':
        out = []
        for s in sort[1]:
            out += z3sorts(s)
        return out
    if sort[0] == 'list':
        return [z3.IntSort()] + [z3.ArraySort(z3.IntSort(), zs) for zs in z3sorts(sort[1])]
    if sort[0] == 'rec':
        out = []
        for _, s in sort[2]:
            out += z3sorts(s)
        return out
    raise Unsupported(f'no z3 sorts for {sort!r}')


def default_value(sort):
    """an arbitrary but fixed value (used for the payload of None)."""
    return from_leaves(sort, iter([_default_term(zs) for zs in z3sorts(sort)]))


def _default_term(zs):
    if zs == z3.IntSort():
        return z3.IntVal(0)
    if zs == z3.BoolSort():
        return z3.BoolVal(False)
    if zs.kind() == z3.Z3_ARRAY_SORT:
        return z3.K(zs.domain(), _default_term(zs.range()))
    return z3.Const(f'default_{zs.name()}', zs)


def fresh_value(sort, prefix='v'):
    return from_leaves(sort, iter([z3.Const(fresh_name(prefix), zs) for zs in z3sorts(sort)]))


def from_leaves(sort, it):
    if sort == 'int':
        return VInt(next(it))
    if sort == 'bool':
        return VBool(next(it))
    if sort in _UNINTERP:
        return VU(next(it), sort)
    if sort == 'slice':
        parts = []
        for _ in range(3):
            isn = next(it)
            val = next(it)
            parts.append(VOpt(isn, VInt(val), 'int'))
        return VSlice(*parts)
    if sort[0] == 'opt':
        isn = next(it)
        return VOpt(isn, from_leaves(sort[1], it), sort[1])
    if sort[0] == 'tuple':
        return VTuple([from_leaves(s, it) for s in sort[1]])
    if sort[0] == 'list':
        length = next(it)
        arrs = [next(it) for _ in z3sorts(sort[1])]
        return VList(length, sort[1], arrs)
    if sort[0] == 'rec':
        return VRec(sort[1], {f: from_leaves(s, it) for f, s in sort[2]}, sort[2])
    raise Unsupported(f'from_leaves {sort!r}')


def infer_sort(v):
    if isinstance(v, VInt):
        return 'int'
    if isinstance(v, VBool):
        return 'bool'
    if isinstance(v, VU):
        return v.sort
    if isinstance(v, VNone):
        return ('opt', None)
    if isinstance(v, VOpt):
        return ('opt', v.sort)
    if isinstance(v, VSlice):
        return 'slice'
    if isinstance(v, VTuple):
        return ('tuple', tuple(infer_sort(i) for i in v.items))
    if isinstance(v, VList):
        return ('list', v.sort)
    if isinstance(v, VRec):
        return ('rec', v.name, v.fsorts)
    raise Unsupported(f'cannot infer sort of {v!r}')


def unify(a, b):
    """least common sort of two descriptors (None = unknown hole)."""
    if a is None:
        return b
    if b is None:
        return a
    if a == b:
        return a
    if isinstance(a, tuple) and a[0] == 'opt':
        if isinstance(b, tuple) and b[0] == 'opt':
            return ('opt', unify(a[1], b[1]))
        return ('opt', unify(a[1], b))
    if isinstance(b, tuple) and b[0] == 'opt':
        return ('opt', unify(a, b[1]))
    if isinstance(a, tuple) and isinstance(b, tuple) and a[0] == b[0]:
        if a[0] == 'tuple' and len(a[1]) == len(b[1]):
            return ('tuple', tuple(unify(x, y) for x, y in zip(a[1], b[1])))
        if a[0] == 'list':
            return ('list', unify(a[1], b[1]))
    raise Unsupported(f'cannot unify sorts {a!r} and {b!r}')


def sort_complete(s) -> bool:
    if s is None:
        return False
    if isinstance(s, str):
        return True
    if s[0] in ('opt', 'list'):
        return sort_complete(s[1])
    if s[0] == 'tuple':
        return all(sort_complete(x) for x in s[1])
    return True


def coerce(v, sort):
    """view value `v` at `sort` (lifting None / T into opt[T], tuples item-wise)."""
    if isinstance(v, VUnknown):
        raise Unsupported(f'unknown value used at sort {sort!r}: {v.why}')
    if sort == 'int':
        if isinstance(v, VInt):
            return v
        if isinstance(v, VBool):
            return VInt(z3.If(v.t, 1, 0))
    elif sort == 'bool':
        if isinstance(v, VBool):
            return v
    elif sort in _UNINTERP:
        if isinstance(v, VU) and v.sort == sort:
            return v
    elif sort == 'slice':
        if isinstance(v, VSlice):
            return VSlice(*(coerce(p, ('opt', 'int')) for p in (v.start, v.stop, v.step)))
    elif sort[0] == 'opt':
        if isinstance(v, VNone):
            return VOpt(z3.BoolVal(True), default_value(sort[1]), sort[1])
        if isinstance(v, VOpt):
            if v.sort == sort[1]:
                return v
            return VOpt(v.isnone, coerce(v.val, sort[1]), sort[1])
        return VOpt(z3.BoolVal(False), coerce(v, sort[1]), sort[1])
    elif sort[0] == 'tuple':
        if isinstance(v, VTuple) and len(v.items) == len(sort[1]):
            return VTuple([coerce(i, s) for i, s in zip(v.items, sort[1])])
    elif sort[0] == 'list':
        if isinstance(v, VList):
            if v.sort == sort[1]:
                return v
            if v.sort is None:      # empty literal
                zs = z3sorts(sort[1])
                return VList(v.length, sort[1], [_default_term(z3.ArraySort(z3.IntSort(), z)) for z in zs])
    elif sort[0] == 'rec':
        if isinstance(v, VRec) and v.name == sort[1]:
            return v
    raise Unsupported(f'cannot view {v!r} at sort {sort!r}')


def leaves(v, sort) -> list:
    v = coerce(v, sort)
    if sort in ('int', 'bool') or sort in _UNINTERP:
        return [v.t]
    if sort == 'slice':
        out = []
        for p in (v.start, v.stop, v.step):
            out += [p.isnone, p.val.t]
        return out
    if sort[0] == 'opt':
        return [v.isnone] + leaves(v.val, sort[1])
    if sort[0] == 'tuple':
        out = []
        for i, s in zip(v.items, sort[1]):
            out += leaves(i, s)
        return out
    if sort[0] == 'list':
        return [v.length] + list(v.arrs)
    if sort[0] == 'rec':
        out = []
        for f, s in sort[2]:
            out += leaves(v.fields[f], s)
        return out
    raise Unsupported(f'leaves {sort!r}')


def ite(c, a, b, sort=None):
    if sort is None:
        sort = unify(infer_sort(a), infer_sort(b))
    if not sort_complete(sort):
        raise Unsupported(f'merge at incomplete sort {sort!r}')
    la, lb = leaves(a, sort), leaves(b, sort)
    return from_leaves(sort, iter([z3.If(c, x, y) for x, y in zip(la, lb)]))


def equal(a, b):
    """structural == as a z3 Bool (Python semantics for the modelled sorts)."""
    for x, y in ((a, b), (b, a)):
        if isinstance(x, VConst) and isinstance(x.py, tuple) and x.py and x.py[0] == 'dtype_kind':
            from .npmodel import kind_of, KINDS
            if isinstance(y, VConst) and isinstance(y.py, str) and y.py in KINDS:
                return kind_of(x.py[1]) == KINDS[y.py]
            if isinstance(y, VConst) and isinstance(y.py, tuple) and y.py[0] == 'dtype_kind':
                return kind_of(x.py[1]) == kind_of(y.py[1])
            raise Unsupported(f'dtype kind compared with {y!r}')
    if isinstance(a, VConst) and isinstance(b, VConst):
        return z3.BoolVal(a.py == b.py)
    if isinstance(a, VConst) or isinstance(b, VConst):
        c, o = (a, b) if isinstance(a, VConst) else (b, a)
        if isinstance(o, VInt) and isinstance(c.py, int):
            return o.t == c.py
        if isinstance(o, (VInt, VBool, VSlice, VTuple, VList, VNone)):
            return z3.BoolVal(False)
        if isinstance(o, VU) and o.sort == 'elem' and isinstance(c.py, str):
            # an opaque element compared with a string literal: the literal is the element constant strconst_<text>
            # (distinct literals are NOT assumed to be distinct elements: sound, only equalities with the same literal are related)
            return o.t == z3.Const('strconst_' + c.py, ELEM)
        raise Unsupported(f'== between {a!r} and {b!r}')
    if isinstance(a, VNone) and isinstance(b, VNone):
        return z3.BoolVal(True)
    try:
        sort = unify(infer_sort(a), infer_sort(b))
    except Unsupported:
        return z3.BoolVal(False)       # different Python types compare unequal
    if not sort_complete(sort):
        if isinstance(a, VNone) or isinstance(b, VNone):
            o = b if isinstance(a, VNone) else a
            return o.isnone if isinstance(o, VOpt) else z3.BoolVal(False)
        raise Unsupported(f'== at incomplete sort {sort!r}')
    return _equal_at(coerce(a, sort), coerce(b, sort), sort)


def _equal_at(a, b, sort):
    if sort in ('int', 'bool') or sort in _UNINTERP:
        return a.t == b.t
    if sort == 'slice':
        return z3.And(*[_equal_at(x, y, ('opt', 'int')) for x, y in
                        ((a.start, b.start), (a.stop, b.stop), (a.step, b.step))])
    if sort[0] == 'opt':
        return z3.And(a.isnone == b.isnone, z3.Or(a.isnone, _equal_at(a.val, b.val, sort[1])))
    if sort[0] == 'tuple':
        return z3.And(*[_equal_at(x, y, s) for x, y, s in zip(a.items, b.items, sort[1])])
    if sort[0] == 'list':
        i = z3.Int(fresh_name('eqi'))
        ea = from_leaves(sort[1], iter([z3.Select(arr, i) for arr in a.arrs]))
        eb = from_leaves(sort[1], iter([z3.Select(arr, i) for arr in b.arrs]))
        return z3.And(a.length == b.length,
                      z3.ForAll([i], z3.Implies(z3.And(0 <= i, i < a.length), _equal_at(ea, eb, sort[1]))))
    if sort[0] == 'rec':
        return z3.And(*[_equal_at(a.fields[f], b.fields[f], s) for f, s in sort[2]])
    raise Unsupported(f'== at {sort!r}')


def list_get(lst: VList, idx):
    """element at z3 Int index (no bounds obligation here)."""
    if lst.sort is None:
        raise Unsupported('index into list of unknown element sort')
    return from_leaves(lst.sort, iter([z3.Select(arr, idx) for arr in lst.arrs]))


def list_append(lst: VList, v):
    sort = lst.sort
    if sort is None or not sort_complete(sort):
        sort = unify(sort, infer_sort(v))
        lst = coerce(VList(lst.length, None, []), ('list', sort)) if lst.sort is None else lst
        if lst.sort != sort:
            raise Unsupported('list element sort refinement')
    lv = leaves(v, sort)
    return VList(lst.length + 1, sort, [z3.Store(arr, lst.length, x) for arr, x in zip(lst.arrs, lv)])


def list_literal(items):
    if not items:
        return VList(0, None, [])
    sort = None
    for i in items:
        sort = unify(sort, infer_sort(i))
    if not sort_complete(sort):
        raise Unsupported(f'list literal of incomplete sort {sort!r}')
    zs = z3sorts(sort)
    arrs = [_default_term(z3.ArraySort(z3.IntSort(), z)) for z in zs]
    for k, i in enumerate(items):
        lv = leaves(i, sort)
        arrs = [z3.Store(arr, k, x) for arr, x in zip(arrs, lv)]
    return VList(len(items), sort, arrs)
