"""pyvc engine: forward symbolic execution of real /repo function ASTs against sidecar contracts.

* every call to a /repo function is replaced by the callee's contract (modular);
* loops are cut at their sidecar invariant (initiation / preservation / use), so reasoning is
  inductive and unbounded;
* generators are checked against yield contracts over ghost state;
* each obligation is a separate (path condition, goal) pair, discharged later by an SMT solver.

Python semantics encoded: ints are mathematical; // and % are floor division with explicit
quotient/remainder; negative list indices; None via `opt`; truthiness of None/0/empty list;
IndexError / TypeError-on-None / ZeroDivisionError are obligations ("cannot happen") unless the
contract declares them.
"""
from __future__ import annotations
import ast
import z3
from .sorts import (VSeq, V, VInt, VBool, VU, VNone, VOpt, VSlice, VTuple, VList, VRec, VConst, VRange,
                    VUnknown, VFunc, Unsupported, parse_sort, fresh_value, fresh_name, coerce, leaves,
                    from_leaves, infer_sort, unify, sort_complete, ite, equal, list_get, list_append,
                    list_literal, default_value, z3sorts)

NORMAL, BREAK, CONTINUE, RETURN, RAISE = 'normal', 'break', 'continue', 'return', 'raise'


class ForkReq(Exception):
    def __init__(self, cond, key=None):
        self.cond, self.key = cond, key


class RaiseReq(Exception):
    def __init__(self, exc):
        self.exc = exc


class SpecError(Exception):
    """the sidecar contract is malformed or no longer matches the source (spec drift)."""


class Obligation:
    __slots__ = ('name', 'kind', 'pc', 'goal', 'lineno', 'fn', 'tainted', 'note', 'params')

    def __init__(self, name, kind, pc, goal, lineno, fn, tainted=False, note='', params=None):
        self.name, self.kind, self.pc, self.goal = name, kind, list(pc), goal
        self.lineno, self.fn, self.tainted, self.note, self.params = lineno, fn, tainted, note, params


class State:
    __slots__ = ('env', 'pc', 'old', 'tainted', 'spec', 'trace', 'aliased', 'defs', 'forced')

    def __init__(self):
        self.env, self.pc, self.old = {}, [], None
        self.tainted, self.spec, self.trace, self.aliased = False, False, [], set()
        self.defs = []       # definitional constraints of fresh symbols created while evaluating a spec
        self.forced = {}     # decisions already taken for the statement being re-executed after a fork (site key -> bool)

    def clone(self):
        s = State()
        s.env, s.pc, s.old = dict(self.env), list(self.pc), self.old
        s.tainted, s.spec, s.trace, s.aliased = self.tainted, self.spec, list(self.trace), set(self.aliased)
        s.defs = self.defs   # shared on purpose: definitions are collected by the outermost spec evaluation
        s.forced = dict(self.forced)
        return s

    def define(self, fact):
        (self.defs if self.spec else self.pc).append(fact)


_MUTATORS = {'append', 'extend', 'pop', 'insert', 'remove', 'clear', 'reverse', 'sort', 'add', 'update',
             'appendleft', 'popleft', 'discard', 'setdefault', 'popitem'}


def assigned_names(stmts) -> set:
    """root names possibly (re)bound or mutated by a statement list."""
    out = set()

    def root(n):
        while isinstance(n, (ast.Attribute, ast.Subscript)):
            n = n.value
        return n.id if isinstance(n, ast.Name) else None

    for stmt in stmts:
        for n in ast.walk(stmt):
            if isinstance(n, ast.Name) and isinstance(n.ctx, (ast.Store, ast.Del)):
                out.add(n.id)
            elif isinstance(n, (ast.Attribute, ast.Subscript)) and isinstance(n.ctx, (ast.Store, ast.Del)):
                r = root(n)
                if r:
                    out.add(r)
            elif isinstance(n, ast.Call) and isinstance(n.func, ast.Attribute) and n.func.attr in _MUTATORS:
                r = root(n.func.value)
                if r:
                    out.add(r)
            elif isinstance(n, ast.Call) and isinstance(n.func, ast.Name) and n.func.id == 'next' and n.args and isinstance(n.args[0], ast.Name):
                out.add(n.args[0].id)       # next(it) advances the iterator
    return out


_QCACHE = {}


def _has_quant(f):
    k = f.get_id()
    hit = _QCACHE.get(k)
    r = hit[0] if hit is not None else None
    if r is None:
        r = False
        stack = [f]
        seen = set()
        while stack:
            t = stack.pop()
            if t.get_id() in seen:
                continue
            seen.add(t.get_id())
            if z3.is_quantifier(t):
                r = True
                break
            stack.extend(t.children())
        _QCACHE[k] = (r, f)      # the term is kept alive so that its id cannot be reused by another term
    return r


class Engine:
    """verifies one function against its contract; collects obligations."""

    def __init__(self, fn_ast, contract, registry, module_env, qualname, cls_name=None, solver_timeout_ms=2000):
        self.fn, self.c, self.reg, self.menv = fn_ast, contract, registry, module_env
        self.qualname, self.cls_name = qualname, cls_name
        self.obligations: list = []
        self.unsupported: list = []         # (lineno, message) paths abandoned
        self.paths_done = 0
        self.stmts_modelled = set()
        self.solver = z3.Solver()
        self.solver.set('timeout', solver_timeout_ms)
        self.loops = self._index_loops()
        self.div_count = 0
        self.is_generator = any(isinstance(n, (ast.Yield, ast.YieldFrom)) for n in ast.walk(fn_ast)
                                if not isinstance(n, (ast.Lambda,)))
        self.param_values = {}
        self.decide_calls = 0
        self.assumed_used = set()
        self.dead_exits = []
        self.callee_used = set()      # repo callees whose PROVED contracts were used (modular reasoning)
        self.ghost_hits = set()
        self.lenient_skips = []

    # ------------------------------------------------------------------------------------
    def _index_loops(self):
        loops = []
        for n in ast.walk(self.fn):
            if isinstance(n, (ast.For, ast.While)):
                loops.append(n)
        loops.sort(key=lambda n: (n.lineno, n.col_offset))
        return {id(n): k for k, n in enumerate(loops)}

    # ------------------------------------------------------------------------------------
    # solver helpers
    def decide(self, st, cond, key=None):
        if key is not None and key in st.forced:
            return st.forced[key]      # this statement is being re-executed after a fork on exactly this decision
        cond = z3.simplify(cond)
        if z3.is_true(cond):
            return True
        if z3.is_false(cond):
            return False
        self.decide_calls += 1
        s = self.solver
        s.push()
        try:
            # branch decisions use only the quantifier-free part of the path condition (fast; an undecided branch is simply forked)
            s.add(*[f for f in st.pc if not _has_quant(f)])
            s.push()
            s.add(z3.Not(cond))
            r1 = s.check()
            s.pop()
            if r1 == z3.unsat:
                return True
            s.push()
            s.add(cond)
            r2 = s.check()
            s.pop()
            if r2 == z3.unsat:
                return False
            return None
        finally:
            s.pop()

    def feasible(self, st):
        s = self.solver
        s.push()
        s.add(*[f for f in st.pc if not _has_quant(f)])
        r = s.check()
        s.pop()
        return r != z3.unsat

    def push_guard(self, st, g):
        """temporarily assume `g` while evaluating a guarded sub-expression; returns a token for pop_guards"""
        st.pc.append(g)
        return (len(st.pc) - 1, g)

    def pop_guards(self, st, tokens):
        """remove the guards; facts that were learned under a guard (callee postconditions, definitions) stay, weakened to
        implications by every guard that was active when they were added"""
        for idx, g in reversed(tokens):
            tail = st.pc[idx + 1:]
            del st.pc[idx:]
            st.pc.extend(z3.Implies(g, f) for f in tail)

    def oblige(self, st, goal, name, kind, node=None, note=''):
        if st.spec:
            return
        if z3.is_and(goal) and kind in ('post', 'invariant', 'yield', 'exit', 'raise', 'pre') and goal.num_args() > 1:
            for i, child in enumerate(goal.children()):      # one query per conjunct (DESIGN §2.2 query shaping)
                self.oblige(st, child, f'{name}.{i}', kind, node, note)
            return
        goal = z3.simplify(goal) if z3.is_bool(goal) else goal
        if z3.is_true(goal):
            # trivially true goals are still counted (as discharged syntactically)
            pass
        lineno = getattr(node, 'lineno', 0)
        self.obligations.append(Obligation(name, kind, st.pc, goal, lineno, self.qualname,
                                           tainted=st.tainted, note=note, params=self.param_values))

    # ------------------------------------------------------------------------------------
    # entry
    def run(self):
        c = self.c
        st = State()
        args = self.fn.args
        names = [a.arg for a in args.posonlyargs + args.args + args.kwonlyargs]
        psorts = c.get('params', {})
        for n in names:
            if n in psorts:
                st.env[n] = fresh_value(parse_sort(psorts[n]), n)
            elif n == 'cls':
                st.env[n] = VConst(('class', self.cls_name))
            else:
                st.env[n] = VUnknown(f'parameter {n} has no declared sort')
        for g, srt in c.get('ghost_params', {}).items():
            st.env[g] = fresh_value(parse_sort(srt), g)
        self.param_values = {n: st.env[n] for n in list(names) + list(c.get('ghost_params', {}))
                             if not isinstance(st.env[n], (VUnknown, VConst))}
        from .npmodel import DTYPE_AXIOMS, wellformed_facts
        st.pc.extend(DTYPE_AXIOMS)
        for n in list(st.env):
            st.pc.extend(wellformed_facts(st.env[n]))
        for r in c.get('requires', []):
            self.assume_spec(r, st)
        st.old = dict(st.env)
        for stmt_src in c.get('ghost_init', []):
            for stmt in ast.parse(stmt_src).body:
                st.spec = True
                res = self.exec_stmt(st, stmt)
                assert len(res) == 1 and res[0][1][0] == NORMAL
                st = res[0][0]
                st.spec = False
        if not self.feasible(st):
            raise SpecError(f'{self.qualname}: precondition is unsatisfiable (vacuous contract)')
        self.entry_pc = list(st.pc)
        results = self.exec_block(st, self.fn.body)
        for st2, out in results:
            self.finish_path(st2, out)
        return self.obligations

    def finish_path(self, st, out):
        self.paths_done += 1
        c = self.c
        kind = out[0]
        if kind in (NORMAL, RETURN):
            val = out[1] if kind == RETURN and out[1] is not None else VNone()
            node = out[2] if len(out) > 2 else self.fn
            ln = getattr(node, 'lineno', self.fn.lineno)
            st = st.clone()
            if not self.feasible(st):
                # cover check: this exit is unreachable under the facts accumulated on its own path (a contradictory assumption, or a branch
                # that later facts rule out): its obligations would hold vacuously -- counted and reported with the function
                self.dead_exits.append(ln)
            if self.is_generator:
                posts = c.get('at_exit', [])
                tag = 'exit'
            else:
                st.env['result'] = val
                posts = c.get('ensures', [])
                tag = 'post'
            # callers treat `raises: {Exc: cond}` as "raises iff cond": a normal exit must therefore imply not cond
            for exc, cnd in c.get('raises', {}).items():
                if isinstance(cnd, str) and cnd != 'maybe':
                    g = z3.Not(self.spec_bool(cnd, st, use_old=True, mode='assume'))
                    self.oblige(st, g, f'normal-exit-implies-not-raise-cond[{exc}]@L{ln}', tag, node, note=f'not ({cnd})')
            for k, e in enumerate(posts):
                try:
                    g = self.spec_bool(e, st)
                except Unsupported as u:
                    self.unsupported.append((ln, f'{tag}[{k}]: {u}'))
                    continue
                self.oblige(st, g, f'{tag}[{k}]@L{ln}', tag, node, note=e)
        elif kind == RAISE:
            exc, node = out[1], out[2]
            ln = getattr(node, 'lineno', 0)
            allowed = c.get('raises', {})
            if exc in allowed:
                cond = allowed[exc]
                if isinstance(cond, tuple) and cond and cond[0] == 'maybe':      # may raise, and only if: one direction is an obligation
                    cond = cond[1]
                g = z3.BoolVal(True) if (cond is True or cond == 'maybe') else self.spec_bool(cond, st, use_old=True)
                self.oblige(st, g, f'raise-{exc}-only-if@L{ln}', 'raise', node, note=str(cond))
                for k, e in enumerate(c.get('raise_ensures', [])):
                    self.oblige(st, self.spec_bool(e, st), f'raise-post[{k}]@L{ln}', 'raise', node, note=e)
            else:
                self.oblige(st, z3.BoolVal(False), f'no-{exc}@L{ln}', 'raise', node,
                            note=f'{exc} raised but not declared in contract.raises')
        else:
            self.unsupported.append((0, f'path ended with {kind} outside loop'))

    # ------------------------------------------------------------------------------------
    # specification expressions
    def spec_bool(self, text, st, use_old=False, extra=None, mode='goal'):
        """evaluate a contract expression to a z3 Bool.  Fresh symbols introduced by the spec itself
        (quotients, range lengths) carry total definitions D: a goal becomes D => g, an assumption D /\\ g."""
        s2 = st.clone()
        s2.defs = []
        v = self.spec_value(text, s2, use_old, extra, _cloned=True)
        t = self.truth(v, s2)
        if s2.defs:
            d = z3.And(*s2.defs)
            return z3.Implies(d, t) if mode == 'goal' else z3.And(d, t)
        return t

    def assume_spec(self, text, st, **kw):
        st.pc.append(self.spec_bool(text, st, mode='assume', **kw))

    def spec_value(self, text, st, use_old=False, extra=None, _cloned=False):
        node = ast.parse(text.strip(), mode='eval').body if isinstance(text, str) else text
        s2 = st if _cloned else st.clone()
        s2.spec = True
        if use_old and st.old is not None:
            s2.env = dict(st.old)
        if extra:
            s2.env.update(extra)
        return self.ev(node, s2)

    # ------------------------------------------------------------------------------------
    # statements
    def exec_block(self, st, stmts):
        """returns list of (state, outcome); outcome = (kind, value?, node?)"""
        frontier = [(st, (NORMAL,))]
        for stmt in stmts:
            nxt = []
            for s, out in frontier:
                if out[0] != NORMAL:
                    nxt.append((s, out))
                    continue
                nxt.extend(self.exec_stmt(s, stmt))
            frontier = nxt
            if not frontier:
                break
        return frontier

    def exec_stmt(self, st, stmt):
        n_obl = len(self.obligations)
        work = st.clone()
        try:
            res = self._exec_stmt(work, stmt)
            self.stmts_modelled.add(stmt.lineno)
            for s_out, _ in res:
                s_out.forced = {}
            self._run_ghost_after(st, stmt, res)
            return res
        except ForkReq as f:
            del self.obligations[n_obl:]
            out = []
            for branch, c in ((True, f.cond), (False, z3.Not(f.cond))):
                s2 = st.clone()
                s2.pc.append(c)
                if f.key is not None:
                    s2.forced[f.key] = branch
                if self.feasible(s2):
                    out.extend(self.exec_stmt(s2, stmt))
            return out
        except RaiseReq as r:
            return [(work, (RAISE, r.exc, stmt))]
        except Unsupported as u:
            del self.obligations[n_obl:]
            if self.c.get('lenient') and isinstance(stmt, ast.Assert):
                # lenient contract: an assert whose condition is outside the modelled subset binds nothing; it either raises AssertionError
                # (an exit the lenient contracts do not speak about) or continues: nothing is learned from it
                self.lenient_skips.append((stmt.lineno, f'assert not evaluated: {u}'))
                self.stmts_modelled.add(stmt.lineno)
                return [(st.clone(), (NORMAL,))]
            if self.c.get('lenient') and isinstance(stmt, ast.Delete) and not any(isinstance(t_, ast.Name) for t_ in stmt.targets):
                # lenient contract: `del container[key]` mutates an unmodelled container only
                self.lenient_skips.append((stmt.lineno, f'del of an item of an unmodelled container: {u}'))
                self.stmts_modelled.add(stmt.lineno)
                res = [(st.clone(), (NORMAL,))]
                self._run_ghost_after(st, stmt, res)
                return res
            if self.c.get('lenient') and isinstance(stmt, (ast.Assign, ast.AugAssign, ast.AnnAssign, ast.Expr)) \
                    and not any(isinstance(n, (ast.Yield, ast.YieldFrom)) for n in ast.walk(stmt)):
                # lenient contract (stated in the contract): a simple statement outside the modelled subset is over-approximated --
                # every name it may bind or mutate becomes an unknown value; obligations that depend on such a value cannot be discharged
                s2 = st.clone()
                for n in self._lenient_havoc_names(stmt, st):
                    if n in self.c.get('lenient_protect', ()):
                        self.unsupported.append((stmt.lineno, f'lenient skip would havoc protected name {n}: {u}'))
                        return []
                    s2.env[n] = VUnknown(f'{n}: havocked by unmodelled statement at L{stmt.lineno}')
                self.lenient_skips.append((stmt.lineno, str(u)))
                self.stmts_modelled.add(stmt.lineno)
                res = [(s2, (NORMAL,))]
                self._run_ghost_after(st, stmt, res)      # ghost code anchored at a skipped statement still runs (it only reads protected state)
                return res
            self.unsupported.append((stmt.lineno, str(u)))
            return []     # path abandoned (recorded: makes the function's verdict "undecided")

    def _exec_stmt(self, st, stmt):
        if isinstance(stmt, ast.Expr):
            v = stmt.value
            if isinstance(v, ast.Constant):      # docstring
                return [(st, (NORMAL,))]
            if isinstance(v, ast.Yield):
                return self.do_yield(st, v, stmt)
            if isinstance(v, ast.YieldFrom):
                return self.do_yield_from(st, v, stmt)
            self.ev(v, st)
            return [(st, (NORMAL,))]
        if isinstance(stmt, ast.Assign):
            val = self.ev(stmt.value, st)
            for tgt in stmt.targets:
                self.assign(st, tgt, val, stmt.value)
            return [(st, (NORMAL,))]
        if isinstance(stmt, ast.AnnAssign):
            if stmt.value is not None:
                self.assign(st, stmt.target, self.ev(stmt.value, st), stmt.value)
            return [(st, (NORMAL,))]
        if isinstance(stmt, ast.AugAssign):
            load = ast.copy_location(_as_load(stmt.target), stmt)
            binop = ast.copy_location(ast.BinOp(left=load, op=stmt.op, right=stmt.value), stmt)
            self.assign(st, stmt.target, self.ev(binop, st), None)
            return [(st, (NORMAL,))]
        if isinstance(stmt, ast.Return):
            val = self.ev(stmt.value, st) if stmt.value is not None else None
            if isinstance(val, VRec) and 'is_false' in val.fields and self.c.get('result') == 'bool' and not st.spec:
                # returning the scalar-False-or-array value as a Boolean result: only its scalar False form is a Boolean
                self.oblige(st, val.fields['is_false'].t, f'returned-value-is-the-scalar-False@L{stmt.lineno}', 'safety', stmt)
                val = VBool(z3.BoolVal(False))
            return [(st, (RETURN, val, stmt))]
        if isinstance(stmt, ast.Pass):
            return [(st, (NORMAL,))]
        if isinstance(stmt, ast.Break):
            return [(st, (BREAK,))]
        if isinstance(stmt, ast.Continue):
            return [(st, (CONTINUE,))]
        if isinstance(stmt, ast.Raise):
            name = _exc_name(stmt.exc)
            return [(st, (RAISE, name, stmt))]
        if isinstance(stmt, ast.Assert):
            # `assert isinstance(..)  # for mypy` lines: kept as obligations (they do run)
            g = self.ev_cond(stmt.test, st)
            if st.spec:
                # an assert of the CONTRACT (ghost code anchored at a program statement): a proof obligation at that statement
                anchor = getattr(self, '_ghost_anchor', None) or stmt
                st.spec = False
                try:
                    self.oblige(st, g, f'ghost-assert@L{anchor.lineno}', 'assert', anchor, note=ast.unparse(stmt.test))
                finally:
                    st.spec = True
            elif self.c.get('lenient') and not st.spec:
                # lenient contract: an assert of the program is an exit (AssertionError) these contracts do not speak about; past it the condition holds
                self.lenient_skips.append((stmt.lineno, 'program assert assumed past this point (AssertionError exit not covered)'))
            else:
                self.oblige(st, g, f'assert@L{stmt.lineno}', 'assert', stmt)
            st.pc.append(g)
            return [(st, (NORMAL,))]
        if isinstance(stmt, ast.If):
            return self.do_if(st, stmt)
        if isinstance(stmt, ast.For):
            return self.do_for(st, stmt)
        if isinstance(stmt, ast.While):
            return self.do_while(st, stmt)
        if isinstance(stmt, ast.Try):
            return self.do_try(st, stmt)
        if isinstance(stmt, ast.ImportFrom) and stmt.module and stmt.module.startswith('static_frame'):
            for al in stmt.names:      # function-level import of a repo class / function
                nm = al.asname or al.name
                st.env[nm] = VConst(('class' if al.name[:1].isupper() else 'function', al.name))
            return [(st, (NORMAL,))]
        if isinstance(stmt, (ast.Import, ast.ImportFrom)):
            return [(st, (NORMAL,))]      # names resolve through the module environment
        if isinstance(stmt, ast.FunctionDef):
            st.env[stmt.name] = VConst(('localdef', stmt))
            return [(st, (NORMAL,))]
        raise Unsupported(f'statement {type(stmt).__name__}')

    def _loop_mods(self, body, st):
        """names a loop body may change (havocked at the cut)"""
        out = set()
        for s_ in body:
            out |= self._lenient_havoc_names(s_, st)
        return out

    def _lenient_havoc_names(self, stmt, st):
        """names a statement (tree) may change.  A store into / mutating call on `x.attr...` where x is a record and `attr` is not one of its
        modelled fields changes nothing the model can see: x is kept, provided NO store or mutation under x touches a modelled field or x itself."""
        unmodelled, modelled = set(), set()
        for n in ast.walk(stmt):
            tgt = None
            if isinstance(n, (ast.Attribute, ast.Subscript)) and isinstance(n.ctx, (ast.Store, ast.Del)):
                tgt = n
            elif isinstance(n, ast.Call) and isinstance(n.func, ast.Attribute) and n.func.attr in _MUTATORS:
                tgt = n.func.value
            if tgt is None:
                continue
            chain, first_attr = tgt, None
            while isinstance(chain, (ast.Attribute, ast.Subscript)):
                if isinstance(chain, ast.Attribute):
                    first_attr = chain.attr
                chain = chain.value
            if not isinstance(chain, ast.Name):
                continue
            v = st.env.get(chain.id)
            if isinstance(v, VRec) and first_attr is not None and first_attr not in v.fields:
                unmodelled.add(chain.id)
            elif isinstance(v, VRec) and v.name == 'arr' and first_attr is None and isinstance(tgt, ast.Subscript) and isinstance(tgt.ctx, ast.Store):
                # item assignment into an array changes its contents only: no modelled field (ndim, shape, dtype, flag, buffer identity) can change
                unmodelled.add(chain.id)
            else:
                modelled.add(chain.id)
        direct = {n.id for n in ast.walk(stmt) if isinstance(n, ast.Name) and isinstance(n.ctx, (ast.Store, ast.Del))}
        keep = unmodelled - modelled - direct
        return {n for n in assigned_names([stmt]) if n not in keep}

    def _run_ghost_after(self, st, stmt, res):
        ga = self.c.get('ghost_after')
        if ga and not isinstance(stmt, (ast.If, ast.For, ast.While, ast.Try)) and not st.spec:
            src = ga.get(ast.unparse(stmt))
            if src:
                self.ghost_hits.add(ast.unparse(stmt))
                for s_out, o in res:
                    if o[0] == NORMAL:
                        for gsrc in src:
                            for g in ast.parse(gsrc).body:
                                s_out.spec = True
                                self._ghost_anchor = stmt
                                try:
                                    self._exec_stmt(s_out, g)
                                finally:
                                    s_out.spec = False
                                    self._ghost_anchor = None

    def do_if(self, st, stmt):
        free_ = ast.unparse(stmt.test) in self.c.get('free_conditions', ())
        tainted0 = st.tainted
        try:
            c = self.ev_cond(stmt.test, st)
            if free_:
                st.tainted = tainted0      # a condition the contract declares free (either outcome can be arranged by the caller) does not taint the path
        except Unsupported as u:
            if not self.c.get('lenient'):
                raise
            # lenient contract: a branch condition outside the modelled subset is a nondeterministic choice (both branches, nothing learned)
            free = ast.unparse(stmt.test) in self.c.get('free_conditions', ())
            self.lenient_skips.append((stmt.lineno, f'branch condition not modelled ({"declared free: either outcome can be arranged by the caller" if free else "taints the path"}): {u}'))
            if not free:
                st.tainted = True
            c = z3.Bool(fresh_name('unk_cond'))
        d = self.decide(st, c)
        out = []
        if d is not False:
            s1 = st if d is True else st.clone()
            if d is None:
                s1.pc.append(c)
            out.extend(self.exec_block(s1, stmt.body))
        if d is not True:
            s2 = st if d is False else st.clone()
            if d is None:
                s2.pc.append(z3.Not(c))
            out.extend(self.exec_block(s2, stmt.orelse))
        return out

    def do_try(self, st, stmt):
        if stmt.finalbody:
            raise Unsupported('try/finally')
        res = self.exec_block(st, stmt.body)
        out = []
        for s, o in res:
            if o[0] == RAISE:
                handled = False
                for h in stmt.handlers:
                    names = _handler_names(h)
                    if names is None or o[1] in names or 'Exception' in names or 'BaseException' in names:
                        if h.name:
                            s.env[h.name] = VUnknown('exception object')
                        out.extend(self.exec_block(s, h.body))
                        handled = True
                        break
                if not handled:
                    out.append((s, o))
            elif o[0] == NORMAL and stmt.orelse:
                out.extend(self.exec_block(s, stmt.orelse))
            else:
                out.append((s, o))
        return out

    # ---- loops -------------------------------------------------------------------------
    def loop_spec(self, stmt):
        k = self.loops[id(stmt)]
        spec = self.c.get('loops', {}).get(k)
        if spec is None:
            raise Unsupported(f'loop #{k} at L{stmt.lineno} has no sidecar invariant')
        return k, spec

    def check_inv(self, st, spec, k, what, node):
        for n, srt in spec.get('locals', {}).items():
            if n not in st.env:       # declared local not yet bound: arbitrary value (invariant must guard its use)
                st.env[n] = fresh_value(parse_sort(srt), n)
            elif isinstance(st.env[n], VList) and st.env[n].sort is None:
                st.env[n] = coerce(st.env[n], parse_sort(srt))      # empty literal: adopt the declared element sort
        for j, e in enumerate(spec.get('invariant', [])):
            g = self.spec_bool(e, st)
            self.oblige(st, g, f'loop{k}-inv[{j}]-{what}@L{node.lineno}', 'invariant', node, note=e)

    def havoc(self, st, spec, names):
        decl = {n: parse_sort(s) for n, s in spec.get('locals', {}).items()}
        for n in sorted(names):
            cur = st.env.get(n)
            if isinstance(cur, VConst) and isinstance(cur.py, tuple) and cur.py and cur.py[0] == 'iterator':
                pos = z3.Int(fresh_name(n + '_pos'))       # a one-shot iterator advanced in the loop: same sequence, arbitrary cursor
                st.env[n] = VConst(('iterator', cur.py[1], cur.py[2], pos))
                st.pc.append(z3.And(pos >= 0, pos <= cur.py[1]))
                continue
            if n in decl:
                st.env[n] = fresh_value(decl[n], n)
            elif n in st.env and not isinstance(st.env[n], (VUnknown, VConst, VNone)):
                try:
                    srt = infer_sort(st.env[n])
                    if not sort_complete(srt):
                        raise Unsupported('incomplete')
                    st.env[n] = fresh_value(srt, n)
                except Unsupported:
                    st.env[n] = VUnknown(f'{n} havocked by loop (declare its sort in locals)')
            else:
                st.env[n] = VUnknown(f'{n} havocked by loop (declare its sort in locals)')
        from .npmodel import wellformed_facts
        for n in names:
            if n in st.env:
                st.pc.extend(wellformed_facts(st.env[n]))      # type invariants of havocked values (list lengths >= 0, ...)

    def do_while(self, st, stmt):
        k, spec = self.loop_spec(stmt)
        self.check_inv(st, spec, k, 'init', stmt)
        mods = self._loop_mods(stmt.body, st) | set(spec.get('ghost_mods', []))
        head = st.clone()
        self.havoc(head, spec, mods)
        for e in spec.get('invariant', []):
            self.assume_spec(e, head)
        out = []
        c = self.ev_cond(stmt.test, head)
        d = self.decide(head, c)
        if d is not False:
            body = head.clone()
            body.pc.append(c)
            for s, o in self.exec_block(body, stmt.body):
                if o[0] in (NORMAL, CONTINUE):
                    self.check_inv(s, spec, k, 'step', stmt)
                    if spec.get('decreases'):
                        pass
                elif o[0] == BREAK:
                    out.append((s, (NORMAL,)))
                else:
                    out.append((s, o))
        if d is not True:
            ex = head.clone()
            ex.pc.append(z3.Not(c))
            out.extend(self.exec_block(ex, stmt.orelse) if stmt.orelse else [(ex, (NORMAL,))])
        return out

    def do_for(self, st, stmt):
        k0 = self.loops[id(stmt)]
        if self.c.get('loops', {}).get(k0) == 'unroll':
            # iteration over a constant tuple (e.g. SLICE_ATTRS): unrolled statically, no invariant needed
            itv = self.ev(stmt.iter, st)
            if not isinstance(itv, VTuple) or len(itv.items) > 8:
                raise Unsupported(f'loop #{k0}: unroll requested but the iterable is not a small constant tuple')
            frontier, out = [st], []
            for item in itv.items:
                nxt = []
                for s_ in frontier:
                    s_ = s_.clone()
                    self.assign(s_, stmt.target, item, None)
                    for s2, o in self.exec_block(s_, stmt.body):
                        if o[0] in (NORMAL, CONTINUE):
                            nxt.append(s2)
                        elif o[0] == BREAK:
                            out.append((s2, (NORMAL,)))
                        else:
                            out.append((s2, o))
                frontier = nxt
            for s_ in frontier:
                out.extend(self.exec_block(s_, stmt.orelse) if stmt.orelse else [(s_, (NORMAL,))])
            return out
        k, spec = self.loop_spec(stmt)
        try:
            it = self.ev(stmt.iter, st)
        except Unsupported as u:
            if not self.c.get('lenient'):
                raise
            # lenient contract: an iterable expression outside the modelled subset = unknown length, unknown elements
            self.lenient_skips.append((stmt.lineno, f'loop iterable not modelled: {u}'))
            it = VUnknown(f'unmodelled iterable at L{stmt.lineno}')
        seq = self.as_sequence(it, st)          # (length z3 Int, getter(idx)->V)
        ivar = spec.get('index', f'_i{k}')
        iter_roots = {n.id for n in ast.walk(stmt.iter) if isinstance(n, ast.Name)}
        mods = self._loop_mods(stmt.body, st) | set(spec.get('ghost_mods', []))
        if mods & iter_roots and not spec.get('iter_mutation_ok'):
            raise Unsupported(f'loop #{k}: iterable may be mutated in the body ({sorted(mods & iter_roots)})')
        st.env[ivar] = VInt(0)
        self.check_inv(st, spec, k, 'init', stmt)
        head = st.clone()
        self.havoc(head, spec, mods)
        idx = z3.Int(fresh_name(ivar))
        head.env[ivar] = VInt(idx)
        head.pc.append(z3.And(idx >= 0, idx <= seq[0]))
        for e in spec.get('invariant', []):
            self.assume_spec(e, head)
        out = []
        body = head.clone()
        body.pc.append(idx < seq[0])
        if self.feasible(body):
            self.assign(body, stmt.target, seq[1](idx), None)
            for s, o in self.exec_block(body, stmt.body):
                if o[0] in (NORMAL, CONTINUE):
                    s.env[ivar] = VInt(idx + 1)
                    self.check_inv(s, spec, k, 'step', stmt)
                elif o[0] == BREAK:
                    out.append((s, (NORMAL,)))
                else:
                    out.append((s, o))
        ex = head.clone()
        ex.pc.append(idx == seq[0])
        if self.feasible(ex):
            out.extend(self.exec_block(ex, stmt.orelse) if stmt.orelse else [(ex, (NORMAL,))])
        return out

    def as_sequence(self, it, st):
        if isinstance(it, VSeq):
            return (it.length, it.get)
        if isinstance(it, VRec) and 'labels' in it.fields:      # iterating an (abstract) index yields its labels in order
            return self.as_sequence(it.fields['labels'], st)
        if isinstance(it, VList):
            return (it.length, lambda i, it=it: list_get(it, i))
        if isinstance(it, VRange):
            a, b, c = it.start, it.stop, it.step
            cs = z3.simplify(c)
            if z3.is_int_value(cs) and cs.as_long() == -1:
                n = z3.If(a > b, a - b, 0)
                return (n, lambda i: VInt(a - i))
            if not (z3.is_int_value(cs) and cs.as_long() == 1):
                raise Unsupported('range with step not in {1, -1}')
            n = z3.If(b > a, b - a, 0)
            return (n, lambda i: VInt(a + i))
        if isinstance(it, VTuple):
            items = it.items
            if not items:
                return (z3.IntVal(0), lambda i: VUnknown('empty'))
            if len(items) == 1:
                return (z3.IntVal(1), lambda i: items[0])
            srt = None
            for x in items:
                srt = unify(srt, infer_sort(x))

            def get(i):
                v = coerce(items[-1], srt)
                for k in range(len(items) - 2, -1, -1):
                    v = ite(i == k, coerce(items[k], srt), v, srt)
                return v
            return (z3.IntVal(len(items)), get)
        if isinstance(it, VConst) and isinstance(it.py, tuple) and it.py and it.py[0] == 'iterator':
            _, n_, g_, pos = it.py      # the rest of a partly consumed iterator
            return (z3.If(n_ > pos, n_ - pos, 0), lambda i: g_(pos + i))
        if isinstance(it, VConst) and isinstance(it.py, tuple) and it.py and it.py[0] == 'enumerate':
            n, g = self.as_sequence(it.py[1], st)
            start = it.py[2]
            return (n, lambda i: VTuple([VInt(i + start), g(i)]))
        if isinstance(it, VConst) and isinstance(it.py, tuple) and it.py and it.py[0] == 'zip':
            seqs = [self.as_sequence(x, st) for x in it.py[1]]
            n = seqs[0][0]
            for s in seqs[1:]:
                n = z3.If(s[0] < n, s[0], n)
            return (n, lambda i: VTuple([s[1](i) for s in seqs]))
        if isinstance(it, VConst) and isinstance(it.py, tuple) and it.py and it.py[0] == 'zip_longest':
            seqs = [self.as_sequence(x, st) for x in it.py[1]]
            fill = it.py[2]
            n = seqs[0][0]
            for s in seqs[1:]:
                n = z3.If(s[0] > n, s[0], n)

            def getl(i):
                items = []
                for ln, g in seqs:
                    items.append(ite(i < ln, g(i), fill))
                return VTuple(items)
            return (n, getl)
        if isinstance(it, VConst) and isinstance(it.py, tuple) and it.py and it.py[0] == 'chain':
            seqs = [self.as_sequence(x, st) for x in it.py[1]]
            if len(seqs) != 2:
                raise Unsupported('chain of != 2 iterables')
            (n0, g0), (n1, g1) = seqs
            return (n0 + n1, lambda i: ite(i < n0, g0(i), g1(i - n0)))
        if isinstance(it, VUnknown) and self.c.get('lenient'):
            n_ = z3.Int(fresh_name('unk_len'))      # lenient contract: an unmodelled iterable = unknown length, unknown elements
            st.pc.append(n_ >= 0)
            return (n_, lambda i: VUnknown('element of an unmodelled iterable'))
        raise Unsupported(f'iteration over {it!r}')

    # ---- generators ---------------------------------------------------------------------
    def do_yield(self, st, y, stmt):
        val = self.ev(y.value, st) if y.value is not None else VNone()
        return self.emit_yield(st, val, stmt)

    def emit_yield(self, st, val, stmt):
        c = self.c
        if isinstance(val, VUnknown) and not c.get('at_yield') and not c.get('yield_sort'):
            return [(st, (NORMAL,))]
        ysort = c.get('yield_sort')
        if ysort:
            val = coerce(val, parse_sort(ysort))
        st.env['result'] = val
        for j, e in enumerate(c.get('at_yield', [])):
            self.oblige(st, self.spec_bool(e, st), f'yield[{j}]@L{stmt.lineno}', 'yield', stmt, note=e)
        for src in c.get('yield_update', []):
            for s2 in ast.parse(src).body:
                st.spec = True          # ghost code: spec functions allowed, no obligations
                try:
                    res = self._exec_stmt(st, s2)
                finally:
                    st.spec = False
                assert len(res) == 1
        if ysort and 'yields' in st.env:
            st.env['yields'] = list_append(st.env['yields'], val)
        st.env.pop('result', None)
        return [(st, (NORMAL,))]

    def do_yield_from(self, st, y, stmt):
        inner = self.ev(y.value, st)
        if isinstance(inner, VConst) and isinstance(inner.py, tuple) and inner.py[0] == 'genresult':
            # callee generator contract already applied: its `yields` list + assumed facts
            lst = inner.py[1]
            spec = self.c.get('yield_from', {}).get(stmt.lineno) or self.c.get('yield_from', {}).get('*')
            if spec is None:
                raise Unsupported('yield from without sidecar yield_from rule')
            # rule: list of assertions about `sub` (callee's yielded list) and update statements
            st.env['sub'] = lst
            for j, e in enumerate(spec.get('assert', [])):
                self.oblige(st, self.spec_bool(e, st), f'yieldfrom[{j}]@L{stmt.lineno}', 'yield', stmt, note=e)
            for src in spec.get('update', []):
                for s2 in ast.parse(src).body:
                    self._exec_stmt(st, s2)
            st.env.pop('sub', None)
            return [(st, (NORMAL,))]
        if not self.c.get('at_yield') and not self.c.get('yield_update') and not self.c.get('yield_sort'):
            return [(st, (NORMAL,))]      # no per-yield contract: the yielded values are unconstrained by this contract
        raise Unsupported('yield from of an unmodelled iterable')

    # ---- assignment --------------------------------------------------------------------
    def assign(self, st, tgt, val, src_node):
        if isinstance(tgt, ast.Name):
            if src_node is not None and not st.spec and isinstance(src_node, (ast.Name, ast.Attribute)) and isinstance(val, (VList, VRec)):
                st.aliased.add(tgt.id)
                r = src_node
                while isinstance(r, ast.Attribute):
                    r = r.value
                if isinstance(r, ast.Name):
                    st.aliased.add(r.id)
            st.env[tgt.id] = val
            return
        if isinstance(tgt, (ast.Tuple, ast.List)):
            if isinstance(val, VTuple):
                if len(val.items) != len(tgt.elts):
                    raise Unsupported('unpack arity')
                for t, v in zip(tgt.elts, val.items):
                    self.assign(st, t, v, None)
                return
            if isinstance(val, VUnknown) and self.c.get('lenient'):
                for t in tgt.elts:       # lenient contract: unpacking an unknown value binds unknown values (protected names may not be bound this way)
                    for n_ in ast.walk(t):
                        if isinstance(n_, ast.Name) and n_.id in self.c.get('lenient_protect', ()):
                            raise Unsupported(f'unpack of an unknown value into protected name {n_.id}')
                    self.assign(st, t, VUnknown('component of an unknown value'), None)
                return
            raise Unsupported(f'unpack of {val!r}')
        if isinstance(tgt, ast.Attribute):
            if tgt.attr == 'writeable' and isinstance(tgt.value, ast.Attribute) and tgt.value.attr == 'flags':
                arr = self.ev(tgt.value.value, st)
                if isinstance(arr, VRec) and 'writeable' in arr.fields:
                    fs = dict(arr.fields)
                    fs['writeable'] = VBool(self.truth(val, st))
                    self.assign(st, tgt.value.value, VRec(arr.name, fs, arr.fsorts), None)
                    return
                raise Unsupported('flags.writeable store on unmodelled array')
            base = self.ev(tgt.value, st)
            if isinstance(base, VRec) and tgt.attr in base.fields:
                fs = dict(base.fields)
                fsort = dict(base.fsorts)[tgt.attr]
                fs[tgt.attr] = coerce(val, fsort)
                self.assign(st, tgt.value, VRec(base.name, fs, base.fsorts), None)
                return
            raise Unsupported(f'attribute store .{tgt.attr}')
        if isinstance(tgt, ast.Subscript):
            lk = ast.unparse(tgt.value) + '.__setitem__'
            if lk in self.c.get('calls', {}) and not st.spec:
                key = self.ev(tgt.slice, st)
                fake = ast.Call(func=ast.Attribute(value=tgt.value, attr='__setitem__', ctx=ast.Load()), args=[tgt.slice], keywords=[])
                ast.copy_location(fake, tgt)
                ast.fix_missing_locations(fake)
                self.menv.apply_contract(lk, fake, self, st, contract=self.c['calls'][lk], args=[key, val])
                return
            base = self.ev(tgt.value, st)
            if isinstance(base, VRec) and f'{base.name}.__setitem__' in self.reg:
                key = self.ev(tgt.slice, st)
                fake = ast.Call(func=ast.Attribute(value=tgt.value, attr='__setitem__', ctx=ast.Load()), args=[tgt.slice], keywords=[])
                ast.copy_location(fake, tgt)
                ast.fix_missing_locations(fake)
                self.menv.apply_contract(f'{base.name}.__setitem__', fake, self, st, recv=base, args=[key, val])
                return
            if isinstance(base, VList):
                idx = self.ev(tgt.slice, st)
                if isinstance(idx, VOpt) and idx.sort == 'int':
                    idx = self.need_int(idx, st, tgt)
                if isinstance(idx, VInt):
                    i = z3.If(idx.t < 0, idx.t + base.length, idx.t)
                    self.oblige(st, z3.And(i >= 0, i < base.length), f'no-IndexError@L{tgt.lineno}', 'safety', tgt)
                    lv = leaves(val, base.sort)
                    new = VList(base.length, base.sort, [z3.Store(a, i, x) for a, x in zip(base.arrs, lv)])
                    self.assign(st, tgt.value, new, None)
                    return
            raise Unsupported('subscript store')
        raise Unsupported(f'assignment target {type(tgt).__name__}')

    # ------------------------------------------------------------------------------------
    # expressions
    def truth(self, v, st):
        if isinstance(v, VBool):
            return v.t
        if isinstance(v, VInt):
            return v.t != 0
        if isinstance(v, VNone):
            return z3.BoolVal(False)
        if isinstance(v, VOpt):
            return z3.And(z3.Not(v.isnone), self.truth(v.val, st))
        if isinstance(v, VTuple):
            return z3.BoolVal(len(v.items) > 0)
        if isinstance(v, VList):
            return v.length > 0
        if isinstance(v, (VSlice, VRec, VU)):
            return z3.BoolVal(True)
        if isinstance(v, VConst):
            if isinstance(v.py, tuple) and v.py and v.py[0] in ('class', 'localdef', 'enumerate', 'zip', 'genresult', 'iterator'):
                return z3.BoolVal(True)
            return z3.BoolVal(bool(v.py))
        if isinstance(v, VUnknown):
            st.tainted = True
            return z3.Bool(fresh_name('unk'))
        raise Unsupported(f'truth of {v!r}')

    def ev_cond(self, node, st):
        if isinstance(node, ast.BoolOp):
            terms = []
            toks = []
            try:
                for sub in node.values:
                    t = self.ev_cond(sub, st)
                    terms.append(t)
                    ts_ = z3.simplify(t)
                    if (isinstance(node.op, ast.And) and z3.is_false(ts_)) or (isinstance(node.op, ast.Or) and z3.is_true(ts_)):
                        break      # short circuit: the remaining operands are not evaluated by Python either
                    toks.append(self.push_guard(st, t if isinstance(node.op, ast.And) else z3.Not(t)))
            finally:
                self.pop_guards(st, toks)
            return z3.And(*terms) if isinstance(node.op, ast.And) else z3.Or(*terms)
        if isinstance(node, ast.UnaryOp) and isinstance(node.op, ast.Not):
            return z3.Not(self.ev_cond(node.operand, st))
        return self.truth(self.ev(node, st), st)

    def ev(self, node, st) -> V:
        m = getattr(self, 'ev_' + type(node).__name__, None)
        if m is None:
            raise Unsupported(f'expression {type(node).__name__}')
        return m(node, st)

    def ev_Constant(self, node, st):
        v = node.value
        if v is None:
            return VNone()
        if isinstance(v, bool):
            return VBool(v)
        if isinstance(v, int):
            return VInt(v)
        return VConst(v)

    def ev_Name(self, node, st):
        n = node.id
        if n in st.env:
            return st.env[n]
        if n in ('True', 'False'):
            return VBool(n == 'True')
        v = self.menv.lookup(n, self)
        if v is not None:
            return v
        if st.spec:
            if n.startswith('_q') and n[2:].isdigit():
                return VInt(z3.Int(fresh_name(n)))      # quotient ghost not defined on this path
            raise SpecError(f'{self.qualname}: name {n!r} unbound in specification')
        return VUnknown(f'global {n}')

    def ev_Tuple(self, node, st):
        return VTuple([self.ev(e, st) for e in node.elts])

    def ev_List(self, node, st):
        return list_literal([self.ev(e, st) for e in node.elts])

    def ev_IfExp(self, node, st):
        c = self.ev_cond(node.test, st)
        fkey = ('ifexp', node.lineno, node.col_offset)
        d = self.decide(st, c, fkey)
        if d is True:
            return self.ev(node.body, st)
        if d is False:
            return self.ev(node.orelse, st)
        tok = self.push_guard(st, c)
        try:
            a = self.ev(node.body, st)
        finally:
            self.pop_guards(st, [tok])
        tok = self.push_guard(st, z3.Not(c))
        try:
            b = self.ev(node.orelse, st)
        finally:
            self.pop_guards(st, [tok])
        try:
            return ite(c, a, b)
        except Unsupported:
            if st.spec:
                raise
            raise ForkReq(c, fkey)

    def ev_BoolOp(self, node, st):
        vals = []
        toks = []
        try:
            for sub in node.values:
                v = self.ev(sub, st)
                vals.append(v)
                t = self.truth(v, st)
                toks.append(self.push_guard(st, t if isinstance(node.op, ast.And) else z3.Not(t)))
        finally:
            self.pop_guards(st, toks)
        if all(isinstance(v, VBool) for v in vals):
            ts = [v.t for v in vals]
            return VBool(z3.And(*ts) if isinstance(node.op, ast.And) else z3.Or(*ts))
        # general Python semantics: first falsy (and) / truthy (or) operand, else the last
        res = vals[-1]
        for v in reversed(vals[:-1]):
            t = self.truth(v, st)
            c = z3.Not(t) if isinstance(node.op, ast.And) else t
            try:
                res = ite(c, v, res)
            except Unsupported:
                if st.spec:
                    raise
                raise ForkReq(c)
        return res

    def ev_UnaryOp(self, node, st):
        if isinstance(node.op, ast.Not):
            return VBool(z3.Not(self.ev_cond(node.operand, st)))
        v = self.ev(node.operand, st)
        v = self.need_int(v, st, node)
        if isinstance(node.op, ast.USub):
            return VInt(-v.t)
        if isinstance(node.op, ast.UAdd):
            return v
        raise Unsupported('unary op')

    def narrow(self, v, sort, st, node, what=''):
        """view `v` at `sort`, turning an Optional into its payload under the obligation that it is not None here"""
        try:
            return coerce(v, sort)
        except Unsupported:
            pass
        if isinstance(v, VOpt) and not (isinstance(sort, tuple) and sort[0] == 'opt'):
            self.oblige(st, z3.Not(v.isnone), f'no-None-passed-as-{what or "argument"}@L{getattr(node, "lineno", 0)}', 'safety', node)
            return self.narrow(v.val, sort, st, node, what)
        if isinstance(v, VTuple) and isinstance(sort, tuple) and sort[0] == 'tuple' and len(v.items) == len(sort[1]):
            return VTuple([self.narrow(i, s_, st, node, what) for i, s_ in zip(v.items, sort[1])])
        return coerce(v, sort)

    def need_int(self, v, st, node):
        if isinstance(v, VInt):
            return v
        if isinstance(v, VBool):
            return VInt(z3.If(v.t, 1, 0))
        if isinstance(v, VOpt) and v.sort == 'int':
            self.oblige(st, z3.Not(v.isnone), f'no-TypeError-None@L{getattr(node, "lineno", 0)}', 'safety', node)
            return v.val
        if isinstance(v, VNone):
            self.oblige(st, z3.BoolVal(False), f'no-TypeError-None@L{getattr(node, "lineno", 0)}', 'safety', node)
            return VInt(z3.Int(fresh_name('undef')))
        if isinstance(v, VUnknown):
            st.tainted = True
            return VInt(z3.Int(fresh_name('unk')))
        raise Unsupported(f'integer expected, got {v!r}')

    def ev_BinOp(self, node, st):
        a = self.ev(node.left, st)
        b = self.ev(node.right, st)
        op = node.op
        if isinstance(op, ast.Add) and isinstance(a, VTuple) and isinstance(b, VTuple):
            return VTuple(a.items + b.items)
        if isinstance(a, VRec) and isinstance(op, (ast.BitAnd, ast.BitOr)):
            mname = '__and__' if isinstance(op, ast.BitAnd) else '__or__'
            if f'{a.name}.{mname}' in self.reg:
                fake = ast.Call(func=ast.Attribute(value=node.left, attr=mname, ctx=ast.Load()), args=[node.right], keywords=[])
                ast.copy_location(fake, node)
                ast.fix_missing_locations(fake)
                return self.menv.apply_contract(f'{a.name}.{mname}', fake, self, st, recv=a, args=[b])
        x = self.need_int(a, st, node).t
        y = self.need_int(b, st, node).t
        if isinstance(op, ast.Add):
            return VInt(x + y)
        if isinstance(op, ast.Sub):
            return VInt(x - y)
        if isinstance(op, ast.Mult):
            return VInt(x * y)
        if isinstance(op, (ast.FloorDiv, ast.Mod)):
            q, r = self.floordiv(st, x, y, node)
            return VInt(q if isinstance(op, ast.FloorDiv) else r)
        raise Unsupported(f'binary op {type(op).__name__}')

    def floordiv(self, st, x, y, node):
        """Python floor division with explicit quotient/remainder (never z3's native div)."""
        self.oblige(st, y != 0, f'no-ZeroDivisionError@L{getattr(node, "lineno", 0)}', 'safety', node)
        ys = z3.simplify(y)
        if z3.is_int_value(ys) and z3.is_int_value(z3.simplify(x)):
            xv, yv = z3.simplify(x).as_long(), ys.as_long()
            if yv != 0:
                return z3.IntVal(xv // yv), z3.IntVal(xv % yv)
        q = z3.Int(fresh_name('q'))
        r = z3.Int(fresh_name('r'))
        st.define(z3.And(x == y * q + r,
                         z3.Implies(y > 0, z3.And(0 <= r, r < y)),
                         z3.Implies(y < 0, z3.And(y < r, r <= 0))))
        if not st.spec:
            st.env[f'_q{self.div_index(node)}'] = VInt(q)      # ghost capture: k-th // or % of the function
        return q, r

    def div_index(self, node):
        divs = [n for n in ast.walk(self.fn) if isinstance(n, ast.BinOp) and isinstance(n.op, (ast.FloorDiv, ast.Mod))]
        divs.sort(key=lambda n: (n.lineno, n.col_offset))
        for k, n in enumerate(divs):
            if n is node:
                return k
        return 'x'

    def ev_Compare(self, node, st):
        left = self.ev(node.left, st)
        terms = []
        toks = []
        try:
            for op, rnode in zip(node.ops, node.comparators):
                right = self.ev(rnode, st)
                t = self.compare(op, left, right, st, node)
                terms.append(t)
                if z3.is_expr(t):
                    toks.append(self.push_guard(st, t))
                left = right
        finally:
            self.pop_guards(st, toks)
        if len(terms) == 1 and not z3.is_expr(terms[0]):
            return terms[0]          # operator overloaded by contract: the result is a value (e.g. a Boolean TypeBlocks)
        return VBool(z3.And(*terms) if len(terms) > 1 else terms[0])

    def compare(self, op, a, b, st, node):
        if isinstance(op, (ast.Is, ast.IsNot)):
            t = self.identical(a, b, st)
            return t if isinstance(op, ast.Is) else z3.Not(t)
        if isinstance(op, (ast.Eq, ast.NotEq)) and isinstance(a, VRec) and not st.spec and f'{a.name}.__eq__' in self.reg:
            fake = ast.Call(func=ast.Attribute(value=node.left, attr='__eq__', ctx=ast.Load()), args=[node.comparators[0]], keywords=[])
            ast.copy_location(fake, node)
            ast.fix_missing_locations(fake)
            return self.menv.apply_contract(f'{a.name}.__eq__', fake, self, st, recv=a, args=[b])
        if isinstance(op, (ast.Eq, ast.NotEq)):
            if isinstance(a, VUnknown) or isinstance(b, VUnknown):
                st.tainted = True
                t = z3.Bool(fresh_name('unk'))
            else:
                try:
                    t = equal(a, b)
                except (Unsupported, SpecError):
                    if not (self.c.get('lenient') and not st.spec):
                        raise
                    # lenient contract: an element-wise / unmodelled comparison is an unknown value (the path is tainted)
                    self.lenient_skips.append((getattr(node, 'lineno', 0), f'comparison {ast.unparse(node)[:60]} not modelled: unknown value'))
                    st.tainted = True
                    t = z3.Bool(fresh_name('unk'))
            return t if isinstance(op, ast.Eq) else z3.Not(t)
        if isinstance(op, (ast.In, ast.NotIn)):
            t = None
            if isinstance(b, VRec) and f'{b.name}.__contains__' in self.reg:
                fake = ast.Call(func=ast.Attribute(value=node.comparators[0], attr='__contains__', ctx=ast.Load()), args=[node.left], keywords=[])
                ast.copy_location(fake, node)
                ast.fix_missing_locations(fake)
                t = self.truth(self.menv.apply_contract(f'{b.name}.__contains__', fake, self, st, recv=b, args=[a]), st)
            if t is None:
                t = self.contains(b, a, st)
            return t if isinstance(op, ast.In) else z3.Not(t)
        x = self.need_int(a, st, node).t
        y = self.need_int(b, st, node).t
        if isinstance(op, ast.Lt):
            return x < y
        if isinstance(op, ast.LtE):
            return x <= y
        if isinstance(op, ast.Gt):
            return x > y
        if isinstance(op, ast.GtE):
            return x >= y
        raise Unsupported('comparison')

    def identical(self, a, b, st):
        if isinstance(b, VNone) or isinstance(a, VNone):
            o = a if isinstance(b, VNone) else b
            if isinstance(o, VNone):
                return z3.BoolVal(True)
            if isinstance(o, VOpt):
                return o.isnone
            if isinstance(o, VUnknown):
                st.tainted = True
                return z3.Bool(fresh_name('unk'))
            return z3.BoolVal(False)
        m = self.menv.identical_model(a, b)
        if m is not None:
            return m
        # a value that is EITHER the scalar False OR an array (what `a == b` of two ndarrays returns) is a record with the Boolean field `is_false`:
        # `x is False` reads that field
        for x, y in ((a, b), (b, a)):
            if isinstance(x, VRec) and 'is_false' in x.fields and ((isinstance(y, VBool) and z3.is_false(z3.simplify(y.t))) or (isinstance(y, VConst) and y.py is False)):
                return x.fields['is_false'].t
        if isinstance(a, VRec) and isinstance(b, VRec) and a.name == b.name:
            # records that carry a ghost identity field (aid / iid / sid / fid / hid / cid / oid): `x is y` compares the identities
            for idf in ('aid', 'iid', 'sid', 'fid', 'hid', 'cid'):
                if idf in a.fields:
                    return a.fields[idf].t == b.fields[idf].t
        if isinstance(a, VConst) and isinstance(b, VConst):
            return z3.BoolVal(a.py == b.py)
        if isinstance(a, VBool) and isinstance(b, VBool):
            return a.t == b.t
        if isinstance(a, VRec) and isinstance(b, VRec) and a.name == b.name == 'arr':
            from .sorts import equal as _eq
            return _eq(a, b)        # ghost identity: arrays are compared by all modelled attributes
        if isinstance(a, VU) and isinstance(b, VU) and a.sort == b.sort:
            return a.t == b.t
        if isinstance(a, VUnknown) or isinstance(b, VUnknown):
            st.tainted = True
            return z3.Bool(fresh_name('unk'))
        raise Unsupported(f'`is` between {a!r} and {b!r}')

    def contains(self, container, item, st):
        if isinstance(container, VTuple):
            return z3.Or(*[equal(item, x) for x in container.items]) if container.items else z3.BoolVal(False)
        if isinstance(container, VConst) and isinstance(container.py, (tuple, frozenset, set, str)) and isinstance(item, VConst):
            return z3.BoolVal(item.py in container.py)
        if isinstance(container, VList):
            i = z3.Int(fresh_name('ci'))
            return z3.Exists([i], z3.And(0 <= i, i < container.length, equal(list_get(container, i), item)))
        raise Unsupported(f'`in` on {container!r}')

    def ev_Attribute(self, node, st):
        base = self.ev(node.value, st)
        a = node.attr
        if isinstance(base, VSlice) and a in ('start', 'stop', 'step'):
            return getattr(base, a)
        if a == '__class__' and isinstance(base, VU):
            return VConst(('class', '<opaque>'))
        if isinstance(base, VU) and base.sort == 'elem' and a in self.c.get('elem_attrs', {}):
            # a read-only attribute of an opaque object, named by the contract as an uninterpreted function of the object (listed as assumed)
            from .sorts import ELEM
            return VU(z3.Function('ufe_' + self.c['elem_attrs'][a], ELEM, ELEM)(base.t), 'elem')
        if a == '__class__' and isinstance(base, (VSlice, VInt, VBool, VList, VTuple)):
            return VConst(('builtin', {VSlice: 'slice', VInt: 'int', VBool: 'bool', VList: 'list', VTuple: 'tuple'}[type(base)]))
        if isinstance(base, VRec):
            if a in base.fields:
                return base.fields[a]
            if a == '__class__' and base.name != 'arr':
                return VConst(('class', self.c.get('rec_classes', {}).get(base.name, [base.name])[0]))
            alias = self.c.get('attr_alias', {}).get(f'{base.name}.{a}')
            if alias is not None and alias in base.fields:      # a read-only property that returns a modelled field (stated, and listed as assumed, by the contract)
                return base.fields[alias]
            if alias is not None and 'it.' in alias:            # ... or an expression over the record (`it`), e.g. size = it._shape[0] * it._shape[1]
                saved = st.env.get('it')
                st.env['it'] = base
                try:
                    return self.ev(ast.parse(alias, mode='eval').body, st)
                finally:
                    if saved is None:
                        st.env.pop('it', None)
                    else:
                        st.env['it'] = saved
            v = self.menv.attr_model(base, a, self, st)
            if v is not None:
                return v
            pk = f'{base.name}.{a}'
            if pk in self.reg and self.reg[pk].get('property'):
                fake = ast.Call(func=ast.Attribute(value=node.value, attr=a, ctx=ast.Load()), args=[], keywords=[])
                ast.copy_location(fake, node)
                ast.fix_missing_locations(fake)
                return self.menv.apply_contract(pk, fake, self, st, recv=base, args=[])
            raise Unsupported(f'record {base.name} has no modelled field {a}')
        if isinstance(base, VOpt) and a == '__class__':
            fkey = ('cls-of-opt', node.lineno, node.col_offset)
            d = self.decide(st, base.isnone, fkey)
            if d is None:
                raise ForkReq(base.isnone, fkey)
            if d is True:
                return VConst(('builtin', 'NoneType'))
            st.env['$tmp'] = base.val
            try:
                return self.ev(ast.Attribute(value=ast.Name(id='$tmp', ctx=ast.Load()), attr=a, ctx=ast.Load(), lineno=node.lineno, col_offset=node.col_offset), st)
            finally:
                st.env.pop('$tmp', None)
        if isinstance(base, VOpt) and not st.spec:
            self.oblige(st, z3.Not(base.isnone), f'no-AttributeError-None@L{node.lineno}', 'safety', node)
            tmp = ast.Attribute(value=ast.Name(id='$tmp', ctx=ast.Load()), attr=a, ctx=ast.Load(), lineno=node.lineno, col_offset=0)
            st.env['$tmp'] = base.val
            try:
                return self.ev(tmp, st)
            finally:
                st.env.pop('$tmp', None)
        if isinstance(base, VOpt) and st.spec:
            st.env['$tmp'] = base.val
            try:
                return self.ev(ast.Attribute(value=ast.Name(id='$tmp', ctx=ast.Load()), attr=a, ctx=ast.Load()), st)
            finally:
                st.env.pop('$tmp', None)
        if isinstance(base, VConst) and isinstance(base.py, tuple) and base.py[0] in ('class', 'module'):
            return VConst(('attr', base.py, a))
        v = self.menv.attr_model(base, a, self, st)
        if v is not None:
            return v
        if isinstance(base, VUnknown):
            return VUnknown(f'{base.why}.{a}')
        raise Unsupported(f'attribute .{a} of {base!r}')

    def ev_Subscript(self, node, st):
        lk = ast.unparse(node.value) + '.__getitem__'
        if lk in self.c.get('calls', {}) and not isinstance(node.slice, ast.Slice):
            # subscript of an opaque expression with a local call model (e.g. labels.iloc[i], window.shape[axis])
            idx0 = self.ev(node.slice, st)
            fake = ast.Call(func=ast.Attribute(value=node.value, attr='__getitem__', ctx=ast.Load()), args=[node.slice], keywords=[])
            ast.copy_location(fake, node)
            ast.fix_missing_locations(fake)
            return self.menv.apply_contract(lk, fake, self, st, contract=self.c['calls'][lk], args=[idx0])
        base = self.ev(node.value, st)
        if isinstance(node.slice, ast.Slice):
            idx = VSlice(*[(self.ev(p, st) if p is not None else VNone())
                           for p in (node.slice.lower, node.slice.upper, node.slice.step)])
        else:
            idx = self.ev(node.slice, st)
        return self.getitem(base, idx, st, node)

    def getitem(self, base, idx, st, node):
        if isinstance(base, VOpt):
            self.oblige(st, z3.Not(base.isnone), f'no-TypeError-None@L{getattr(node, "lineno", 0)}', 'safety', node)
            return self.getitem(base.val, idx, st, node)
        if isinstance(base, VTuple):
            if isinstance(idx, VOpt) and idx.sort == 'int':
                idx = self.need_int(idx, st, node)
            if isinstance(idx, VInt):
                k = z3.simplify(idx.t)
                if z3.is_int_value(k):
                    kk = k.as_long()
                    if -len(base.items) <= kk < len(base.items):
                        return base.items[kk]
                    self.oblige(st, z3.BoolVal(False), f'no-IndexError@L{node.lineno}', 'safety', node)
                    return VUnknown('tuple index out of range')
                n = len(base.items)
                if n:
                    i = z3.If(idx.t < 0, idx.t + n, idx.t)
                    self.oblige(st, z3.And(i >= 0, i < n), f'no-IndexError@L{node.lineno}', 'safety', node)
                    srt = None
                    for x in base.items:
                        srt = unify(srt, infer_sort(x))
                    v = coerce(base.items[-1], srt)
                    for k2 in range(n - 2, -1, -1):
                        v = ite(i == k2, coerce(base.items[k2], srt), v, srt)
                    return v
            raise Unsupported('tuple subscript')
        if isinstance(base, VList):
            if isinstance(idx, (VInt, VBool)) or (isinstance(idx, VOpt) and idx.sort == 'int'):
                k = self.need_int(idx, st, node).t
                i = z3.If(k < 0, k + base.length, k)
                self.oblige(st, z3.And(i >= 0, i < base.length), f'no-IndexError@L{node.lineno}', 'safety', node)
                return list_get(base, i)
            if isinstance(idx, VSlice):
                return self.menv.list_slice(base, idx, self, st)
        v = self.menv.getitem_model(base, idx, self, st, node)
        if v is not None:
            return v
        lk = ast.unparse(node.value) + '.__getitem__'
        if lk in self.c.get('calls', {}):
            fake = ast.Call(func=ast.Attribute(value=node.value, attr='__getitem__', ctx=ast.Load()), args=[node.slice], keywords=[])
            ast.copy_location(fake, node)
            ast.fix_missing_locations(fake)
            return self.menv.apply_contract(lk, fake, self, st, contract=self.c['calls'][lk], args=[idx])
        if isinstance(base, VUnknown):
            return VUnknown(f'{base.why}[...]')
        raise Unsupported(f'subscript of {base!r} with {idx!r}')

    def ev_Slice(self, node, st):
        return VSlice(*[(self.ev(p, st) if p is not None else VNone()) for p in (node.lower, node.upper, node.step)])

    def ev_Lambda(self, node, st):
        return VFunc(('lambda', node, dict(st.env)))

    def ev_Call(self, node, st):
        return self.menv.call(node, self, st)

    def ev_JoinedStr(self, node, st):
        return VConst('<fstring>')

    def ev_GeneratorExp(self, node, st):
        return self.comprehension(node, st)

    def ev_ListComp(self, node, st):
        return self.comprehension(node, st)

    def comprehension(self, node, st):
        """[elt for target in iterable] over a modelled sequence -> lazily mapped sequence (no filter, one generator)"""
        if len(node.generators) != 1 or node.generators[0].ifs or node.generators[0].is_async:
            raise Unsupported('comprehension with filter / several generators')
        g = node.generators[0]
        n, get = self.as_sequence(self.ev(g.iter, st), st)
        env0 = dict(st.env)
        eng = self

        def getter(i):
            s2 = st.clone()
            s2.env = dict(env0)
            s2.spec = True        # element evaluation raises no obligations here (re-evaluated at each use)
            eng.assign(s2, g.target, get(i), None)
            return eng.ev(node.elt, s2)
        return VSeq(n, getter)

    def ev_Starred(self, node, st):
        raise Unsupported('starred expression outside call arguments')


def _as_load(t):
    t2 = ast.parse(ast.unparse(t), mode='eval').body
    return t2


def _exc_name(e):
    if e is None:
        return 'reraise'
    if isinstance(e, ast.Call):
        e = e.func
    if isinstance(e, ast.Name):
        return e.id
    if isinstance(e, ast.Attribute):
        return e.attr
    return 'Exception'


def _handler_names(h):
    if h.type is None:
        return None
    if isinstance(h.type, ast.Tuple):
        return {_exc_name(e) for e in h.type.elts}
    return {_exc_name(h.type)}
