"""Ghost model of ndarray / dtype values and the *assumed* NumPy contracts used by pyvc.

An array is the record `arr` = {ndim, rows, cols, dtype, writeable, fresh}: shapes, dtype identity, the
writeable flag and "allocated in this activation" only; cell contents are not modelled here.  Every
rule below is an ASSUMED contract on NumPy (listed in evidence as trusted, probed by specs/probes.py)."""
from __future__ import annotations
import ast
import z3
from .sorts import (VInt, VBool, VU, VNone, VOpt, VSlice, VTuple, VList, VRec, VConst, VUnknown, Unsupported,
                    parse_sort, fresh_value, fresh_name, define_record, DTYPE, coerce)
from .engine import ForkReq
from .menv import ModuleEnv

# src/off: ghost identity of the underlying buffer and the column offset of a view into it
ARR_FIELDS = dict(ndim='int', rows='int', cols='int', dtype='dtype', writeable='bool', fresh='bool', src='int', off='int')

# dtype kind codes (np.dtype.kind) as small ints
KINDS = {'b': 0, 'i': 1, 'u': 2, 'f': 3, 'c': 4, 'U': 5, 'S': 6, 'M': 7, 'm': 8, 'O': 9, 'V': 10}
kind_of = z3.Function('dtype_kind', DTYPE, z3.IntSort())
DT_OBJECT = z3.Const('DTYPE_OBJECT', DTYPE)
DT_BOOL = z3.Const('DTYPE_BOOL', DTYPE)
DT_FLOAT64 = z3.Const('DTYPE_FLOAT64', DTYPE)
DT_INT64 = z3.Const('DTYPE_INT64', DTYPE)
result_type = z3.Function('np_result_type', DTYPE, DTYPE, DTYPE)

holds = z3.Function('dtype_holds', DTYPE, DTYPE, z3.BoolSort())     # "an array of dtype a can hold every value of dtype b without loss"
_a, _b, _c = z3.Consts('hd_a hd_b hd_c', DTYPE)
DTYPE_AXIOMS = [
    kind_of(DT_OBJECT) == KINDS['O'], kind_of(DT_BOOL) == KINDS['b'],
    kind_of(DT_FLOAT64) == KINDS['f'], kind_of(DT_INT64) == KINDS['i'],
    # ASSUMED about NumPy: object is the only dtype of kind O, np.bool_ the only one of kind b
    z3.ForAll([_a], z3.Implies(kind_of(_a) == KINDS['O'], _a == DT_OBJECT)),
    z3.ForAll([_a], z3.Implies(kind_of(_a) == KINDS['b'], _a == DT_BOOL)),
    # ASSUMED about NumPy (known not to hold for int64/uint64 -> float64 above 2**53: recorded known finding C07):
    z3.ForAll([_a], holds(_a, _a)),
    z3.ForAll([_a], holds(DT_OBJECT, _a)),
    z3.ForAll([_a, _b], z3.And(holds(result_type(_a, _b), _a), holds(result_type(_a, _b), _b))),
    z3.ForAll([_a, _b, _c], z3.Implies(z3.And(holds(_a, _b), holds(_b, _c)), holds(_a, _c))),
]

ASSUMED = {
    'np.dtype.kind': 'dtype.kind is a function of the dtype into the 11 NumPy kind codes; object dtype is the only dtype of kind O, np.bool_ the only one of kind b',
    'ndarray.shape': '1-D arrays have shape (rows,), 2-D arrays (rows, cols), rows/cols >= 0',
    'ndarray.copy': 'a.copy() returns a fresh writeable array with the shape and dtype of a',
    'ndarray.flags.writeable=False': 'clears the writeable flag of exactly that array object',
    'basic-indexing-view': 'basic indexing of a read-only array yields a read-only view',
}


def install_records():
    define_record('arr', ARR_FIELDS)


def arr_wellformed(a: VRec):
    f = a.fields
    return z3.And(f['ndim'].t >= 0, f['rows'].t >= 0, f['cols'].t >= 0,
                  z3.Implies(f['ndim'].t == 1, f['cols'].t == 1))


def wellformed_facts(v):
    """type invariants of symbolic inputs (bit-valid but ill-typed inputs are excluded, cf. guidance)"""
    out = []
    if isinstance(v, VRec):
        if v.name == 'arr':
            out.append(arr_wellformed(v))
        else:
            for x in v.fields.values():
                out.extend(wellformed_facts(x))
    elif isinstance(v, VList):
        out.append(v.length >= 0)
        if isinstance(v.sort, tuple) and v.sort[0] == 'rec' and v.sort[1] == 'arr':
            from .sorts import list_get
            i = z3.Int(fresh_name('wf'))
            out.append(z3.ForAll([i], z3.Implies(z3.And(0 <= i, i < v.length), arr_wellformed(list_get(v, i)))))
    elif isinstance(v, VOpt):
        pass
    elif isinstance(v, VTuple):
        for x in v.items:
            out.extend(wellformed_facts(x))
    return out


class NpModuleEnv(ModuleEnv):
    """ModuleEnv + ndarray/dtype attribute, method and np.* function models"""

    def lookup(self, name, eng):
        if name == 'DTYPE_OBJECT':
            return VU(DT_OBJECT, 'dtype')
        if name == 'DTYPE_BOOL':
            return VU(DT_BOOL, 'dtype')
        if name == 'DTYPE_FLOAT_DEFAULT':
            return VU(DT_FLOAT64, 'dtype')
        if name == 'DTYPE_INT_DEFAULT':
            return VU(DT_INT64, 'dtype')
        from specs import PREDICATES
        if name in PREDICATES:
            params, body = PREDICATES[name]
            lam = ast.parse(f'lambda {", ".join(params)}: ({body})', mode='eval').body
            from .sorts import VFunc
            return VFunc(('lambda', lam, {}))
        return super().lookup(name, eng)

    def attr_model(self, base, attr, eng, st):
        if isinstance(base, VRec) and base.name in ('arr', 'carr'):
            f = base.fields
            if attr == 'shape':
                k1 = ('ndim-is-1', str(f['ndim'].t))
                k2 = ('ndim-is-2', str(f['ndim'].t))
                d = eng.decide(st, f['ndim'].t == 1, k1)
                if d is True:
                    return VTuple([f['rows']])
                d2 = eng.decide(st, f['ndim'].t == 2, k2)
                if d2 is True:
                    return VTuple([f['rows'], f['cols']])
                if st.spec:
                    raise Unsupported('shape of array of undecided ndim in a specification')
                if d is None:
                    raise ForkReq(f['ndim'].t == 1, k1)
                if d2 is None:
                    raise ForkReq(f['ndim'].t == 2, k2)
                return VUnknown('shape of array with ndim not in {1,2}')
            if attr == 'flags' and 'writeable' in f:
                return VConst(('flags', base))
            if attr == '__class__':
                return VConst(('attr', ('module', 'numpy'), 'ndarray'))
            if attr == 'size':
                return VInt(f['rows'].t * z3.If(f['ndim'].t == 1, 1, f['cols'].t))
        if isinstance(base, VConst) and isinstance(base.py, tuple) and base.py[0] == 'flags' and attr == 'writeable':
            return base.py[1].fields['writeable']
        if isinstance(base, VU) and base.sort == 'dtype':
            if attr == 'kind':
                return VConst(('dtype_kind', base.t))
            if attr == 'type':
                return VConst(('dtype_type', base.t))
            if attr == 'itemsize':      # an uninterpreted function of the dtype (different dtypes may share kind and width: datetime64 units, int64 / uint64)
                return VInt(z3.Function('dtype_itemsize', DTYPE, z3.IntSort())(base.t))
        return super().attr_model(base, attr, eng, st)

    def getitem_model(self, base, idx, eng, st, node):
        """basic indexing of a 2-D array by (row-slice, column slice | column int): a view (ASSUMED numpy contract
        'basic-indexing-view': same buffer, same writeable flag, columns = the selected range)"""
        if isinstance(base, VRec) and base.name == 'arr' and isinstance(idx, VTuple) and len(idx.items) == 2:
            rk, ck = idx.items
            f = base.fields
            if not st.spec:
                eng.oblige(st, f['ndim'].t == 2, f'no-IndexError-2d-index-on-1d@L{node.lineno}', 'safety', node)
            if not (isinstance(rk, VSlice) and all(isinstance(p, VNone) for p in (rk.start, rk.stop, rk.step))):
                return None
            from .menv import slice_norm
            nf = dict(f)
            if isinstance(ck, VSlice):
                a, b, c = slice_norm(ck, f['cols'].t)
                cs = z3.simplify(c)
                if not (z3.is_int_value(cs) and cs.as_long() == 1):
                    return None
                nf['cols'] = VInt(z3.If(b > a, b - a, 0))
                nf['off'] = VInt(f['off'].t + a)
                eng.assumed_used.add('basic-indexing-view')
                return VRec('arr', nf, base.fsorts)
            if isinstance(ck, VInt):
                k = z3.If(ck.t < 0, ck.t + f['cols'].t, ck.t)
                if not st.spec:
                    eng.oblige(st, z3.And(k >= 0, k < f['cols'].t), f'no-IndexError@L{node.lineno}', 'safety', node)
                nf['ndim'] = VInt(1)
                nf['cols'] = VInt(1)
                nf['off'] = VInt(f['off'].t + k)
                eng.assumed_used.add('basic-indexing-view')
                return VRec('arr', nf, base.fsorts)
        return None

    def identical_model(self, a, b):
        for x, y in ((a, b), (b, a)):
            if isinstance(x, VConst) and isinstance(x.py, tuple) and x.py and x.py[0] == 'dtype_type':
                if isinstance(y, VConst) and isinstance(y.py, tuple) and y.py[0] == 'attr' and y.py[2] == 'bool_':
                    return kind_of(x.py[1]) == KINDS['b']
                raise Unsupported(f'dtype.type compared with {y!r}')
        return None

    # ---- numpy module functions and ndarray methods: assumed contracts (specs/assumed_numpy.py) -------
    def method_call(self, base, name, node, eng, st):
        if isinstance(base, VConst) and isinstance(base.py, tuple) and base.py[0] == 'module' and base.py[1] == 'numpy':
            key = f'np.{name}'
            if key in eng.c.get('calls', {}):
                eng.assumed_used.add(key + ' (local)')
                return self.apply_contract(key, node, eng, st, contract=eng.c['calls'][key])
            if key in self.reg:
                eng.assumed_used.add(key)
                return self.apply_contract(key, node, eng, st)
            for a in node.args:
                eng.ev(a, st)
            return VUnknown(f'np.{name} (no assumed contract)')
        if isinstance(base, VRec) and base.name == 'arr':
            key = f'ndarray.{name}'
            if key in eng.c.get('calls', {}):
                eng.assumed_used.add(key + ' (local)')
                return self.apply_contract(key, node, eng, st, contract=eng.c['calls'][key], recv=base)
            if key in self.reg:
                eng.assumed_used.add(key)
                return self.apply_contract(key, node, eng, st, recv=base)
            for a in node.args:
                eng.ev(a, st)
            return VUnknown(f'ndarray.{name} (no assumed contract)')
        return super().method_call(base, name, node, eng, st)

    def specfn(self, name, node, eng, st):
        if name in ('kind_is', 'np_result_type', 'W', 'frozen', 'same_array', 'dtype_class', 'holds', 'ufd'):
            vals = [eng.ev(x, st) for x in node.args]
            if name == 'kind_is':       # kind_is(dt, 'O', 'U', ...)
                ks = [v.py for v in vals[1:]]
                return VBool(z3.Or(*[kind_of(vals[0].t) == KINDS[k] for k in ks]))
            if name == 'holds':
                hv = [v.val if isinstance(v, VOpt) else v for v in vals]      # an Optional dtype is read through (callers guard with is_none)
                return VBool(holds(hv[0].t, hv[1].t))
            if name == 'ufd':       # ufd('name', elem...): uninterpreted function from opaque elements to a dtype
                from .sorts import ELEM
                f = z3.Function('ufd_' + vals[0].py, *([ELEM] * (len(vals) - 1) + [DTYPE]))
                return VU(f(*[coerce(v, 'elem').t for v in vals[1:]]), 'dtype')
            if name == 'np_result_type':
                return VU(result_type(vals[0].t, vals[1].t), 'dtype')
            if name == 'W':             # width of a block
                f = vals[0].fields
                return VInt(z3.If(f['ndim'].t == 1, 1, f['cols'].t))
            if name == 'frozen':
                return VBool(z3.Not(vals[0].fields['writeable'].t))
            if name == 'dtype_class':   # 0 str, 1 datetime, 2 timedelta, 3 bool, 4 numeric, 5 object, 6 other
                k = kind_of(vals[0].t)
                return VInt(z3.If(z3.Or(k == KINDS['U'], k == KINDS['S']), 0,
                            z3.If(k == KINDS['M'], 1, z3.If(k == KINDS['m'], 2, z3.If(k == KINDS['b'], 3,
                            z3.If(z3.Or(k == KINDS['i'], k == KINDS['u'], k == KINDS['f'], k == KINDS['c']), 4,
                            z3.If(k == KINDS['O'], 5, 6)))))))
            if name == 'same_array':
                from .sorts import equal
                return VBool(equal(vals[0], vals[1]))
        return super().specfn(name, node, eng, st)
