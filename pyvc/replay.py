"""Run the REAL function (imported from the repo under test) on concrete inputs under its
contract evaluated concretely.  Used to replay counter-models and by the bounded stand-in."""
from __future__ import annotations
import importlib
import inspect
import traceback
from .cspec import ceval, cexec, decode


def resolve(relpath: str, qualname: str):
    mod = importlib.import_module(relpath[:-3].replace('/', '.'))
    obj = mod
    for p in qualname.split('.'):
        obj = getattr(obj, p)
    if isinstance(obj, property):      # a contract on a property is a contract on its getter
        obj = obj.fget
    return obj


def run_contract(contract: dict, inputs: dict, fn=None):
    """-> dict(outcome='pass'|'fail'|'pre-false'|'spec-error', failed=[...], detail=...)
    inputs: name -> real python value (params and ghost params).  Contract expressions see records through
    proxies (pyvc.concrete.view); old(...) refers to proxies taken before the call."""
    from specs import PREDICATES
    from .concrete import view, input_arrays
    fn = fn or resolve(contract['relpath'], contract['qualname'])
    inputs = dict(inputs)
    for k, src in contract.get('concrete_defaults', {}).items():
        if k not in inputs:
            inputs[k] = eval(src)
    ins = input_arrays(list(inputs.values()))
    b_old = {k: view(v, ()) for k, v in inputs.items()}

    def cev(expr, b, old=None):
        return ceval(expr, b, old_bindings=old, predicates=PREDICATES)
    try:
        for r in contract.get('requires_concrete', contract.get('requires', [])):
            if not cev(r, b_old):
                return dict(outcome='pre-false', failed=[r])
    except Exception as e:
        return dict(outcome='spec-error', detail=f'requires: {e!r}')
    order = list(contract.get('order', []))
    kwonly = set()
    try:
        kwonly = {n for n, p in inspect.signature(fn).parameters.items() if p.kind == p.KEYWORD_ONLY}
    except (TypeError, ValueError):
        pass
    args = [inputs[n] for n in order if n in inputs and n != 'cls' and n not in kwonly]
    kwargs = {n: inputs[n] for n in list(order) + list(contract.get('kwonly', [])) if n in inputs and n in kwonly}
    if 'source' in kwonly and 'source' in inputs:
        kwargs['source'] = inputs['source']
    failed = []
    raised = None
    b = None
    try:
        out = fn(*args, **kwargs)
        if contract.get('is_generator') or inspect.isgenerator(out):
            b = {k: view(v, ins) for k, v in inputs.items()}
            for src in contract.get('ghost_init', []):
                cexec(src, b)
            ys = []
            for y in out:
                b['result'] = view(y, ins)
                for e in contract.get('at_yield_concrete', contract.get('at_yield', [])):
                    if not cev(e, b, b_old):
                        failed.append(f'at_yield: {e}  [yield #{len(ys)} = {y!r}]')
                for src in contract.get('yield_update', []):
                    cexec(src, b)
                ys.append(y)
            b['yields'] = ys
            b.pop('result', None)
            posts = contract.get('at_exit_concrete', contract.get('at_exit', []))
            out = ys
        else:
            b = {k: view(v, ins) for k, v in inputs.items()}
            b['result'] = view(out, ins)
            posts = contract.get('ensures_concrete', contract.get('ensures', []))
    except Exception as e:
        raised = type(e).__name__
        allowed = contract.get('raises_concrete', contract.get('raises', {}))
        ok = False
        for name, cnd in allowed.items():
            if name == raised or any(c.__name__ == name for c in type(e).__mro__):
                try:
                    ok = True if (cnd is True or cnd == 'maybe' or isinstance(cnd, tuple)) else bool(cev(cnd, b_old))
                except Exception as e2:
                    return dict(outcome='spec-error', detail=f'raises cond: {e2!r}')
                break
        if not ok:
            return dict(outcome='fail', failed=[f'raised {raised}: {e}'], raised=raised,
                        detail=traceback.format_exc(limit=3))
        b = {k: view(v, ins) for k, v in inputs.items()}
        try:
            for e2 in contract.get('raise_ensures', []):
                if not cev(e2, b, b_old):
                    failed.append(f'after {raised}: {e2}')
        except Exception as e3:
            return dict(outcome='spec-error', detail=f'raise_ensures: {e3!r}')
        if failed:
            return dict(outcome='fail', failed=failed, raised=raised)
        return dict(outcome='pass', raised=raised)
    try:
        for e in posts:
            if not cev(e, b, b_old):
                failed.append(e)
    except Exception as e2:
        return dict(outcome='spec-error', detail=f'ensures: {e2!r} in {e}')
    if failed:
        return dict(outcome='fail', failed=failed, result=repr(out)[:300])
    return dict(outcome='pass', result=repr(out)[:300])


def _safe_repr(x):
    try:
        return repr(x)[:300]
    except Exception as e:      # e.g. an object made with __new__ whose __init__ is the function under contract
        return f'<{type(x).__name__} (repr failed: {type(e).__name__})>'


def replay_model(contract: dict, model: dict):
    from .concrete import build, DtypeMap
    dm = DtypeMap()
    if contract.get('concrete_inputs'):
        import importlib
        mod, fn = contract['concrete_inputs'].split(':')
        inputs = getattr(importlib.import_module(mod), fn)({k: decode(v) for k, v in model.items()})
        if isinstance(inputs, list):      # several candidate concretisations of one counter-model (e.g. block layouts): first real failure wins
            from .concrete import view
            last = None
            for cand in inputs:
                last = run_contract(contract, cand)
                # (shown AFTER the call: printing an object may refresh its caches, which must not happen before the function under contract runs)
                last['inputs'] = {k: _safe_repr(view(v, ())) for k, v in cand.items()}
                if last.get('outcome') == 'fail':
                    return last
            return last or dict(outcome='spec-error', detail='no candidate inputs')
    else:
        inputs = {k: build(decode(v), dm) for k, v in model.items() if not k.startswith('__')}
    from .concrete import view
    shown = {k: _safe_repr(view(v, ())) for k, v in inputs.items()}      # proxies: safe repr of the entry state
    r = run_contract(contract, inputs)
    r['inputs'] = shown
    if r.get('outcome') == 'pass' and not contract.get('concrete_inputs'):
        # the counter-model leaves dtypes opaque (only (in)equalities and kinds are constrained): try the other injective
        # assignments of its dtype tokens onto the palette (same-kind pairs such as int64/int32 included); first real failure wins
        import itertools, re
        from .concrete import PALETTE
        toks = sorted(set(re.findall(r'Dtype!val!\d+', repr(model))))
        if 0 < len(toks) <= 3:
            for n, perm in enumerate(itertools.permutations(PALETTE[:9], len(toks))):
                if n > 520:
                    break
                dm2 = DtypeMap()
                dm2.m = dict(zip(toks, perm))
                try:
                    cand = {k: build(decode(v), dm2) for k, v in model.items() if not k.startswith('__')}
                    r2 = run_contract(contract, cand)
                except Exception:
                    continue
                if r2.get('outcome') == 'fail' and r2.get('raised') not in ('AttributeError', 'TypeError'):
                    r2['inputs'] = {k: repr(view(v, ()))[:300] for k, v in cand.items()}
                    r2['note'] = 'dtype tokens of the counter-model re-assigned: ' + ', '.join(f'{t}={d}' for t, d in zip(toks, perm))
                    return r2
    opaque = contract.get('calls') or any(str(s_) in ('elem', 'list[elem]') or 'elem' in str(s_) for s_ in contract.get('params', {}).values())
    if r.get('outcome') == 'fail' and r.get('raised') in ('AttributeError', 'TypeError') and opaque and not contract.get('concrete_inputs'):
        # opaque objects (stores, callables, labels) cannot be built generically: a harness-made object failing is not evidence about /repo
        return dict(outcome='spec-error', detail=f"replay harness cannot construct the opaque inputs of this contract ({r.get('failed')})", inputs=shown)
    return r
