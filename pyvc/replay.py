"""Run the REAL function (imported from the repo under test) on concrete inputs under its
contract evaluated concretely.  Used to replay counter-models and by the bounded stand-in."""
from __future__ import annotations
import importlib
import inspect
import traceback
from .cspec import ceval, cexec, decode


def resolve(relpath: str, qualname: str):
    mod = importlib.import_module(relpath[:-3].replace('/', '.'))
    obj = mod
    for p in qualname.split('.'):
        obj = getattr(obj, p)
    return obj


def run_contract(contract: dict, inputs: dict, fn=None):
    """-> dict(outcome='pass'|'fail'|'pre-false'|'spec-error', failed=[...], detail=...)
    inputs: name -> python value (params and ghost params)."""
    fn = fn or resolve(contract['relpath'], contract['qualname'])
    b = dict(inputs)
    try:
        for r in contract.get('requires_concrete', contract.get('requires', [])):
            if not ceval(r, b):
                return dict(outcome='pre-false', failed=[r])
    except Exception as e:
        return dict(outcome='spec-error', detail=f'requires: {e!r}')
    order = [n for n in contract.get('order', []) if n not in ('self', 'cls')]
    args = [inputs[n] for n in order if n in inputs]
    old = dict(b)
    failed = []
    raised = None
    try:
        out = fn(*args)
        if contract.get('is_generator') or inspect.isgenerator(out):
            for src in contract.get('ghost_init', []):
                cexec(src, b)
            ys = []
            for y in out:
                b['result'] = y
                for e in contract.get('at_yield_concrete', contract.get('at_yield', [])):
                    if not ceval(e, b):
                        failed.append(f'at_yield: {e}  [yield #{len(ys)} = {y!r}]')
                for src in contract.get('yield_update', []):
                    cexec(src, b)
                ys.append(y)
            b['yields'] = ys
            b.pop('result', None)
            posts = contract.get('at_exit_concrete', contract.get('at_exit', []))
            out = ys
        else:
            b['result'] = out
            posts = contract.get('ensures_concrete', contract.get('ensures', []))
    except Exception as e:
        raised = type(e).__name__
        allowed = contract.get('raises', {})
        ok = False
        for name, cnd in allowed.items():
            if name == raised or any(c.__name__ == name for c in type(e).__mro__):
                try:
                    ok = True if cnd is True else bool(ceval(cnd, old))
                except Exception as e2:
                    return dict(outcome='spec-error', detail=f'raises cond: {e2!r}')
                break
        if ok:
            return dict(outcome='pass', raised=raised)
        return dict(outcome='fail', failed=[f'raised {raised}: {e}'], raised=raised,
                    detail=traceback.format_exc(limit=3))
    try:
        for e in posts:
            if not ceval(e, b):
                failed.append(e)
    except Exception as e2:
        return dict(outcome='spec-error', detail=f'ensures: {e2!r} in {e}')
    if failed:
        return dict(outcome='fail', failed=failed, result=repr(out)[:300])
    return dict(outcome='pass', result=repr(out)[:300])


def replay_model(contract: dict, model: dict):
    inputs = {k: decode(v) for k, v in model.items()}
    r = run_contract(contract, inputs)
    r['inputs'] = {k: repr(v) for k, v in inputs.items()}
    return r
