"""G3 (ownership): for every constructor call carrying own_columns= / own_data=, on every path through the enclosing
function: the argument handed over as *owned* is not an alias of the receiver's own grow-able member
(`self._columns` may be an IndexGO, `self._blocks` the TypeBlocks of a FrameGO), unless ownership is conditioned on
staticness (`self.STATIC`, `constructor is Frame`, ...).  Path-enumerating (if/else forks, loop bodies 0/1 times),
so the correlation "columns = self._columns; own_columns = False" vs "columns = fresh; own_columns = True" is kept.
Sound for the stated pattern only: an alias created through a container or another function is not tracked."""
from __future__ import annotations
import ast
import os

MODULES = ['frame', 'series', 'index_hierarchy', 'bus', 'quilt', 'batch', 'container_util', 'node_iter', 'store']
MEMBERS = {'_columns': 'columns', '_blocks': 'data'}       # grow-able members and the constructor parameter they are passed as
OWN_FOR = {'own_columns': ('columns', '_columns'), 'own_data': ('data', '_blocks')}
MAX_PATHS = 4096


def _alias(e, env):
    """'_columns' / '_blocks' if expression e is (an alias of) that member of self, else None"""
    if isinstance(e, ast.Attribute) and isinstance(e.value, ast.Name) and e.value.id == 'self':
        if e.attr in MEMBERS:
            return e.attr
        if e.attr == 'columns':
            return '_columns'
    if isinstance(e, ast.Name):
        return env.get(e.id, (None, None))[0]
    if isinstance(e, ast.IfExp):      # `a if c else b` may be either: an alias if one of the two is
        return _alias(e.body, env) or _alias(e.orelse, env)
    return None


def _const(e, env):
    if isinstance(e, ast.Constant) and isinstance(e.value, bool):
        return e.value
    if isinstance(e, ast.Name) and e.id in env:
        return env[e.id][1]
    return None      # conditioned / computed: not a definite True


class Sites:
    def __init__(self):
        self.items = {}      # site id -> dict

    def record(self, sid, lineno, verdict, note):
        cur = self.items.get(sid)
        rank = {'proved': 0, 'refuted': 1}
        if cur is None or rank[verdict] > rank[cur['verdict']]:
            self.items[sid] = dict(sid=sid, lineno=lineno, verdict=verdict, note=note)


def _walk_paths(stmts, env, visit, budget):
    """enumerate paths; env: name -> (alias member | None, bool const | None)"""
    if budget[0] <= 0:
        return [env]
    envs = [env]
    for s in stmts:
        nxt = []
        for e in envs:
            nxt.extend(_step(s, e, visit, budget))
            if len(nxt) > MAX_PATHS:
                budget[0] = 0
                break
        envs = nxt
        if not envs:
            break
    return envs


def _step(s, env, visit, budget):
    for n in ast.walk(s) if not isinstance(s, (ast.If, ast.For, ast.While, ast.Try, ast.With)) else []:
        if isinstance(n, ast.Call):
            visit(n, env)
    if isinstance(s, (ast.Assign, ast.AnnAssign)):
        targets = s.targets if isinstance(s, ast.Assign) else [s.target]
        val = s.value
        e2 = dict(env)
        for t in targets:
            if isinstance(t, ast.Name) and val is not None:
                e2[t.id] = (_alias(val, env), _const(val, env))
            elif isinstance(t, (ast.Tuple, ast.List)):
                for el in t.elts:
                    if isinstance(el, ast.Name):
                        e2[el.id] = (None, None)
        return [e2]
    if isinstance(s, ast.If):
        for n in ast.walk(s.test):
            if isinstance(n, ast.Call):
                visit(n, env)
        budget[0] -= 1
        return _walk_paths(s.body, dict(env), visit, budget) + _walk_paths(s.orelse, dict(env), visit, budget)
    if isinstance(s, (ast.For, ast.While)):
        out = [dict(env)] + _walk_paths(s.body, dict(env), visit, budget)
        return out
    if isinstance(s, ast.Try):
        out = _walk_paths(s.body, dict(env), visit, budget)
        for h in s.handlers:
            out += _walk_paths(h.body, dict(env), visit, budget)
        res = []
        for e in out:
            res += _walk_paths(s.orelse + s.finalbody, e, visit, budget)
        return res
    if isinstance(s, ast.With):
        return _walk_paths(s.body, dict(env), visit, budget)
    if isinstance(s, (ast.Return, ast.Raise)):
        return []
    return [env]


def analyse(repo_root, modules=MODULES):
    sites = Sites()
    for m in modules:
        p = os.path.join(repo_root, 'static_frame', 'core', m + '.py')
        if not os.path.exists(p):
            continue
        tree = ast.parse(open(p, encoding='utf-8').read())
        for cls in [n for n in tree.body if isinstance(n, ast.ClassDef)]:
            for fn in [n for n in cls.body if isinstance(n, ast.FunctionDef)]:
                ordinals = {}
                calls = [n for n in ast.walk(fn) if isinstance(n, ast.Call) and any(k.arg in OWN_FOR for k in n.keywords)]
                calls.sort(key=lambda n: (n.lineno, n.col_offset))
                for k, c in enumerate(calls):
                    ordinals[id(c)] = k

                def visit(call, env, m=m, cls=cls, fn=fn, ordinals=ordinals):
                    if id(call) not in ordinals:
                        return
                    kws = {k.arg: k.value for k in call.keywords if k.arg}
                    for own, (param, member) in OWN_FOR.items():
                        if own not in kws:
                            continue
                        arg = kws.get(param)
                        if arg is None and param == 'data' and call.args:
                            arg = call.args[0]
                        sid = f'G3:{m}:{cls.name}.{fn.name}:{own}#{ordinals[id(call)]}'
                        if arg is None:
                            sites.record(sid, call.lineno, 'proved', f'no {param} argument')
                            continue
                        al = _alias(arg, env)
                        definite = _const(kws[own], env) is True
                        if al == member and definite:
                            sites.record(sid, call.lineno, 'refuted', f'{own}=True while {param}={ast.unparse(arg)} aliases self.{member} (grow-able for the GO class): the result would share it')
                        else:
                            sites.record(sid, call.lineno, 'proved', f'{own}={ast.unparse(kws[own])}, {param}={ast.unparse(arg)[:40]} ({"alias of self." + al if al else "not an alias of a member"})')
                _walk_paths(fn.body, {}, visit, [64])
    return list(sites.items.values())
