"""pyvc: verification-condition generator over the real /repo ASTs (see /verif/DESIGN.md §2.2)."""
