"""Module environment: global-name resolution from the real module ASTs, builtin models,
spec functions (symbolic side) and modular call handling (callee contract, never callee body)."""
from __future__ import annotations
import ast
import os
import z3
from .sorts import (VSeq, V, VInt, VBool, VU, VNone, VOpt, VSlice, VTuple, VList, VRec, VConst, VRange,
                    VUnknown, VFunc, Unsupported, parse_sort, fresh_value, fresh_name, coerce, leaves,
                    from_leaves, infer_sort, unify, sort_complete, ite, equal, list_get, list_append,
                    list_literal, default_value, z3sorts)
from .engine import ForkReq, RaiseReq, SpecError, State

BUILTINS = {'len', 'abs', 'min', 'max', 'range', 'slice', 'isinstance', 'int', 'list', 'tuple', 'sorted',
            'enumerate', 'zip', 'reversed', 'iter', 'next', 'bool', 'hasattr', 'callable', 'str', 'any', 'all',
            'sum', 'set', 'dict', 'frozenset', 'id', 'type', 'hash', 'getattr', 'repr', 'print', 'zip_longest', 'chain'}
EXC_NAMES = {'RuntimeError', 'KeyError', 'IndexError', 'ValueError', 'TypeError', 'NotImplementedError',
             'StopIteration', 'AttributeError', 'Exception', 'ZeroDivisionError', 'LookupError'}
SPECFNS = {'forall_elem', 'it_pos', 'it_len', 'it_at', 'ufi', 'ube', 'ufd', 'holds', 'ufe', 'ub', 'kind_is', 'np_result_type', 'W', 'frozen', 'same_array', 'dtype_class', 'implies', 'iff', 'forall', 'exists', 'forall_in', 'exists_in', 'old', 'cond', 's_start', 's_stop',
           's_step', 'nth', 'in_slice', 'length', 'at', 'is_none', 'some', 'slice_len_le', 'true', 'false',
           'at_or', 'R_len', 'sum_to'}


def slice_norm(s: VSlice, n):
    """(start, stop, step) as computed by slice.indices(n)  (PySlice_AdjustIndices); step None -> 1.
    s fields must be opt[int]."""
    s = coerce(s, 'slice')
    step = z3.If(s.step.isnone, 1, s.step.val.t)

    def adj(p, dflt_pos, dflt_neg):
        v = p.val.t
        v1 = z3.If(v < 0, v + n, v)
        clipped = z3.If(v < 0,
                        z3.If(v1 < 0, z3.If(step < 0, -1, 0), v1),
                        z3.If(v >= n, z3.If(step < 0, n - 1, n), v))
        return z3.If(p.isnone, z3.If(step < 0, dflt_neg, dflt_pos), clipped)
    start = adj(s.start, z3.IntVal(0), n - 1)
    stop = adj(s.stop, n, z3.IntVal(-1))
    return start, stop, step


class Repo:
    """parsed view of the /repo source tree (text only; nothing is imported)."""

    def __init__(self, root):
        self.root = root
        self._mods = {}

    def module(self, relpath):
        if relpath not in self._mods:
            path = os.path.join(self.root, relpath)
            with open(path, encoding='utf-8') as f:
                src = f.read()
            self._mods[relpath] = (src, ast.parse(src))
        return self._mods[relpath]

    def find_function(self, relpath, qualname):
        src, tree = self.module(relpath)
        parts = qualname.split('.')
        body = tree.body
        node = None
        cls = None
        for k, p in enumerate(parts):
            node = None
            for n in body:
                if isinstance(n, (ast.FunctionDef, ast.ClassDef)) and n.name == p:
                    node = n      # last definition wins, as in Python
            if node is None:
                return None, None, None
            if isinstance(node, ast.ClassDef):
                cls = node.name
            body = node.body
        seg = ast.get_source_segment(src, node)
        return node, seg, cls if len(parts) > 1 else None


class ModuleEnv:
    def __init__(self, repo: Repo, relpath: str, registry: dict, consts=None):
        self.repo, self.relpath, self.reg = repo, relpath, registry
        self.src, self.tree = repo.module(relpath)
        self.cache = {}
        self.consts = consts or {}
        self._resolving = set()

    # ---- global names ----------------------------------------------------------------------
    def lookup(self, name, eng):
        if name in self.cache:
            return self.cache[name]
        if name in self.consts:
            return self.consts[name]
        if name in SPECFNS:
            return VConst(('specfn', name))
        if name in BUILTINS:
            return VConst(('builtin', name))
        if name in EXC_NAMES:
            return VConst(('class', name))
        v = self._module_constant(self.relpath, name, eng, 0)
        if v is not None:
            self.cache[name] = v
        return v

    def _module_constant(self, relpath, name, eng, depth):
        if depth > 4 or (relpath, name) in self._resolving:
            return None
        self._resolving.add((relpath, name))
        try:
            try:
                _, tree = self.repo.module(relpath)
            except OSError:
                return None
            found = None
            for n in tree.body:
                if isinstance(n, ast.Assign) and any(isinstance(t, ast.Name) and t.id == name for t in n.targets):
                    found = n.value
                elif isinstance(n, ast.AnnAssign) and isinstance(n.target, ast.Name) and n.target.id == name and n.value:
                    found = n.value
                elif isinstance(n, (ast.FunctionDef, ast.ClassDef)) and n.name == name:
                    return VConst(('class' if isinstance(n, ast.ClassDef) else 'function', name))
                elif isinstance(n, ast.ImportFrom) and n.module and n.module.startswith('static_frame'):
                    for al in n.names:
                        if (al.asname or al.name) == name:
                            rp = n.module.replace('.', '/') + '.py'
                            return self._module_constant(rp, al.name, eng, depth + 1)
                elif isinstance(n, ast.Import):
                    for al in n.names:
                        if (al.asname or al.name) == name:
                            return VConst(('module', al.name))
            if found is None:
                return None
            sub = ModuleEnv(self.repo, relpath, self.reg, self.consts) if relpath != self.relpath else self
            st = State()
            st.spec = True
            saved = eng.menv
            eng.menv = sub
            try:
                return eng.ev(found, st)
            except (Unsupported, SpecError):
                return VUnknown(f'module constant {name}')
            finally:
                eng.menv = saved
        finally:
            self._resolving.discard((relpath, name))

    # ---- attribute / item models beyond the core ------------------------------------------------
    def attr_model(self, base, attr, eng, st):
        if isinstance(base, VConst) and isinstance(base.py, tuple) and base.py[0] == 'module':
            return VConst(('attr', base.py, attr))
        return None

    def getitem_model(self, base, idx, eng, st, node):
        return None

    def identical_model(self, a, b):
        return None

    def contains_model(self, container, item, eng, st, node):
        return None

    def list_slice(self, base: VList, idx: VSlice, eng, st):
        """xs[a:b:c] -> fresh list characterised by a quantified axiom."""
        n = base.length
        start, stop, step = slice_norm(idx, n)
        sstep = z3.simplify(step)
        if z3.is_int_value(sstep) and sstep.as_long() == 1:
            ln = z3.If(stop > start, stop - start, 0)
            return VSeq(ln, lambda i: list_get(base, start + i))
        out = fresh_value(('list', base.sort), 'sl')
        k = z3.Int(fresh_name('k'))
        st.define(out.length >= 0)
        # length: no division -- characterise by bounds on the last index
        st.define(z3.If(step > 0,
                           z3.If(start >= stop, out.length == 0,
                                 z3.And(start + (out.length - 1) * step < stop, start + out.length * step >= stop, out.length > 0)),
                           z3.If(start <= stop, out.length == 0,
                                 z3.And(start + (out.length - 1) * step > stop, start + out.length * step <= stop, out.length > 0))))
        src_el = leaves(list_get(base, start + k * step), base.sort)
        dst_el = leaves(list_get(out, k), base.sort)
        st.define(z3.ForAll([k], z3.Implies(z3.And(0 <= k, k < out.length),
                                               z3.And(*[a == b for a, b in zip(dst_el, src_el)]))))
        # consequences of the normalisation done by slice.indices (stated, so that no nonlinear reasoning is needed to recover them):
        # every selected position lies inside the list, and positions move strictly in the direction of the step
        st.define(z3.ForAll([k], z3.Implies(z3.And(0 <= k, k < out.length), z3.And(0 <= start + k * step, start + k * step < n)),
                            patterns=[z3.MultiPattern(*[d for d in dst_el[:1]])] if dst_el else []))
        st.define(z3.ForAll([k], z3.Implies(z3.And(0 <= k, k + 1 < out.length),
                                            z3.If(step > 0, start + k * step < start + (k + 1) * step, z3.Implies(step < 0, start + k * step > start + (k + 1) * step)))))
        return out

    def comprehension(self, node, eng, st):
        raise Unsupported('comprehension')

    # ---- calls ------------------------------------------------------------------------------
    def call(self, node, eng, st):
        f = node.func
        # method calls ------------------------------------------------------------------
        if isinstance(f, ast.Attribute):
            src_ = ast.unparse(f)
            if src_ in eng.c.get('calls', {}) and not isinstance(f.value, ast.Name):
                # a call model stated for this exact receiver expression (e.g. self._loaded.sum): the receiver itself need not be modelled;
                # when it is (a record), the model may refer to it as `recv_`
                try:
                    base_ = eng.ev(f.value, st)
                except (Unsupported, SpecError):
                    base_ = None
                return self.apply_contract(src_, node, eng, st, contract=eng.c['calls'][src_], recv=base_ if isinstance(base_, VRec) else None)
            # cls.method / self.method / Class.method -> contract
            if isinstance(f.value, ast.Name) and f.value.id in ('cls', 'self') and f.value.id in st.env:
                key = f'{eng.cls_name}.{f.attr}'
                key = eng.c.get('call_alias', {}).get(key, key)      # the caller names which of the callee's proved contracts it relies on
                recv = st.env[f.value.id]
                if key in self.reg and not (isinstance(recv, VRec) and f.attr in recv.fields) and ast.unparse(f) not in eng.c.get('calls', {}):
                    return self.apply_contract(key, node, eng, st, recv=recv if f.value.id == 'self' else None)
            base = eng.ev(f.value, st)
            return self.method_call(base, f.attr, node, eng, st)
        if isinstance(f, ast.Name):
            if f.id in st.env:
                fv = st.env[f.id]
            else:
                fv = self.lookup(f.id, eng)
            if isinstance(fv, VFunc):
                return self.call_lambda(fv, [eng.ev(a, st) for a in node.args], eng, st)
            if f.id in eng.c.get('calls', {}):
                return self.apply_contract(f.id, node, eng, st, contract=eng.c['calls'][f.id])
            if isinstance(fv, VConst) and isinstance(fv.py, tuple):
                tag = fv.py[0]
                if tag == 'specfn':
                    if not st.spec:
                        raise Unsupported(f'spec function {fv.py[1]} used in code')
                    return self.specfn(fv.py[1], node, eng, st)
                if tag == 'builtin':
                    return self.builtin(fv.py[1], node, eng, st)
                if tag == 'function':
                    if fv.py[1] in self.reg:
                        return self.apply_contract(fv.py[1], node, eng, st)
                    for a in node.args:
                        eng.ev(a, st)
                    return VUnknown(f'call of {fv.py[1]} (no contract)')
                if tag == 'class':
                    if f'{fv.py[1]}.__raw__' in self.reg:      # constructor contract
                        return self.apply_contract(f'{fv.py[1]}.__raw__', node, eng, st)
                    args = [eng.ev(a, st) for a in node.args]
                    return VConst(('instance', fv.py[1]))
            if f.id in self.reg:
                return self.apply_contract(f.id, node, eng, st)
            for a in node.args:
                eng.ev(a, st)
            return VUnknown(f'call of {f.id}')
        raise Unsupported('call form')

    def call_lambda(self, fv, args, eng, st):
        _, lam, env = fv.fn
        names = [a.arg for a in lam.args.args]
        if len(names) != len(args):
            raise Unsupported('lambda arity')
        saved = st.env
        st.env = dict(env)
        st.env.update({k: v for k, v in saved.items() if k not in st.env or k.startswith('$')})
        st.env.update(dict(zip(names, args)))
        try:
            return eng.ev(lam.body, st)
        finally:
            st.env = saved

    def method_call(self, base, name, node, eng, st):
        if isinstance(base, VOpt) and not st.spec:      # a method call on an Optional: obligation that it is not None here, then its payload
            eng.oblige(st, z3.Not(base.isnone), f'no-AttributeError-None@L{node.lineno}', 'safety', node)
            base = base.val
        args = [eng.ev(a, st) for a in node.args]
        if isinstance(base, VList):
            if name == 'append' and len(args) == 1:
                root = node.func.value
                while isinstance(root, (ast.Attribute, ast.Subscript)):
                    root = root.value
                if isinstance(root, ast.Name) and root.id in st.aliased:
                    raise Unsupported(f'mutation of possibly aliased list {root.id}')
                eng.assign(st, node.func.value, list_append(base, args[0]), None)
                return VNone()
            if name == 'clear' and not args:
                eng.assign(st, node.func.value, VList(0, base.sort, base.arrs), None)
                return VNone()
            if name == 'pop' and len(args) == 0:
                fkey = ('pop', node.lineno, node.col_offset)
                d = eng.decide(st, base.length == 0, fkey)
                if d is None:
                    raise ForkReq(base.length == 0, fkey)
                if d is True:
                    raise RaiseReq('IndexError')
                root = node.func.value
                while isinstance(root, (ast.Attribute, ast.Subscript)):
                    root = root.value
                if isinstance(root, ast.Name) and root.id in st.aliased:
                    raise Unsupported(f'mutation of possibly aliased list {root.id}')
                last = list_get(base, base.length - 1)
                eng.assign(st, node.func.value, VList(base.length - 1, base.sort, base.arrs), None)
                return last
            raise Unsupported(f'list.{name}')
        if isinstance(base, VSlice) and name == 'indices' and len(args) == 1:
            n = eng.need_int(args[0], st, node).t
            a, b, c = slice_norm(base, n)
            if not st.spec:
                s = coerce(base, 'slice')
                eng.oblige(st, z3.Or(s.step.isnone, s.step.val.t != 0), f'no-ValueError-slice-step@L{node.lineno}', 'safety', node)
            return VTuple([VInt(a), VInt(b), VInt(c)])
        key = None
        if isinstance(base, VConst) and isinstance(base.py, tuple) and base.py[0] == 'class':
            key = f'{base.py[1]}.{name}'
        elif isinstance(base, VRec):
            key = f'{base.name}.{name}'
        if key is not None:
            key = eng.c.get('call_alias', {}).get(key, key)      # the caller names which proved contract of the callee it relies on
        local = eng.c.get('calls', {})
        src = ast.unparse(node.func)
        if src in local:      # a call model stated in the contract under verification takes precedence over registry contracts
            return self.apply_contract(src, node, eng, st, contract=local[src], args=args, recv=base if isinstance(base, VRec) else None)
        if key and key in self.reg:
            return self.apply_contract(key, node, eng, st, recv=base if isinstance(base, VRec) else None, args=args)
        if isinstance(base, VUnknown) or (isinstance(base, VConst) and isinstance(base.py, tuple)):
            return VUnknown(f'call of .{name}')
        raise Unsupported(f'method {name} on {base!r}')

    # ---- builtins ---------------------------------------------------------------------------
    def eval_args(self, node, eng, st):
        args = []
        for a in node.args:
            if isinstance(a, ast.Starred):
                v = eng.ev(a.value, st)
                if not isinstance(v, VTuple):
                    raise Unsupported('*args of a non-tuple')
                args.extend(v.items)
            else:
                args.append(eng.ev(a, st))
        return args

    def builtin(self, name, node, eng, st):
        args = self.eval_args(node, eng, st)
        kw = {k.arg: eng.ev(k.value, st) for k in node.keywords}
        if name == 'len' and len(args) == 1:
            a = args[0]
            if isinstance(a, VList):
                return VInt(a.length)
            if isinstance(a, VTuple):
                return VInt(len(a.items))
            if isinstance(a, VRange):
                return VInt(self.range_len(a))
            if isinstance(a, VSeq):
                return VInt(a.length)
            if isinstance(a, VRec) and 'labels' in a.fields:      # abstract index: len = number of labels
                return VInt(a.fields['labels'].length)
            if isinstance(a, VRec) and '_len' in a.fields:
                return a.fields['_len']
            if isinstance(a, VRec) and a.name == 'arr':
                if not st.spec:
                    eng.oblige(st, a.fields['ndim'].t >= 1, f'no-TypeError-len-0d@L{node.lineno}', 'safety', node)
                return a.fields['rows']
            v = self.len_model(a, eng, st)
            if v is not None:
                return v
            if isinstance(a, VU) and a.sort == 'elem':
                # an opaque object: its length is an uninterpreted non-negative function of the object
                from .sorts import ELEM
                ln = z3.Function('len_elem', ELEM, z3.IntSort())(a.t)
                st.pc.append(ln >= 0)
                return VInt(ln)
            if isinstance(a, VUnknown):
                return VUnknown('len(unknown)')
            raise Unsupported(f'len of {a!r}')
        if name == 'abs' and len(args) == 1:
            x = eng.need_int(args[0], st, node).t
            return VInt(z3.If(x >= 0, x, -x))
        if name in ('min', 'max') and len(args) >= 2:
            xs = [eng.need_int(a, st, node).t for a in args]
            r = xs[0]
            for x in xs[1:]:
                r = z3.If(x < r, x, r) if name == 'min' else z3.If(x > r, x, r)
            return VInt(r)
        if name == 'slice':
            if len(args) == 1:
                return VSlice(VNone(), args[0], VNone())
            if len(args) == 2:
                return VSlice(args[0], args[1], VNone())
            if len(args) == 3:
                return VSlice(*args)
        if name == 'range':
            xs = [eng.need_int(a, st, node).t for a in args]
            if len(xs) == 1:
                return VRange(z3.IntVal(0), xs[0], z3.IntVal(1))
            if len(xs) == 2:
                return VRange(xs[0], xs[1], z3.IntVal(1))
            return VRange(*xs)
        if name == 'isinstance' and len(args) == 2:
            return VBool(self.isinstance_model(args[0], args[1], eng, st))
        if name == 'enumerate':
            start = eng.need_int(args[1], st, node).t if len(args) > 1 else z3.IntVal(0)
            return VConst(('enumerate', args[0], start))
        if name == 'reversed' and len(args) == 1 and isinstance(args[0], (VList, VSeq, VTuple, VRange)):
            n_, g_ = eng.as_sequence(args[0], st)      # builtin: the same elements from the last to the first
            return VSeq(n_, lambda i, n_=n_, g_=g_: g_(n_ - 1 - i))
        if name == 'zip':
            return VConst(('zip', tuple(args)))
        if name == 'zip_longest':
            return VConst(('zip_longest', tuple(args), kw.get('fillvalue', VNone())))
        if name == 'chain':
            return VConst(('chain', tuple(args)))
        if name in ('int',) and len(args) == 1 and isinstance(args[0], (VInt, VBool)):
            return eng.need_int(args[0], st, node)
        if name == 'bool' and len(args) == 1:
            return VBool(eng.truth(args[0], st))
        if name == 'iter' and len(args) == 1 and isinstance(args[0], VConst) and isinstance(args[0].py, tuple) and args[0].py[0] == 'genresult':
            n_, g_ = eng.as_sequence(args[0].py[1], st)      # a contracted generator: iterating it walks the list of its yields
            return VConst(('iterator', n_, g_, z3.IntVal(0)))
        if name == 'iter' and len(args) == 1 and isinstance(args[0], (VList, VSeq, VTuple)):
            n_, g_ = eng.as_sequence(args[0], st)
            return VConst(('iterator', n_, g_, z3.IntVal(0)))      # one-shot iterator: (length, getter, cursor)
        if name == 'next' and len(args) >= 1 and isinstance(args[0], VConst) and isinstance(args[0].py, tuple) and args[0].py[0] == 'iterator' \
                and isinstance(node.args[0], ast.Name):
            _, n_, g_, pos = args[0].py
            fkey = ('next', node.lineno, node.col_offset)
            d = eng.decide(st, pos >= n_, fkey)
            if d is None:
                raise ForkReq(pos >= n_, fkey)
            if d is True:
                if len(args) > 1:
                    return args[1]
                raise RaiseReq('StopIteration')
            st.env[node.args[0].id] = VConst(('iterator', n_, g_, pos + 1))
            return g_(pos)
        if name in ('list', 'tuple') and len(args) == 1 and isinstance(args[0], VConst) and isinstance(args[0].py, tuple) and args[0].py[0] == 'genresult':
            return args[0].py[1]      # draining a contracted generator gives the list of its yields
        if name in ('list', 'tuple') and len(args) == 1 and isinstance(args[0], VList):
            return args[0]      # value semantics: a copy is indistinguishable (no aliasing in the model)
        if name == 'list' and len(args) == 1 and isinstance(args[0], VTuple):
            return list_literal(list(args[0].items))
        if name == 'list' and not args:
            return VList(0, None, [])
        if name == 'tuple' and len(args) == 1 and isinstance(args[0], VTuple):
            return args[0]
        if name == 'getattr' and len(args) >= 2 and isinstance(args[1], VConst) and isinstance(args[1].py, str):
            fake = ast.Attribute(value=node.args[0], attr=args[1].py, ctx=ast.Load())
            ast.copy_location(fake, node)
            ast.fix_missing_locations(fake)
            return eng.ev(fake, st)
        if name == 'hasattr':
            if args and isinstance(args[0], VU):      # opaque object: may or may not have the attribute (both explored, no taint)
                return VBool(z3.Bool(f'hasattr@L{node.lineno}c{node.col_offset}'))
            if args and isinstance(args[0], VRec) and len(args) == 2 and isinstance(args[1], VConst):
                known = eng.c.get('rec_attrs', {}).get(args[0].name)
                if known is not None:
                    return VBool(args[1].py in known or args[1].py in args[0].fields)
            return VUnknown('hasattr')
        if name == 'id' and len(args) == 1 and isinstance(args[0], VRec) and 'cid' in args[0].fields:
            return args[0].fields['cid']        # ghost object identity
        return VUnknown(f'builtin {name}')

    def range_len(self, r):
        c = z3.simplify(r.step)
        if z3.is_int_value(c) and c.as_long() == 1:
            return z3.If(r.stop > r.start, r.stop - r.start, 0)
        raise Unsupported('len of stepped range')

    def len_model(self, a, eng, st):
        return None

    def isinstance_model(self, v, typ, eng, st):
        names = set()

        def collect(t):
            if isinstance(t, VTuple):
                for i in t.items:
                    collect(i)
            elif isinstance(t, VConst) and isinstance(t.py, tuple):
                if t.py[0] in ('class', 'builtin', 'function'):
                    names.add(t.py[1])
                elif t.py[0] == 'attr':
                    names.add(t.py[2])
                else:
                    names.add('?')
            else:
                names.add('?')
        collect(typ)
        if isinstance(v, VUnknown) or '?' in names:
            st.tainted = True
            return z3.Bool(fresh_name('unk'))

        def static(val):
            if isinstance(val, VBool):
                return z3.BoolVal(bool(names & {'bool', 'int', 'bool_', 'integer', 'object'}))
            if isinstance(val, VInt):
                return z3.BoolVal(bool(names & {'int', 'integer', 'object'}))
            if isinstance(val, VSlice):
                return z3.BoolVal('slice' in names)
            if isinstance(val, VTuple):
                return z3.BoolVal('tuple' in names)
            if isinstance(val, VList):
                return z3.BoolVal(bool(names & {'list'}))
            if isinstance(val, VNone):
                return z3.BoolVal(False)
            if isinstance(val, VOpt):
                return z3.And(z3.Not(val.isnone), static(val.val))
            if isinstance(val, VRec):
                return z3.BoolVal(val.name in names or bool(names & set(eng.c.get('rec_classes', {}).get(val.name, ()))))
            if isinstance(val, VConst) and isinstance(val.py, str):
                return z3.BoolVal('str' in names)
            if isinstance(val, VU):       # opaque element / label: an instance of none of the modelled classes
                return z3.BoolVal('object' in names)
            raise Unsupported(f'isinstance of {val!r}')
        return static(v)

    # ---- contracts at call sites ----------------------------------------------------------------
    def apply_contract(self, key, node, eng, st, recv=None, contract=None, args=None):
        c = contract if contract is not None else self.reg[key]
        if contract is not None:
            eng.assumed_used.add(f'{key} (local call model in the contract of {eng.qualname}: assumed)')
        elif c.get('assumed'):
            eng.assumed_used.add(f'{key} (assumed contract on {c.get("relpath")}:{c.get("qualname")}' + (f'; {c["backed_by"]}' if c.get('backed_by') else '') + ')')
        else:
            eng.callee_used.add(key)
            if c.get('partly_assumed'):      # a proved contract whose proof does not cover every argument form that call sites may pass
                eng.assumed_used.add(f'{key} ({c["partly_assumed"]})')
        order = list(c.get('order') or c.get('params', {}).keys())
        if args is None:
            args = [eng.ev(a, st) for a in node.args]
        kw = {k.arg: eng.ev(k.value, st) for k in node.keywords if k.arg}
        bind = {}
        names = [n for n in order if n not in ('self', 'cls')]
        if len(args) > len(names):
            raise Unsupported(f'{key}: too many positional arguments')
        for n, a in zip(names, args):
            bind[n] = a
        bind.update(kw)
        for n in names:
            if n not in bind:
                d = c.get('defaults', {}).get(n)
                if d is None:
                    raise Unsupported(f'{key}: argument {n} missing and no default known')
                bind[n] = eng.spec_value(d, State())
        psorts = {k: parse_sort(v) for k, v in c.get('params', {}).items()}
        loose_failed = False
        for n in names:
            if n in psorts and isinstance(bind[n], VSeq) and isinstance(psorts[n], tuple) and psorts[n][0] == 'list':
                # materialise a lazily described sequence as a list: fresh list + point-wise axiom
                seq = bind[n]
                lst = fresh_value(psorts[n], 'mat')
                k = z3.Int(fresh_name('k'))
                el = leaves(seq.get(k), psorts[n][1])
                tl = leaves(list_get(lst, k), psorts[n][1])
                st.define(z3.And(lst.length == seq.length,
                                 z3.ForAll([k], z3.Implies(z3.And(0 <= k, k < lst.length), z3.And(*[a == b for a, b in zip(tl, el)])))))
                bind[n] = lst
        for n in names:
            if n in psorts:
                try:
                    bind[n] = eng.narrow(bind[n], psorts[n], st, node, what=n) if not st.spec else coerce(bind[n], psorts[n])
                except Unsupported:
                    if not c.get('loose'):
                        raise
                    loose_failed = True      # argument of another type: the result is unconstrained (sound over-approximation)
        if loose_failed:
            rs0 = c.get('result')
            return fresh_value(parse_sort(rs0), 'loose') if rs0 and rs0 != 'none' else VUnknown(f'{key}: ill-typed argument')
        if recv is not None:
            bind['recv_' if contract is not None else 'self'] = recv      # a local call model sees the object the method was called on as `recv_`
        gh = eng.c.get('call_ghosts', {}).get(key, {})
        for gname, gsort in c.get('ghost_params', {}).items():
            if gname in gh:
                bind[gname] = coerce(eng.spec_value(gh[gname], st), parse_sort(gsort))
            else:
                bind[gname] = fresh_value(parse_sort(gsort), gname)     # unconstrained: requires must hold for it
        env = dict(bind)
        if contract is not None:      # local call model of the function under verification: it may mention the caller's variables
            env = dict(st.env)
            env.update(bind)
        for gname in c.get('ghost_results', []):       # callee ghosts visible to the caller (e.g. proof witnesses)
            gv = VInt(z3.Int(fresh_name(gname)))
            env[gname] = gv
            if not st.spec:
                st.env.setdefault(gname, gv)
        sub = State()
        sub.env, sub.pc, sub.spec, sub.old = env, st.pc, True, env
        ln = node.lineno

        def sb(text, mode):
            sub.defs = []
            t = eng.truth(eng.ev(ast.parse(text, mode='eval').body, sub), sub)
            if sub.defs:
                d = z3.And(*sub.defs)
                t = z3.Implies(d, t) if mode == 'goal' else z3.And(d, t)
            return t
        if not st.spec:
            for k, r in enumerate(c.get('requires', [])):
                eng.oblige(st, sb(r, 'goal'), f'pre[{k}]:{key}@L{ln}', 'pre', node, note=r)
        for exc, cond in c.get('raises', {}).items():
            if cond is True:
                continue       # may raise in states the contract does not characterise: declared only
            if cond == 'maybe' or (isinstance(cond, tuple) and cond[0] == 'maybe'):
                # may raise non-deterministically (only when the optional condition holds): both continuations explored
                nb = z3.Bool(f'raises_{exc}@L{node.lineno}c{node.col_offset}')
                if isinstance(cond, tuple):
                    sub.defs = []
                    nb = z3.And(nb, eng.truth(eng.ev(ast.parse(cond[1], mode='eval').body, sub), sub))
                fkey = ('raise', node.lineno, node.col_offset, exc)
                d = eng.decide(st, nb, fkey)
                if d is None:
                    raise ForkReq(nb, fkey)
                if d is True:
                    self._raise_with_state(c, exc, recv, env, node, eng, st, sb, sub)
                continue
            sub.defs = []
            t = eng.truth(eng.ev(ast.parse(cond, mode='eval').body, sub), sub)
            for dfn in sub.defs:
                st.pc.append(dfn)
            fkey = ('raise', node.lineno, node.col_offset, exc)
            d = eng.decide(st, t, fkey)
            if d is None:
                raise ForkReq(t, fkey)
            if d is True:
                self._raise_with_state(c, exc, recv, env, node, eng, st, sb, sub)
        if c.get('result_expr'):       # definitional contract: the result IS this term (no fresh symbol; usable inside lazy sequences)
            sub.defs = []
            v = eng.ev(ast.parse(c['result_expr'], mode='eval').body, sub)
            for dfn in sub.defs:
                st.define(dfn)
            return coerce(v, parse_sort(c['result'])) if c.get('result') else v
        if c.get('is_generator'):
            ys = fresh_value(('list', parse_sort(c['yield_sort'])), 'ys')
            st.pc.append(ys.length >= 0)
            sub.env['result'] = ys
            for e in c.get('ensures', []):
                st.pc.append(sb(e, 'assume'))
            return VConst(('genresult', ys))
        if c.get('modifies_self') and recv is not None and not st.spec:
            # frame condition: the receiver is replaced by a fresh value constrained only by the callee's postcondition
            new_self = fresh_value(infer_sort(recv), 'self')
            from .npmodel import wellformed_facts
            st.pc.extend(wellformed_facts(new_self))
            sub.old = dict(env)
            sub.env = dict(env)
            sub.env['self'] = new_self
            eng.assign(st, node.func.value, new_self, None)
        rs = c.get('result')
        if rs is None:
            res = VUnknown(f'result of {key} (contract declares no result sort)')
        elif rs == 'none':
            res = VNone()
        else:
            res = fresh_value(parse_sort(rs), 'res')
            if isinstance(res, VList):
                st.pc.append(res.length >= 0)
        sub.env['result'] = res
        was_feasible = (not st.spec) and eng.feasible(st)
        for e in c.get('ensures', []):
            st.pc.append(sb(e, 'assume'))
        if was_feasible and not eng.feasible(st):
            # vacuity guard: assuming the callee's postcondition made a reachable state unreachable -- the callee contract contradicts the state
            # it is applied to (typically a mutating callee whose contract lacks modifies_self): everything after the call would be proved vacuously
            raise SpecError(f'contract {key} applied at L{getattr(node, "lineno", 0)} of {eng.qualname} contradicts the caller state (missing modifies_self / wrong frame?)')
        # frame: receiver fields listed in `modifies` are havocked then constrained by ensures_self
        return res

    def _raise_with_state(self, c, exc, recv, env, node, eng, st, sb, sub):
        """the callee raises; if its contract says it may have modified the receiver before raising
        (raise_modifies_self + callee_raise_ensures), the receiver is havocked under that exceptional postcondition"""
        if c.get('raise_modifies_self') and recv is not None and not st.spec:
            new_self = fresh_value(infer_sort(recv), 'self')
            from .npmodel import wellformed_facts
            st.pc.extend(wellformed_facts(new_self))
            sub.old = dict(env)
            sub.env = dict(env)
            sub.env['self'] = new_self
            for e in c.get('callee_raise_ensures', []):
                st.pc.append(sb(e, 'assume'))
            eng.assign(st, node.func.value, new_self, None)
        raise RaiseReq(exc)

    # ---- spec functions (symbolic side) ------------------------------------------------------------
    def specfn(self, name, node, eng, st):
        a = node.args
        if name in ('true',):
            return VBool(True)
        if name in ('false',):
            return VBool(False)
        if name == 'implies':
            p = eng.ev_cond(a[0], st)
            tok = eng.push_guard(st, p)
            try:
                q = eng.ev_cond(a[1], st)
            finally:
                eng.pop_guards(st, [tok])
            return VBool(z3.Implies(p, q))
        if name == 'iff':
            return VBool(eng.ev_cond(a[0], st) == eng.ev_cond(a[1], st))
        if name == 'cond':
            c = eng.ev_cond(a[0], st)
            return ite(c, eng.ev(a[1], st), eng.ev(a[2], st))
        if name in ('forall', 'exists'):
            lam = a[0]
            if not isinstance(lam, ast.Lambda):
                raise SpecError('forall/exists need a lambda')
            names = [x.arg for x in lam.args.args]
            vs = [z3.Int(fresh_name(n)) for n in names]
            saved = dict(st.env)
            st.env.update({n: VInt(v) for n, v in zip(names, vs)})
            try:
                body = eng.ev_cond(lam.body, st)
            finally:
                st.env = saved
            return VBool(z3.ForAll(vs, body) if name == 'forall' else z3.Exists(vs, body))
        if name == 'forall_elem':      # quantification over the opaque element sort (identities of unmodelled objects)
            from .sorts import ELEM
            lam = a[0]
            if not isinstance(lam, ast.Lambda):
                raise SpecError('forall_elem needs a lambda')
            names = [x.arg for x in lam.args.args]
            vs = [z3.Const(fresh_name(n), ELEM) for n in names]
            saved = dict(st.env)
            st.env.update({n: VU(v, 'elem') for n, v in zip(names, vs)})
            try:
                body = eng.ev_cond(lam.body, st)
            finally:
                st.env = saved
            return VBool(z3.ForAll(vs, body))
        if name in ('forall_in', 'exists_in'):
            lo = eng.need_int(eng.ev(a[0], st), st, node).t
            hi = eng.need_int(eng.ev(a[1], st), st, node).t
            lam = a[2]
            names = [x.arg for x in lam.args.args]
            v = z3.Int(fresh_name(names[0]))
            saved = dict(st.env)
            st.env[names[0]] = VInt(v)
            rng = z3.And(lo <= v, v < hi)
            tok = eng.push_guard(st, rng)
            try:
                body = eng.ev_cond(lam.body, st)
            finally:
                del st.pc[tok[0]:]        # inside a binder: facts mentioning the bound variable must not escape
                st.env = saved
            if name == 'forall_in':
                return VBool(z3.ForAll([v], z3.Implies(rng, body)))
            return VBool(z3.Exists([v], z3.And(rng, body)))
        if name == 'old':
            s2 = st.clone()
            s2.env = dict(st.old or {})
            s2.env.update({k: v for k, v in st.env.items() if k not in s2.env})
            return eng.ev(a[0], s2)
        vals = [eng.ev(x, st) for x in a]
        if name == 'is_none':
            return VBool(eng.identical(vals[0], VNone(), st))
        if name in ('it_pos', 'it_len', 'it_at'):      # ghost view of a one-shot iterator: cursor, length, element
            itv = vals[0]
            if not (isinstance(itv, VConst) and isinstance(itv.py, tuple) and itv.py[0] == 'iterator'):
                raise SpecError(f'{name}() of a non-iterator')
            _, n_, g_, pos = itv.py
            if name == 'it_pos':
                return VInt(pos)
            if name == 'it_len':
                return VInt(n_)
            return g_(eng.need_int(vals[1], st, node).t)
        if name in ('ufi', 'ube'):      # uninterpreted functions from opaque elements to Int / Bool
            from .sorts import ELEM
            _i2e = z3.Function('int2elem', z3.IntSort(), ELEM)      # integer arguments (positions) enter as elements, as in ufe
            xs = [_i2e(v.t) if isinstance(v, VInt) else coerce(v.val if isinstance(v, VOpt) else v, 'elem').t for v in vals[1:]]
            rng = z3.IntSort() if name == 'ufi' else z3.BoolSort()
            f = z3.Function(name + '_' + vals[0].py, *([ELEM] * len(xs) + [rng]))
            return VInt(f(*xs)) if name == 'ufi' else VBool(f(*xs))
        if name == 'ufe':       # ufe('name', e1, e2, ...): uninterpreted function over opaque elements, returning an element
            from .sorts import ELEM
            fname = vals[0].py
            int2elem = z3.Function('int2elem', z3.IntSort(), ELEM)
            def _arg(v):
                if isinstance(v, VInt):
                    return int2elem(v.t)
                if isinstance(v, VBool):
                    return int2elem(z3.If(v.t, 1, 0))
                if isinstance(v, VConst) and isinstance(v.py, str):
                    return z3.Const('strconst_' + v.py, ELEM)      # distinct names are NOT assumed distinct values (sound: only equalities of the same literal are used)
                if isinstance(v, VNone):
                    return z3.Const('none_elem', ELEM)
                if isinstance(v, VOpt):       # an optional element: None is the element constant none_elem (not assumed different from other elements)
                    return z3.If(v.isnone, z3.Const('none_elem', ELEM), coerce(v.val, 'elem').t)
                return coerce(v, 'elem').t
            xs = [_arg(v) for v in vals[1:]]
            f = z3.Function('ufe_' + fname, *([ELEM] * (len(xs) + 1)))
            return VU(f(*xs), 'elem')
        if name == 'ub':        # ub('name', i, j, ...): uninterpreted Boolean function of integers (cell predicates)
            fname = vals[0].py
            xs = [eng.need_int(v, st, node).t for v in vals[1:]]
            f = z3.Function('ub_' + fname, *([z3.IntSort()] * len(xs) + [z3.BoolSort()]))
            return VBool(f(*xs))
        if name == 'length':
            if isinstance(vals[0], VList):
                return VInt(vals[0].length)
            if isinstance(vals[0], VTuple):
                return VInt(len(vals[0].items))
            raise SpecError('length() of non-list')
        if name == 'at':
            lst = vals[0]
            i = eng.need_int(vals[1], st, node).t
            if isinstance(lst, VList):
                return list_get(lst, i)
            if isinstance(lst, VSeq):      # a lazily described sequence (comprehension result): its i-th element by definition
                return lst.get(i)
            raise SpecError('at() of non-list')
        if name in ('s_start', 's_stop'):
            n = eng.need_int(vals[1], st, node).t
            s0, s1, _ = slice_norm(vals[0], n)
            return VInt(s0 if name == 's_start' else s1)
        if name == 's_step':
            s = coerce(vals[0], 'slice')
            return VInt(z3.If(s.step.isnone, 1, s.step.val.t))
        if name == 'nth':
            # nth(s, n, k, i): i is the k-th element of range(*s.indices(n))
            n = eng.need_int(vals[1], st, node).t
            k = eng.need_int(vals[2], st, node).t
            i = eng.need_int(vals[3], st, node).t
            s0, s1, sp = slice_norm(vals[0], n)
            return VBool(z3.And(k >= 0, i == s0 + k * sp, z3.If(sp > 0, i < s1, i > s1)))
        if name == 'in_slice':
            i = eng.need_int(vals[0], st, node).t
            n = eng.need_int(vals[2], st, node).t
            s0, s1, sp = slice_norm(vals[1], n)
            k = z3.Int(fresh_name('k'))
            return VBool(z3.Exists([k], z3.And(k >= 0, i == s0 + k * sp, z3.If(sp > 0, i < s1, i > s1))))
        if name == 'R_len':
            # length of range(*s.indices(n)) characterised without division via a fresh integer
            n = eng.need_int(vals[1], st, node).t
            s0, s1, sp = slice_norm(vals[0], n)
            L = z3.Int(fresh_name('rlen'))
            st.define(z3.And(L >= 0, z3.If(sp > 0,
                         z3.If(s0 >= s1, L == 0, z3.And(s0 + (L - 1) * sp < s1, s0 + L * sp >= s1, L > 0)),
                         z3.If(s0 <= s1, L == 0, z3.And(s0 + (L - 1) * sp > s1, s0 + L * sp <= s1, L > 0)))))
            return VInt(L)
        raise SpecError(f'spec function {name} not implemented')
