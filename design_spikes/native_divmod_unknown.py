# Spike: VC for slice_to_ascending_slice, nonlinear step; z3 python API
import z3, time
I = z3.Int
def floordiv(a,b):  # python floor division for b>0 only here
    return a / b   # z3 Int div is floor for positive divisor (Euclidean)
size, start, stop, step = z3.Ints('size start stop step')
start_none, stop_none = z3.Bools('start_none stop_none')
s = z3.Solver()
s.set('timeout', 60000)
# pre: size>=0, step<=-2 (the nonlinear branch), start None or 0<=start (as given), stop None or stop>=-1?? keep general ints
s.add(size >= 0, step <= -2)
astep = -step
# CPython slice.indices for negative step: 
def adj_start(n, v, none):
    # step<0: default n-1; if v<0: v+=n; if v<0: v=-1; elif v>=n: v=n-1
    v1 = z3.If(v < 0, v + n, v)
    v2 = z3.If(v1 < 0, z3.IntVal(-1), z3.If(v1 >= n, n - 1, v1))
    return z3.If(none, n - 1, v2)
def adj_stop(n, v, none):
    v1 = z3.If(v < 0, v + n, v)
    v2 = z3.If(v1 < 0, z3.IntVal(-1), z3.If(v1 >= n, n - 1, v1))
    return z3.If(none, z3.IntVal(-1), v2)
o_start = adj_start(size, start, start_none)
o_stop = adj_stop(size, stop, stop_none)
# membership of i in original range(o_start, o_stop, step): o_stop < i <= o_start and (o_start - i) % astep == 0
i = z3.Int('i')
in_orig = z3.And(i <= o_start, i > o_stop, (o_start - i) % astep == 0)
# code under test (precondition: start None or start>=0; stop None or stop>=0 ?)
s.add(z3.Or(start_none, start >= 0), z3.Or(stop_none, stop >= 0))
r_stop_none = start_none
r_stop = start + 1
st0 = z3.If(start_none, size - 1, z3.If(size - 1 < start, size - 1, start))
r_start = z3.If(stop_none, st0 - astep * (st0 / astep), st0 - astep * ((st0 - stop - 1) / astep))
# adjust result for positive step
def adjp_start(n, v):
    v1 = z3.If(v < 0, v + n, v)
    return z3.If(v1 < 0, z3.IntVal(0), z3.If(v1 > n, n, v1))
def adjp_stop(n, v, none):
    v1 = z3.If(v < 0, v + n, v)
    v2 = z3.If(v1 < 0, z3.IntVal(0), z3.If(v1 > n, n, v1))
    return z3.If(none, n, v2)
n_start = adjp_start(size, r_start)
n_stop = adjp_stop(size, r_stop, r_stop_none)
in_new = z3.And(i >= n_start, i < n_stop, (i - n_start) % astep == 0)
s.add(in_orig != in_new)
t=time.time(); r = s.check(); print(r, time.time()-t)
if r == z3.sat: print(s.model())
