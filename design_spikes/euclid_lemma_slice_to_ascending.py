import z3, time, sys
size, start, stop, a, q, i, k1, k2 = z3.Ints('size start stop a q i k1 k2')
start_none, stop_none = z3.Bools('start_none stop_none')
def mk():
    s = z3.Solver(); s.set('timeout', 60000)
    s.add(size >= 0, a >= 2)
    s.add(z3.Or(start_none, start >= 0), z3.Or(stop_none, stop >= 0))
    return s
o_start = z3.If(start_none, size-1, z3.If(start >= size, size-1, start))
o_stop = z3.If(stop_none, z3.IntVal(-1), z3.If(stop >= size, size-1, stop))
st0 = z3.If(start_none, size - 1, z3.If(size - 1 < start, size - 1, start))
x = z3.If(stop_none, st0, st0 - stop - 1)
r_start = st0 - a*q
r_stop = start + 1
def clip(n, v):
    v1 = z3.If(v < 0, v + n, v)
    return z3.If(v1 < 0, z3.IntVal(0), z3.If(v1 > n, n, v1))
n_start = clip(size, r_start)
n_stop = z3.If(start_none, size, clip(size, r_stop))
divax = z3.And(a*q <= x, x < a*q + a)
# direction A: orig -> new with hint k2 = q - k1
s = mk(); s.add(divax)
s.add(o_start - i == a*k1, k1 >= 0, i > o_stop, i <= o_start)
s.add(z3.Not(z3.And(i - n_start == a*(q-k1), q-k1 >= 0, n_start <= i, i < n_stop)))
t=time.time(); print('A', s.check(), time.time()-t)
# direction B: new -> orig with hint k1 = q - k2
s = mk(); s.add(divax)
s.add(i - n_start == a*k2, k2 >= 0, n_start <= i, i < n_stop)
s.add(z3.Not(z3.And(o_start - i == a*(q-k2), q-k2 >= 0, i > o_stop, i <= o_start)))
t=time.time(); r=s.check(); print('B', r, time.time()-t)
if r==z3.sat: print(s.model())
