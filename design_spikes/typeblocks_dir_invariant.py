import z3, time
Int, Bool = z3.IntSort(), z3.BoolSort()
Ref = z3.DeclareSort('Ref')
ndim = z3.Function('ndim', Ref, Int); rows = z3.Function('rows', Ref, Int); colsf = z3.Function('cols', Ref, Int)
wr = z3.Function('writeable', Ref, Bool); dt = z3.Function('dtype', Ref, Int)
def width(r): return z3.If(ndim(r)==1, 1, colsf(r))
blocks = z3.Array('blocks', Int, Ref); nb = z3.Int('nb')
idx_b = z3.Array('idx_b', Int, Int); idx_c = z3.Array('idx_c', Int, Int); dts = z3.Array('dts', Int, Int); ni = z3.Int('ni')
off = z3.Array('off', Int, Int)
row_count = z3.Int('row_count'); rc_none = z3.Bool('rc_none')
k, i, j = z3.Ints('k i j')
def conj(blocks, nb, idx_b, idx_c, dts, ni, off, row_count, rc_none, K=None, I=None):
    """return list of (name, formula builder) ; if K/I given, instantiate quantifiers at them (skolem)"""
    out = [('nb>=0', nb >= 0), ('off0', off[0]==0), ('offn', off[nb]==ni)]
    body1 = lambda k: z3.Implies(z3.And(0 <= k, k < nb), z3.And(z3.Not(wr(blocks[k])), width(blocks[k]) >= 1,
              off[k+1] == off[k] + width(blocks[k]), z3.Not(rc_none), rows(blocks[k]) == row_count))
    body2 = lambda k,i: z3.Implies(z3.And(0 <= k, k < nb, 0 <= i, i < width(blocks[k])), z3.And(
              idx_b[off[k]+i] == k, idx_c[off[k]+i] == i, dts[off[k]+i] == dt(blocks[k])))
    if K is None:
        out += [('blk', z3.ForAll([k], body1(k))), ('dir', z3.ForAll([k,i], body2(k,i)))]
    else:
        out += [('blk', body1(K)), ('dir', body2(K,I))]
    return out
hyp = [f for _, f in conj(blocks, nb, idx_b, idx_c, dts, ni, off, row_count, rc_none)]
b = z3.Const('b', Ref); fb = z3.Const('fb', Ref)
pre = [z3.Or(ndim(b)==1, ndim(b)==2), rows(b) >= 0, colsf(b) >= 0, z3.Or(rc_none, rows(b) == row_count), width(b) != 0,
       z3.Not(wr(fb)), ndim(fb)==ndim(b), rows(fb)==rows(b), colsf(fb)==colsf(b), dt(fb)==dt(b)]
c = width(b)
blocks2 = z3.Store(blocks, nb, fb); nb2 = nb + 1
idx_b2 = z3.Array('idx_b2', Int, Int); idx_c2 = z3.Array('idx_c2', Int, Int); dts2 = z3.Array('dts2', Int, Int)
pre += [z3.ForAll([j], z3.Implies(z3.And(0<=j, j<ni), z3.And(idx_b2[j]==idx_b[j], idx_c2[j]==idx_c[j], dts2[j]==dts[j]))),
        z3.ForAll([j], z3.Implies(z3.And(0<=j, j<c), z3.And(idx_b2[ni+j]==nb, idx_c2[ni+j]==j, dts2[ni+j]==dt(b))))]
ni2 = ni + c; off2 = z3.Store(off, nb+1, ni + c)
# extra derived invariant to help: offsets monotone & bounded: forall k<nb: 0<=off[k] and off[k+1] <= ni  (lemma conj)
mono = z3.ForAll([k], z3.Implies(z3.And(0<=k, k<nb), z3.And(0 <= off[k], off[k+1] <= ni)))
K0, I0 = z3.Ints('K0 I0')
goals = conj(blocks2, nb2, idx_b2, idx_c2, dts2, ni2, off2, rows(b), z3.BoolVal(False), K0, I0)
mono_goal = z3.Implies(z3.And(0<=K0, K0<nb2), z3.And(0 <= off2[K0], off2[K0+1] <= ni2))
goals.append(('mono', mono_goal))
tot=0
for name, g in goals:
    s = z3.Solver(); s.set('timeout', 20000)
    s.add(*hyp); s.add(mono); s.add(*pre); s.add(z3.Not(g))
    t=time.time(); r=s.check(); d=time.time()-t; tot+=d
    print(name, r, round(d,3))
print('total', round(tot,2))
