import typing as tp
import deal
from static_frame.core import util as U
_real = U.slice_to_ascending_slice

@deal.pre(lambda start, stop, step, size: 0 <= size <= 12 and step < 0 and step >= -5
          and (start is None or -14 <= start <= 14) and (stop is None or -14 <= stop <= 14))
@deal.ensure(lambda start, stop, step, size, result: sorted(range(*slice(start, stop, step).indices(size)))
             == list(range(*result.indices(size))))
def ascending(start: tp.Optional[int], stop: tp.Optional[int], step: int, size: int) -> slice:
    return _real(slice(start, stop, step), size)
