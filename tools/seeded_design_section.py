#!/usr/bin/env python3
"""prints the markdown of DESIGN.md section 8.1 from seeded/*/*/{meta,verified,check_result}.json and seeded/FIRST_RUN.json"""
import glob, json, os, re
HERE = os.path.dirname(os.path.dirname(os.path.abspath(__file__)))
_FR = json.load(open(os.path.join(HERE, 'seeded', 'FIRST_RUN.json')))
FIRST = dict(_FR['missed'], **_FR.get('batch2_missed', {}))
FIRST.update(_FR.get('batch3_missed', {}))
FIRST.update(_FR.get('batch4_missed', {}))
FIRST.update(_FR.get('batch5_missed', {}))
_MISSED_ALL = set(_FR.get('batch2_first_run', {}).get('missed', [])) | set(_FR.get('batch3_first_run', {}).get('missed', [])) | set(_FR.get('batch4_first_run', {}).get('missed', [])) | set(_FR.get('batch5_first_run', {}).get('missed', [])) | set(_FR['missed'])
rows = []
for d in sorted(glob.glob(os.path.join(HERE, 'seeded', 'C*', '*'))):
    if not os.path.isdir(d):
        continue
    j = lambda n: json.load(open(os.path.join(d, n))) if os.path.exists(os.path.join(d, n)) else {}
    meta, ver, chk = j('meta.json'), j('verified.json'), j('check_result.json')
    if not meta:
        continue
    cid = os.path.relpath(d, os.path.join(HERE, 'seeded'))
    pid = meta.get('property')
    res = chk.get(pid, {})
    kinds = {'D': [], 'G': [], 'B': []}
    for l in res.get('lines', []):
        if l.startswith('VIOLATION'):
            r = os.path.basename(l.split('replay=')[1].split()[0]).replace('.json', '')
            k = 'D' if r.startswith('D_') else 'G' if r.startswith('G_') else 'B'
            kinds[k].append(r[2:] if k != 'B' else r)
    by = []
    if kinds['D']:
        by.append('**D** ' + kinds['D'][0].replace('_', ' ')[:70])
    if kinds['G']:
        by.append('**G** ' + kinds['G'][0].replace('_', ' ')[:70])
    if kinds['B']:
        by.append('B ' + kinds['B'][0][:60] + (f' (+{len(kinds["B"]) - 1})' if len(kinds['B']) > 1 else ''))
    what = re.sub(r'\s+', ' ', meta.get('summary', ''))[:150]
    suite = ver.get('suite', '')
    m = re.search(r'regressed (\d+)', suite)
    rows.append((cid, what, 'reported' if res.get('exit') == 1 else 'NOT reported', '; '.join(by), ('missed → ' + FIRST[cid]) if cid in FIRST else ('missed (no strengthening yet)' if cid in _MISSED_ALL else 'caught'),
                 ('suite ok' if m and m.group(1) == '0' else ('suite: ' + suite[:40] if suite and suite != 'skipped' else 'suite run by the author only'))))
def _batch(cid):
    k = cid.split('/')[1]
    return 5 if k == '8' else 4 if k == '7' else 3 if k == '6' else 2 if k in ('4', '5') else 1
for bno in (1, 2, 3, 4, 5):
    sub = [r for r in rows if _batch(r[0]) == bno]
    print(f'Batch {bno}: {len(sub)} changes, {sum(1 for r in sub if r[4] == "caught")} reported by the first run, {sum(1 for r in sub if r[4] != "caught")} missed at first; '
          f'{sum(1 for r in sub if r[2] == "reported")} reported today.\n')
print(f'{len(rows)} changes were kept (demo passes on the clean tree and fails with the change: re-confirmed here in a scratch worktree for every one; stable suite re-run here '
      f'for {sum(1 for r in rows if r[5] == "suite ok")} of them, for the rest the author\'s own `regressed 0` run is recorded in `meta.json`). '
      f'{sum(1 for r in rows if r[2] == "reported")} are reported by the quick check of their property today; {sum(1 for r in rows if r[4] != "caught")} were missed by the first run.\n')
print('| change | what it does | reported by (first obligation / site / stand-in key) | first run | suite |')
print('|---|---|---|---|---|')
for r in rows:
    print(f'| {r[0]} | {r[1]} | {r[3] or r[2]} | {r[4]} | {r[5]} |')
