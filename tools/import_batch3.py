#!/usr/bin/env python3
"""usage: import_batch3.py [3|4|5]  -- imports finished batch-3 (batch-4) seeded changes from /tmp/wt3_Cxx (/tmp/wt4_Cxx)/_seeded/1 into seeded/Cxx/6 (/7), confirms the demo in a scratch worktree,
runs the FIRST check against it and records the first-run result in seeded/FIRST_RUN.json (batch3_first_run)"""
import json, os, shutil, subprocess, sys
HERE = os.path.dirname(os.path.dirname(os.path.abspath(__file__)))
FR = os.path.join(HERE, 'seeded', 'FIRST_RUN.json')
d = json.load(open(FR))
BATCH = int(sys.argv[1]) if len(sys.argv) > 1 else 3
SLOT = {3: '6', 4: '7', 5: '8'}[BATCH]
b3 = d.setdefault(f'batch{BATCH}_first_run', dict(caught=[], missed=[], rejected=[]))
for i in range(1, 21):
    pid = f'C{i:02d}'
    src = f'/tmp/wt{BATCH}_{pid}/_seeded/1'
    dst = os.path.join(HERE, 'seeded', pid, SLOT)
    cid = f'{pid}/{SLOT}'
    if cid in b3['caught'] + b3['missed'] + b3['rejected'] or not os.path.exists(os.path.join(src, 'meta.json')):
        continue
    try:
        meta = json.load(open(os.path.join(src, 'meta.json')))
    except Exception:
        continue
    if 'regressed 0' not in str(meta.get('stable_suite', '')) or not os.path.exists(os.path.join(src, 'patch.diff')):
        continue          # not final yet
    os.makedirs(dst, exist_ok=True)
    for f in ('patch.diff', 'demo.py', 'meta.json'):
        shutil.copy(os.path.join(src, f), os.path.join(dst, f))
    v = subprocess.run([os.path.join(HERE, 'tools', 'seeded_verify.sh'), dst], capture_output=True, text=True).stdout
    ver = json.load(open(os.path.join(dst, 'verified.json')))
    if not (ver['clean_exit'] == 0 and ver['mutant_exit'] != 0 and ver['apply'] == 'ok'):
        b3['rejected'].append(cid)
        print(cid, 'REJECTED', ver)
        continue
    subprocess.run([os.path.join(HERE, '.venv/bin/python'), os.path.join(HERE, 'tools', 'seeded_check.py'), dst], capture_output=True, text=True)
    res = json.load(open(os.path.join(dst, 'check_result.json')))
    caught = res.get(pid, {}).get('exit') == 1
    (b3['caught'] if caught else b3['missed']).append(cid)
    shutil.copy(os.path.join(dst, 'check_result.json'), os.path.join(dst, 'first_run_result.json'))
    print(cid, 'CAUGHT' if caught else 'MISSED', [l[:140] for l in res.get(pid, {}).get('lines', [])[:3]])
    json.dump(d, open(FR, 'w'), indent=1)
json.dump(d, open(FR, 'w'), indent=1)
print(f'batch {BATCH} so far: caught', len(b3['caught']), 'missed', len(b3['missed']), 'rejected', len(b3['rejected']))
