#!/usr/bin/env python3
"""dev tool: tools/prove.py [contract keys...]  -- verify contracts against $VERIF_REPO (default /repo), print non-proved obligations"""
import os, sys
sys.path.insert(0, os.path.dirname(os.path.dirname(os.path.abspath(__file__))))
from specs import load_all
from pyvc.verify import verify_target
C, R = load_all()
names = [a for a in sys.argv[1:] if not a.startswith('-')] or [k for k in C if not C[k].get('assumed')]
verbose = '-v' in sys.argv
for k in names:
    c = C[k]
    rep = verify_target(os.environ.get('VERIF_REPO', '/repo'), c['relpath'], c['qualname'], c, C, R, timeout_ms=30000)
    print('==', rep['fn'], rep['status'], rep.get('detail', ''), 'paths', rep.get('paths'), 'canary', rep.get('canary'), 'stmts', rep.get('stmts_modelled'), '/', rep.get('stmts_total'),
          'obligations', len(rep['obligations']), 'dead-exits', rep.get('dead_exit_paths'), f"{rep['wall_s']:.2f}s")
    for u in rep['unsupported']:
        print('   UNSUPPORTED', u)
    for o in rep['obligations']:
        if verbose or o['verdict'] != 'proved':
            print('  ', o['verdict'], o['backend'], f"{o['ms']:.0f}ms", o['name'], '|', o.get('note', '')[:90], str(o.get('model'))[:300] if o['verdict'] != 'proved' else '')
