#!/usr/bin/env python3
"""Aggregates seeded/*/*/{meta,verified,check_result}.json into seeded/RESULTS.md"""
import glob, json, os
HERE = os.path.dirname(os.path.dirname(os.path.abspath(__file__)))
rows = []
FIRST = json.load(open(os.path.join(HERE, 'seeded', 'FIRST_RUN.json')))['missed'] if os.path.exists(os.path.join(HERE, 'seeded', 'FIRST_RUN.json')) else {}
for d in sorted(glob.glob(os.path.join(HERE, 'seeded', '*', '*'))):
    if not os.path.isdir(d):
        continue
    def j(n):
        p = os.path.join(d, n)
        return json.load(open(p)) if os.path.exists(p) else {}
    meta, ver, chk = j('meta.json'), j('verified.json'), j('check_result.json')
    if not meta:
        continue
    pid = meta.get('property')
    res = chk.get(pid, {})
    caught = res.get('exit') == 1
    by = []
    for l in res.get('lines', []):
        if l.startswith('VIOLATION'):
            r = l.split('replay=')[1].split()[0]
            by.append(os.path.basename(r).replace('.json', '') + (' (no-failing-input-found)' if 'no-failing-input-found' in l else ''))
    others = {p: v.get('exit') for p, v in chk.items() if p != pid}
    rows.append(dict(id=os.path.relpath(d, os.path.join(HERE, 'seeded')), prop=pid, summary=meta.get('summary', '')[:160], needs=meta.get('needs', '')[:140],
                     verified=f"clean={ver.get('clean_exit')} mutant={ver.get('mutant_exit')} suite={ver.get('suite')}", caught=caught, by=by[:4], others=others,
                     exit=res.get('exit')))
with open(os.path.join(HERE, 'seeded', 'RESULTS.md'), 'w') as f:
    f.write('# Seeded changes (written independently of /verif) and the checks that catch them\n\n')
    f.write(f'{sum(r["caught"] for r in rows)} of {len(rows)} confirmed changes are reported by the quick check of the property they break.\n\n')
    f.write(f'{len([r for r in rows if r["id"] in FIRST])} of them were MISSED by the first run and led to the strengthening named in the last column.\n\n')
    f.write('| change | property | what was changed | needs | confirmed | quick check now | reported by (failure key / obligation) | first run |\n|---|---|---|---|---|---|---|---|\n')
    for r in rows:
        f.write(f"| {r['id']} | {r['prop']} | {r['summary']} | {r['needs']} | {r['verified']} | {'CAUGHT' if r['caught'] else 'missed (exit ' + str(r['exit']) + ')'} | {'; '.join(r['by'])} | {('missed -> ' + FIRST[r['id']]) if r['id'] in FIRST else 'caught'} |\n")
print(open(os.path.join(HERE, 'seeded', 'RESULTS.md')).read()[:1500])
