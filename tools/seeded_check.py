#!/usr/bin/env python3
"""usage: tools/seeded_check.py <seeded-dir> [property ids...]
Applies the seeded patch to /repo itself (git apply), runs ./check for the given properties (default: the property the
change targets), records exit codes and VIOLATION lines in <seeded-dir>/check_result.json, and restores /repo."""
import json, os, subprocess, sys
d = os.path.abspath(sys.argv[1])
meta = json.load(open(os.path.join(d, 'meta.json')))
props = sys.argv[2:] or [meta['property']]
assert subprocess.run(['git', '-C', '/repo', 'status', '--porcelain'], capture_output=True, text=True).stdout.strip() == '', '/repo not clean'
out = {}
# the evidence files belong to runs on the unchanged tree: keep them as they are (a run against a seeded change must not replace them)
saved = {p: open(f'/verif/evidence/{p}.json', 'rb').read() for p in props if os.path.exists(f'/verif/evidence/{p}.json')}
try:
    subprocess.run(['git', '-C', '/repo', 'apply', os.path.join(d, 'patch.diff')], check=True)
    for p in props:
        r = subprocess.run(['./check', p], cwd='/verif', capture_output=True, text=True)
        lines = [l for l in r.stdout.splitlines() if l.startswith('VIOLATION') or l.startswith('CHECKER-FAULT') or l.startswith(p + ' [')]
        detail = [l.strip()[:300] for l in r.stdout.splitlines() if l.startswith('  ') and 'undecided' not in l][:6]
        out[p] = dict(exit=r.returncode, lines=lines[:12], detail=detail)
        print(p, 'exit', r.returncode, *lines[:6], sep='\n   ')
finally:
    subprocess.run(['git', '-C', '/repo', 'checkout', '--', '.'], check=True)
    for p, data in saved.items():
        open(f'/verif/evidence/{p}.json', 'wb').write(data)
json.dump(out, open(os.path.join(d, 'check_result.json'), 'w'), indent=1)
