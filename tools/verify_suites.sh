#!/bin/sh
# confirm the stable suite for each seeded change given as arguments (sequentially)
for d in "$@"; do
  /verif/tools/seeded_verify.sh "$d" --suite > "$d/verify_suite.log" 2>&1
  echo "$d $(cat $d/verified.json)"
done
