#!/usr/bin/env python3
"""Regenerates /verif/MANIFEST.json from the claim table below (kept in one place so it stays valid)."""
import json, os, sys
HERE = os.path.dirname(os.path.dirname(os.path.abspath(__file__)))
sys.path.insert(0, HERE)
from tools.claims import CLAIMS, NOT_APPLICABLE   # noqa: E402

BASE = "cd /repo && /venv/bin/python -m pytest -ra -q -p no:cacheprovider --timeout=900 --continue-on-collection-errors --junitxml=/var/tmp/static_frame_baseline.junit.xml"
m = dict(
    version=1,
    setup_cmd='./setup.sh',
    hooks=dict(guard='STATIC_FRAME_VERIF',
               enable='no source hooks: contracts are sidecar files in /verif/specs keyed by module:qualname; /repo sources are read as text by pyvc and the installed package is wrapped from /verif for replay and bounded stand-ins; STATIC_FRAME_VERIF=1 is exported by ./check but nothing in /repo reads it',
               baseline_off_cmd=BASE, source_commits=[], add_only=True),
    engines=[
        dict(name='pyvc', path='pyvc/', serves_properties=sorted(CLAIMS),
             kind_free_text='verification-condition generator over the real /repo ASTs (re-read on every run) against sidecar contracts; z3 5.1 discharges, cvc5 1.0.3 takes z3 unknowns; modular (callee contracts), loop invariants, yield contracts, ghost state'),
        dict(name='bounded', path='bounded/', serves_properties=sorted(CLAIMS),
             kind_free_text='run-time evaluation of the same contracts on the real package over exhaustively enumerated small scopes; labelled bounded, never counted as proved'),
    ],
    checks=[], not_applicable=[dict(property_id=k, reason=v) for k, v in sorted(NOT_APPLICABLE.items())],
    notes='Exit 0: every obligation held / every bounded case passed (known findings printed as KNOWN-FINDING). Exit 1: VIOLATION line(s). Exit 3: CHECKER-FAULT (never a violation). See DESIGN.md.',
)
for pid in sorted(CLAIMS):
    c = CLAIMS[pid]
    m['checks'].append(dict(
        property_id=pid, quick_cmd=f'./check {pid} --tier quick', thorough_cmd=f'./check {pid} --tier thorough',
        evidence_file=f'evidence/{pid}.json', replay_cmd_template=f'./check {pid} --replay {{path}}', engine='pyvc+bounded',
        level_claimed=dict(category=c['category'], text=c['text'], design_ref=c.get('design_ref', f'DESIGN.md §3 {pid}')),
        level_note=c['note'], technique=c['technique']))
json.dump(m, open(os.path.join(HERE, 'MANIFEST.json'), 'w'), indent=1)
print('MANIFEST.json written:', len(m['checks']), 'checks,', len(m['not_applicable']), 'not applicable')
