#!/usr/bin/env python3
"""Records which contracts / G sites are fully discharged on the pinned tree (committed file
baseline_proved.json).  Used only to phrase a later failure as "was discharged, now fails"."""
import json, os, sys, multiprocessing as mp
HERE = os.path.dirname(os.path.dirname(os.path.abspath(__file__)))
sys.path.insert(0, HERE)


def one(key):
    from specs import load_all
    from pyvc.verify import verify_target
    C, R = load_all()
    c = C[key]
    rep = verify_target(os.environ.get('VERIF_REPO', '/repo'), c['relpath'], c['qualname'], c, C, R, timeout_ms=30000)
    ok = rep['status'] == 'ok' and not rep['unsupported'] and rep['obligations'] and all(o['verdict'] == 'proved' for o in rep['obligations'])
    return key, ok, len(rep['obligations']), rep.get('sha256')


if __name__ == '__main__':
    from specs import load_all
    from pyvc.typestate import analyse
    C, R = load_all()
    keys = [k for k, c in C.items() if not c.get('assumed')]
    from concurrent.futures import ProcessPoolExecutor
    with ProcessPoolExecutor(max_workers=12, mp_context=mp.get_context('fork')) as p:
        res = list(p.map(one, keys))
    out = {k: dict(obligations=n, sha256=sha) for k, ok, n, sha in res if ok}
    for k, ok, n, sha in res:
        print(('PROVED   ' if ok else 'NOT-ALL  '), k, n)
    out['G_sites'] = sorted(s.sid for s in analyse(os.environ.get('VERIF_REPO', '/repo')) if s.verdict == 'proved')
    json.dump(out, open(os.path.join(HERE, 'baseline_proved.json'), 'w'), indent=1, sort_keys=True)
    print('baseline written:', len(out) - 1, 'contracts,', len(out['G_sites']), 'G sites')
