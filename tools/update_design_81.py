#!/usr/bin/env python3
"""rewrites section 8.1 of DESIGN.md (intro + the table printed by tools/seeded_design_section.py)"""
import os, re, subprocess, sys
HERE = os.path.dirname(os.path.dirname(os.path.abspath(__file__)))
table = subprocess.run([sys.executable, os.path.join(HERE, 'tools', 'seeded_design_section.py')], capture_output=True, text=True, check=True).stdout
INTRO = '''### 8.1 Seeded changes and the checks that catch them

Five batches of sub-agents (20 per batch, one per property; 10 in batch 4, for the properties whose batch-3 change had been missed; 10 in batch 5, for the other ten properties) were given only the text of that property and a
private git worktree of `/repo`, nothing from `/verif`, and asked for changes (three each in batch 1, two
each in batch 2, one each in batches 3, 4 and 5 — `<id>/1-3`, `/4-5`, `/6`, `/7`, `/8`; later batches were told to avoid the earlier sites) that break the property while the code still compiles and
the existing tests still pass, each needing something specific to manifest, each with a demonstration script.
A change was kept only after the demonstration passed on the clean tree and failed with the change in a fresh
scratch worktree here (`tools/seeded_verify.sh`), and the repository's stable suite was run with the change
(by the author in its worktree, and again here with `--suite`; the last column says which). The changes live in
`seeded/<id>/<k>/` (`patch.diff`, `demo.py`, `meta.json`, `verified.json`, `check_result.json`); none is ever
committed to `/repo`. `tools/seeded_check.py` applies one to `/repo`, runs the quick check of its property and
restores `/repo` and the evidence file. **D** = a contract obligation is refuted (with a replayed input where the
report does not say `no-failing-input-found`), **G** = a generated site obligation is refuted, B = a stand-in
failure key. "first run" is the result before any strengthening; for a missed change it names what was added.

Batch 1 was used to strengthen the machinery; **batches 2 and 3 are honest estimates of what the machinery
catches unseen**: 17 of 40, then 10 of 20 at first run (batch 3 ran against the machinery as strengthened by
batches 1 and 2; its agents had to avoid 5 earlier sites per property, so its changes sit in less central code:
`clip` with Frame bounds, key functions returning deeper hierarchies, `StoreFilter`, `relabel_level_add`, ...).
Of the 10 batch-3 misses, 6 are now refuted by contracts / site obligations (G3, G14, `Frame.equals`,
`sort_index_for_order[key->index]`, `_index_many_to_one`) and the others by wider stand-in scopes.
**Batch 4** (10 changes, the 10 properties whose batch-3 change had been missed, 6 earlier sites to avoid each)
was caught 2 of 10 at first run: with the central functions excluded the agents moved to peripheral code
(`consolidate_blocks`, `StoreConfig` pickling, `pivot_stack`, `TypeBlocks.__setstate__`, a fast path in
`Frame.sort_index`) that no contract covered and whose input classes (datetime units of equal width, falsy
non-default options, 64-bit ids next to floats, one array object at two block positions) no stand-in enumerated;
2 of the 8 misses are now refuted by D / G obligations (`Series.equals` once `is` between records was decidable,
G14 for list aliasing in `TypeBlocks.__copy__` — which the proved value-level contract of `__copy__` cannot see),
6 by wider stand-in scopes. The honest reading: on central, contracted code the machinery catches unseen changes;
on the long tail it catches what its enumerations happen to include, and each batch moves that boundary a little.
**Batch 5** (@N5@ changes for C01, C02, C04, C05, C06, C08, C13, C14, C15, C17 — the ten properties batch 4 had not covered; the agents were only told to prefer a less central code path) ran against the machinery as it stood after batch 4: @C5@ of @N5@ were reported by the first run; @DG5@ of the @N5@ are refuted by a D or G obligation today (contracts of `Frame._ufunc_binary_operator`, `axis_window_items`, `IndexHierarchy.__init__`; G13; and G16, written for the one miss, C17/8), the others by stand-in failure keys (see the table). In batch 2 every one of the 23 missed changes led to a strengthening (named in the
"first run" column): new or completed contracts (`LocMap.bound_offset_slice`, `free_conditions` in the offset
contract, `IndexHierarchy.from_index_items`, and — written after the stand-ins had been widened —
`Index.equals`, `_ufunc_logical_skipna`, `SeriesAssign.__call__`, `normalize_container`, which now refute
C10/4, C06/5, C15/4, C07/4, C19/5 with replayed inputs), new site generators (G11, G12), and wider stand-in
scopes (a label with a dot, labels that differ from frame names, a grown container read first, integers beyond
2**53, a NaN label on one side, ...). Four of these widenings exposed genuine defects of the unchanged tree
(recorded in `known_findings.jsonl`: duration reductions, row-wise exports of big ints) or harness errors
(a key function of the C12 harness that consolidated columns itself; NumPy rounding the int in an int-vs-float
cell comparison of the C16 harness), corrected in the machinery.
The pattern of the misses is the useful
finding: nearly all need an input *class* the stand-in did not enumerate (mixed dtype of equal width, shared
index objects, subclass members, auto-generated indices), i.e. exactly what a contract over all inputs covers
and an enumeration does not — where a contract or site obligation existed for the changed function
(@DG1@ of the 60 batch-1, @DG2@ of the 40 batch-2, @DG3@ of the 20 batch-3 and @DG4@ of the 10 batch-4 changes are refuted by a D or G obligation today)
the change was caught without knowing the class in advance.

'''
rows = [l for l in table.splitlines() if l.startswith('| C')]
import json
_fr5 = json.load(open(os.path.join(HERE, 'seeded', 'FIRST_RUN.json'))).get('batch5_first_run', {})
def _b(l):
    k = l.split('|')[1].strip().split('/')[1]
    return 5 if k == '8' else 4 if k == '7' else 3 if k == '6' else 2 if k in ('4', '5') else 1
dg = lambda b: sum(1 for l in rows if _b(l) == b and ('**D**' in l or '**G**' in l))
INTRO = INTRO.replace('@DG2@', str(dg(2))).replace('@DG1@', str(dg(1))).replace('@DG3@', str(dg(3))).replace('@DG4@', str(dg(4))).replace('@DG5@', str(dg(5))).replace('@N5@', str(sum(1 for l in rows if _b(l) == 5))).replace('@C5@', str(len(_fr5.get('caught', []))))
p = os.path.join(HERE, 'DESIGN.md')
s = open(p).read()
a = s.index('### 8.1 Seeded changes')
b = s.index('## 9. What changed from the round-0 plan')
sep = '\n\n---------------------------------------------------------------------------------------------\n\n'
s = s[:a] + INTRO + table.rstrip('\n') + sep + s[b:]
open(p, 'w').write(s)
print('DESIGN.md section 8.1 rewritten:', table.count('\n| C'), 'rows')
