#!/bin/sh
# usage: tools/seeded_verify.sh <seeded-dir> [--suite]
# Confirms a seeded change in a private scratch worktree of /repo: demo exits 0 on the clean tree, non-zero with the patch,
# and (with --suite) the repository's pinned stable suite still passes with the patch. Writes <seeded-dir>/verified.json.
set -u
D=$(cd "$1" && pwd); NAME=$(basename "$(dirname "$D")")_$(basename "$D")
WT=/tmp/sv_$NAME
git -C /repo worktree remove --force "$WT" >/dev/null 2>&1
git -C /repo worktree add -q --detach "$WT" HEAD || exit 3
cp "$D/demo.py" "$WT/_demo.py"
(cd "$WT" && timeout 600 /venv/bin/python _demo.py >/dev/null 2>&1); CLEAN=$?
if ! git -C "$WT" apply "$D/patch.diff" 2>/dev/null; then APPLY=failed; else APPLY=ok; fi
(cd "$WT" && timeout 600 /venv/bin/python _demo.py >"$WT/_demo.out" 2>&1); MUT=$?
SUITE=skipped
if [ "${2:-}" = "--suite" ] && [ "$APPLY" = ok ]; then
  SUITE=$(/verif/tools/run_stable.sh "$WT" | head -1)
fi
printf '{"clean_exit": %s, "mutant_exit": %s, "apply": "%s", "suite": "%s", "repo_head": "%s"}\n' "$CLEAN" "$MUT" "$APPLY" "$SUITE" "$(git -C /repo rev-parse --short HEAD)" > "$D/verified.json"
cat "$D/verified.json"
git -C /repo worktree remove --force "$WT" >/dev/null 2>&1
