"""Claim table for MANIFEST.json (edited by hand as checks come on line)."""
_NOTE = ('trusted: pyvc translator + z3/cvc5; assumed (probed, not proved) contracts on NumPy/stdlib/automap; repo callees whose contracts are used '
         'but not proved are listed in the evidence; bounded stand-ins are exhaustive only within their stated scope and are never counted as proved')
CLAIMS = {
    'C03': dict(category='proof',
        text='Deductive: contracts on the real key->block-slice translation (TypeBlocks._cols_to_slice, _indices_to_contiguous_pairs with loop invariant and yield contract, util.slice_to_ascending_slice) are discharged for all inputs and all iterations by z3 from VCs generated from the current source. Layout transparency of whole operations is outside the verifier and is covered by a bounded stand-in (all block layouts of <=4 columns x 49 operations), reported as bounded.',
        note=_NOTE, technique='contract-based deductive verification (AST->VC, z3/cvc5) + bounded run-time contract stand-in'),
}
NOT_APPLICABLE = {pid: 'check under construction in this session (contracts and stand-ins are being written); see DESIGN.md §3'
                  for pid in ['C01', 'C02', 'C04', 'C05', 'C06', 'C07', 'C08', 'C09', 'C10', 'C11', 'C12', 'C13', 'C14', 'C15', 'C16', 'C17', 'C18', 'C19', 'C20']}
