"""Claim table for MANIFEST.json (edited by hand as checks come on line)."""
_NOTE = ('trusted: pyvc translator + z3/cvc5; assumed (probed, not proved) contracts on NumPy/stdlib/automap; repo callees whose contracts are used '
         'but not proved are listed in the evidence; bounded stand-ins are exhaustive only within their stated scope and are never counted as proved')
_T = 'contract-based deductive verification (AST->VC, z3/cvc5) + bounded run-time contract stand-in'
_TB = 'bounded run-time contract checking of the real package (stand-in; no deductive obligation reaches this property yet)'


def _p(text):
    return dict(category='proof', text=text, note=_NOTE, technique=_T)


def _o(text):
    return dict(category='other', text=text, note=_NOTE, technique=_T)


def _e(text):
    return dict(category='exploration', text=text, note=_NOTE, technique=_TB)


CLAIMS = {
    'C01': _o('Deductive: immutable_filter, TypeBlocks.append/extend/from_blocks (Frozen invariant) proved; G3 ownership obligations (an array or TypeBlocks handed over with own_*=True is not the caller\'s live object) generated at every such call site and discharged by path enumeration; G1/G2 site obligations generated for every array-field write, raw TypeBlocks constructor call, frozen-return contract and in-place ndarray write in 13 core modules and discharged by a flow-sensitive type-state pass (some sites undecided: listed). "Every public method" is covered by a bounded snapshot stand-in.'),
    'C02': _e('Bounded stand-in: index bijection contract over 12 label families x construction/derivation routes x grow-only histories (flat, datetime, auto-integer, hierarchical). slice_to_inclusive_slice (label-slice stop inclusion) is proved deductively.'),
    'C03': _p('Deductive: contracts on the real key->block-slice translation (TypeBlocks._cols_to_slice, _indices_to_contiguous_pairs with loop invariant and yield contract, util.slice_to_ascending_slice, TypeBlocks.append / from_blocks directory invariant, the column-cursor discipline of the block-wise generators _astype_blocks / _mask_blocks / _ufunc_blocks / _drop_blocks) are discharged for all inputs and all iterations. Layout transparency of whole operations is covered by a bounded stand-in (all block layouts of <=4 columns x 59 operations, all layout pairs for binary operators), reported as bounded.'),
    'C05': _e('Bounded stand-in: list-of-tuples reference for ragged trees depth 2-4, 16 construction routes, grow-only histories, every per-level selector combination.'),
    'C06': _e('Bounded stand-in: set algebra of indices and dict-reference label alignment of binary operators / reindex over all small label-set relations and block layouts.'),
    'C07': _p('Deductive: util.resolve_dtype proved against the decision table taken from the property (strings, Booleans, dates and numbers never resolve into one another; object absorbs; same-class pairs defer to np.result_type, assumed); concat_resolved and full_for_fill proved to allocate with the resolved dtype; TypeBlocks.append / from_blocks keep the row dtype able to hold every block (RowDtypeHolds). Cell-level preservation across every merging operation is covered by a bounded stand-in.'),
    'C08': _p('Deductive: slice_to_ascending_slice and key_to_ascending_key proved (result is ascending and addresses exactly the positions of the user key, for every slice incl. negative start/stop/step, all sizes); get_block_match yield contract proved (draws exactly `width` leading columns from the stack, remainder pushed back, rest untouched); the block-wise generators _astype_blocks / _mask_blocks / _ufunc_blocks / _drop_blocks proved to advance their column cursor by exactly the block width and to split a block only at the addressed columns. G2 write-only-to-fresh sites and G3 ownership sites cover "leaves the original as it was". Whole update interfaces are covered by a bounded reference-model stand-in.'),
    'C09': _p('Deductive: TypeBlocks.append / extend, FrameGO.__setitem__ and FrameGO.extend proved append-only, all-or-nothing (raise => state == old(state)) and lock-step (labels and data widths equal) for all inputs, relative to assumed IndexGO contracts; G3 ownership obligations cover non-sharing at every own_*=True hand-over. Histories and non-sharing are also covered by a bounded stand-in.'),
    'C10': _p('Deductive: TypeBlocks.equals proved equal to the content-equivalence predicate of the property over ghost cell contents (cell-wise ==, both-missing only under skipna, dtype option), for all shapes and block structures; symmetry follows from the predicate. Container-level equals / HE hash contract are covered by a bounded stand-in.'),
    'C11': _e('Deductive side result: util.concat_resolved (resolved dtype, shape arithmetic, frozen result) proved. The property itself is decided by a bounded stand-in: dict-of-cells reference for from_concat / from_concat_items / from_overlay on Series and Frames (0..3 inputs, both axes, union/intersection, all layouts).'),
    'C12': _e('Deductive side result: sort_index_for_order routing proved (depth 0 is the last lexsort key, kind forwarded, descending = exact reverse) relative to assumed NumPy sort contracts; sort-kind constants checked on the AST. The property itself is decided by a bounded stand-in: sorted() reference (stable, multi-key, hierarchical, descending = exact reverse) over all orders of small label/value sets and all layouts.'),
    'C14': _p('Deductive: util.slices_from_targets yield contract proved (each yielded run is non-empty, inside the axis, adjacent to its own anchor, at most `limit` long, never covers a non-missing anchor position, carries that anchor\'s value) for all inputs. Per-cell behaviour of isna/dropna/fillna*/count is covered by an exhaustive bounded stand-in (every missing pattern up to 3x3 / 2x4, all layouts).'),
    'C16': _e('Bounded stand-in only (CSV/TSV text semantics are outside the verifier): inverse-pair contract for delimited / pairs / records / pickle round trips.'),
    'C17': _p('Deductive: Bus._store_reader yield contract proved (frames yielded in label order, each read with that label\'s config, for every max_persist batching) relative to assumed Store contracts. Laziness, LRU bound/order, store faithfulness and stale-file detection are covered by a bounded history stand-in.'),
    'C18': _e('Bounded stand-in: pooled vs sequential application for every completion order of <=4 delayed tasks, worker counts, chunk sizes; Batch and zip store workers.'),
    'C19': _e('Bounded stand-in: Quilt vs concatenated Frame, Batch vs per-Frame application.'),
}
CLAIMS.update({
    'C04': _p('Deductive: the key->position arithmetic that selection rests on is proved for all inputs: slice_to_inclusive_slice (label slices include their stop), LocMap.map_slice_args (label slice bounds: stop inclusive, absent end point raises), TypeBlocks._cols_to_slice and _indices_to_contiguous_pairs (a key expands to exactly its positions, in key order, tiled over the blocks). Whole selections (iloc/loc/getitem/bloc on flat, auto-integer, datetime and hierarchical axes) are covered by a bounded reference-model stand-in.'),
    'C13': _e('Deductive side result: util.axis_window_items yield contract proved (window k covers exactly [k*step, k*step+size) clipped as specified, labelled by the position label_shift prescribes, for all size/step/shift/increment). Grouping is decided by a bounded stand-in only: partition contract for iter_group* (every key vector over small alphabets, 13 key kinds, both axes, label depths, both grouping paths) and reference enumeration of windows for all size/step/shift/label_shift/size_increment in a small box.'),
    'C15': _e('Bounded stand-in: frame.f(axis, skipna) against the per-column / per-row NumPy computation for 18 reduction variants x 12 column kinds x all layouts; many defects of this version are recorded as known findings.'),
    'C20': _e('Bounded stand-in: dict-of-rows relational reference for pivot / stack-unstack / joins / set_index / relabel_shift round trips.'),
})
NOT_APPLICABLE = {}
