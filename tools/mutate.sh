#!/bin/sh
# usage: tools/mutate.sh <name> <python-snippet-file>  : fresh scratch copy of /repo/static_frame under /var/tmp/mut/<name>, snippet applies edits (cwd = copy root)
set -e
D=/var/tmp/mut/$1
rm -rf "$D"; mkdir -p "$D"
rsync -a --exclude test --exclude __pycache__ /repo/static_frame "$D"/
cd "$D" && python3 "$2"
echo "$D"
