#!/bin/sh
# usage: run_stable.sh <worktree-dir>   -- runs the pinned test suite in that worktree and reports whether every
# test of the stable-pass baseline still passes (exit 0) or lists the regressed ones (exit 1). Takes ~6 minutes.
# Tests that fail are re-run alone with two other hypothesis seeds; a test that passes on a re-run is counted as passing
# and listed as "flaky" (the hypothesis-driven property tests of this repository are seed dependent on the clean tree too).
WT=$1
OUT=$WT/_stable.junit.xml
rm -rf "$WT/.hypothesis"
cd "$WT" && /venv/bin/python -m pytest -ra -q -p no:cacheprovider --timeout=900 --continue-on-collection-errors --hypothesis-seed=2 --junitxml=$OUT >$WT/_stable.pytest.log 2>&1
/venv/bin/python - "$OUT" "$WT" <<'PY'
import sys, json, subprocess, xml.etree.ElementTree as ET
b = json.load(open('/root/.vp/BASELINE.json'))
want = set(b['stable_pass'])
def load(path):
    got = {}
    for tc in ET.parse(path).getroot().iter('testcase'):
        name = f"{tc.get('classname')}::{tc.get('name')}"
        got[name] = not any(ch.tag in ('failure', 'error', 'skipped') for ch in tc)
    return got
got = load(sys.argv[1])
missing = sorted(n for n in want if not got.get(n, False))
flaky = []
if 0 < len(missing) <= 12:
    for n in list(missing):
        cls, _, fn = n.rpartition('::')
        parts = cls.split('.')
        # classname is module path (+ class); find the file
        import os
        for k in range(len(parts), 0, -1):
            f = os.path.join(sys.argv[2], *parts[:k]) + '.py'
            if os.path.exists(f):
                nodeid = '::'.join([os.path.relpath(f, sys.argv[2])] + parts[k:] + [fn])
                break
        else:
            continue
        for seed in (0, 1):
            r = subprocess.run(['/venv/bin/python', '-m', 'pytest', '-q', '-p', 'no:cacheprovider', f'--hypothesis-seed={seed}', nodeid],
                               cwd=sys.argv[2], capture_output=True, text=True)
            if r.returncode == 0:
                flaky.append(n); missing.remove(n)
                break
print('stable_pass', len(want), 'now passing', len(want) - len(missing), 'regressed', len(missing), ('flaky-passed-on-rerun ' + ','.join(x.split('::')[-1] for x in flaky)) if flaky else '')
for n in missing[:40]:
    print('  REGRESSED', n)
sys.exit(1 if missing else 0)
PY
