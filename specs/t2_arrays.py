from . import contract, predicate, RECORDS

UTIL = 'static_frame/core/util.py'
TB = 'static_frame/core/type_blocks.py'

contract(UTIL, 'immutable_filter',
    props=['C01'],
    params=dict(src_array='arr'), order=['src_array'], result='arr',
    requires=[],
    ensures=[
        'not result.writeable',                                                   # never hands out a writeable array
        'result.ndim == src_array.ndim and result.rows == src_array.rows and result.cols == src_array.cols and result.dtype == src_array.dtype',
        'implies(src_array.writeable, result.fresh)',                             # caller's later writes invisible
        'implies(not src_array.writeable, same_array(result, src_array))',        # read-only input shared, not copied
    ],
    # frame: the argument's own flag is untouched (checked through old())
    )

_CLS = 'dtype_class'
contract(UTIL, 'resolve_dtype',
    props=['C07'],
    params=dict(dt1='dtype', dt2='dtype'), order=['dt1', 'dt2'], result='dtype',
    requires=[],      # (object / bool dtype uniqueness are global assumed NumPy axioms, see pyvc/npmodel.py DTYPE_AXIOMS)
    ensures=[
        'implies(dt1 == dt2, result == dt1)',
        'implies(kind_is(dt1, "O") or kind_is(dt2, "O"), result == DTYPE_OBJECT)',
        # strings, Booleans, dates and numbers are never cast into one another
        f'implies({_CLS}(dt1) != {_CLS}(dt2) and {_CLS}(dt1) <= 5 and {_CLS}(dt2) <= 5, result == DTYPE_OBJECT)',
        # within one class the NumPy common type is used (or object when NumPy has none)
        f'implies({_CLS}(dt1) == {_CLS}(dt2) and dt1 != dt2 and not kind_is(dt1, "O"), result == np_result_type(dt1, dt2) or result == DTYPE_OBJECT)',
        f'implies({_CLS}(dt1) == {_CLS}(dt2) and dt1 != dt2 and not kind_is(dt1, "O", "m"), result == np_result_type(dt1, dt2))',
        'holds(result, dt1) and holds(result, dt2)',       # relative to the assumed NumPy axioms on np.result_type
    ])

# ---------------------------------------------------------------------------------------------
# TypeBlocks: the column directory invariant Dir(tb)  (DESIGN §3 C03)
# _offs is GHOST: prefix column offsets (offs[k] = first column of block k, offs[len(blocks)] = column count)
RECORDS['TypeBlocks'] = dict(_blocks='list[arr]', _index='list[tuple[int,int]]', _dtypes='list[dtype]',
                     _shape='tuple[int,int]', _row_dtype='opt[dtype]', _offs='list[int]')

# local (successor) characterisation of the directory: no ghost offsets needed
predicate('Dir', ['tb'], ' and '.join([
    'len(tb._index) == tb._shape[1] and len(tb._dtypes) == tb._shape[1] and tb._shape[0] >= 0',
    # every block: width >= 1, common row count, read-only
    'forall_in(0, len(tb._blocks), lambda k: W(at(tb._blocks, k)) >= 1 and at(tb._blocks, k).rows == tb._shape[0] and (at(tb._blocks, k).ndim == 1 or at(tb._blocks, k).ndim == 2))',
    # every column addresses an existing block column and carries that block's dtype
    'forall_in(0, len(tb._index), lambda c: 0 <= at(tb._index, c)[0] and at(tb._index, c)[0] < len(tb._blocks) and 0 <= at(tb._index, c)[1] and at(tb._index, c)[1] < W(at(tb._blocks, at(tb._index, c)[0])) and at(tb._dtypes, c) == at(tb._blocks, at(tb._index, c)[0]).dtype)',
    # consecutive columns are consecutive in (block, column-in-block) order: no gap, no repeat
    'forall_in(0, len(tb._index) - 1, lambda c: (at(tb._index, c + 1)[0] == at(tb._index, c)[0] and at(tb._index, c + 1)[1] == at(tb._index, c)[1] + 1) or (at(tb._index, c + 1)[0] == at(tb._index, c)[0] + 1 and at(tb._index, c + 1)[1] == 0 and at(tb._index, c)[1] == W(at(tb._blocks, at(tb._index, c)[0])) - 1))',
    'implies(len(tb._index) > 0, at(tb._index, 0)[0] == 0 and at(tb._index, 0)[1] == 0 and at(tb._index, len(tb._index) - 1)[0] == len(tb._blocks) - 1 and at(tb._index, len(tb._index) - 1)[1] == W(at(tb._blocks, len(tb._blocks) - 1)) - 1)',
    'implies(len(tb._index) == 0, len(tb._blocks) == 0)',
    # global form of the successor property (kept as its own conjunct: SMT solvers do not derive it by induction): columns are strictly ascending in (block, column-in-block) order
    'forall(lambda a, b: implies(0 <= a and a < b and b < len(tb._index), at(tb._index, a)[0] < at(tb._index, b)[0] or (at(tb._index, a)[0] == at(tb._index, b)[0] and at(tb._index, a)[1] < at(tb._index, b)[1])))',
    # ghost prefix offsets agree with the directory
    'len(tb._offs) == len(tb._blocks) + 1 and at(tb._offs, 0) == 0 and at(tb._offs, len(tb._blocks)) == tb._shape[1]',
    'forall_in(0, len(tb._blocks), lambda k: at(tb._offs, k + 1) == at(tb._offs, k) + W(at(tb._blocks, k)) and 0 <= at(tb._offs, k) and at(tb._offs, k + 1) <= tb._shape[1])',
]))
predicate('Frozen', ['tb'], 'forall_in(0, len(tb._blocks), lambda k: not at(tb._blocks, k).writeable)')
predicate('RowDtypeHolds', ['tb'], 'implies(len(tb._blocks) > 0, not is_none(tb._row_dtype) and forall_in(0, len(tb._blocks), lambda k: at(tb._blocks, k).dtype == tb._row_dtype or tb._row_dtype == DTYPE_OBJECT))')

_OLDN = 'old(len(self._index))'
_OLDB = 'old(len(self._blocks))'
contract(TB, 'TypeBlocks.append', modifies_self=True,
    props=['C09', 'C03', 'C01', 'C07'],
    params=dict(self='TypeBlocks', block='arr'), order=['self', 'block'], result='none',
    requires=['Dir(self)', 'Frozen(self)', 'block.ndim == 1 or block.ndim == 2',
              'implies(len(self._blocks) == 0, is_none(self._row_dtype))', 'RowDtypeHolds(self)'],
    # all-or-nothing: a mis-sized block is rejected before any write
    raises={'RuntimeError': 'block.rows != self._shape[0]'},
    raise_ensures=['self == old(self)'],
    ghost_after={'self._blocks.append(immutable_filter(block))': ['self._offs.append(self._shape[1])']},
    n_loops=1,
    loops={0: dict(index='t', invariant=[
        'self._blocks == old(self._blocks) and self._row_dtype == old(self._row_dtype) and self._offs == old(self._offs)',
        f'self._shape[0] == old(self._shape[0]) and self._shape[1] == {_OLDN} + W(block)',
        f'len(self._index) == {_OLDN} + t and len(self._dtypes) == {_OLDN} + t',
        f'forall_in(0, {_OLDN}, lambda c: at(self._index, c) == at(old(self._index), c) and at(self._dtypes, c) == at(old(self._dtypes), c))',
        f'forall_in({_OLDN}, {_OLDN} + t, lambda c: at(self._index, c)[0] == {_OLDB} and at(self._index, c)[1] == c - {_OLDN} and at(self._dtypes, c) == block.dtype)',
    ])},
    ensures=[
        'block.rows == old(self._shape[0])',                     # normal exit only for a matching row count
        'implies(W(block) == 0, self == old(self))',             # 0-width block is a no-op
        # append-only: the old prefix of blocks / index / dtypes is untouched (same arrays)
        f'forall_in(0, {_OLDB}, lambda k: at(self._blocks, k) == at(old(self._blocks), k))',
        f'forall_in(0, {_OLDN}, lambda c: at(self._index, c) == at(old(self._index), c) and at(self._dtypes, c) == at(old(self._dtypes), c))',
        f'implies(W(block) > 0, len(self._blocks) == {_OLDB} + 1 and self._shape[1] == {_OLDN} + W(block) and self._shape[0] == old(self._shape[0]))',
        # the appended block holds the caller's data, read-only, copied if the caller could still write to it
        f'implies(W(block) > 0, not at(self._blocks, {_OLDB}).writeable and at(self._blocks, {_OLDB}).dtype == block.dtype and at(self._blocks, {_OLDB}).rows == block.rows and W(at(self._blocks, {_OLDB})) == W(block) and implies(block.writeable, at(self._blocks, {_OLDB}).fresh))',
        'Dir(self)', 'Frozen(self)', 'RowDtypeHolds(self)',
    ])

# ---------------------------------------------------------------------------------------------
# TypeBlocks.from_blocks establishes Dir / Frozen (the representation invariant every other contract relies on)
predicate('DirParts', ['blocks', 'index', 'dtypes', 'rows', 'ncols', 'offs'], ' and '.join([
    'len(index) == ncols and len(dtypes) == ncols and rows >= 0',
    'forall_in(0, len(blocks), lambda k: W(at(blocks, k)) >= 1 and at(blocks, k).rows == rows and (at(blocks, k).ndim == 1 or at(blocks, k).ndim == 2) and not at(blocks, k).writeable)',
    'forall_in(0, len(index), lambda c: 0 <= at(index, c)[0] and at(index, c)[0] < len(blocks) and 0 <= at(index, c)[1] and at(index, c)[1] < W(at(blocks, at(index, c)[0])) and at(dtypes, c) == at(blocks, at(index, c)[0]).dtype)',
    'forall_in(0, len(index) - 1, lambda c: (at(index, c + 1)[0] == at(index, c)[0] and at(index, c + 1)[1] == at(index, c)[1] + 1) or (at(index, c + 1)[0] == at(index, c)[0] + 1 and at(index, c + 1)[1] == 0 and at(index, c)[1] == W(at(blocks, at(index, c)[0])) - 1))',
    'implies(len(index) > 0, at(index, 0)[0] == 0 and at(index, 0)[1] == 0 and at(index, len(index) - 1)[0] == len(blocks) - 1 and at(index, len(index) - 1)[1] == W(at(blocks, len(blocks) - 1)) - 1)',
    'implies(len(index) == 0, len(blocks) == 0)',
    'forall(lambda a, b: implies(0 <= a and a < b and b < len(index), at(index, a)[0] < at(index, b)[0] or (at(index, a)[0] == at(index, b)[0] and at(index, a)[1] < at(index, b)[1])))',
    'len(offs) == len(blocks) + 1 and at(offs, 0) == 0 and at(offs, len(blocks)) == ncols',
    'forall_in(0, len(blocks), lambda k: at(offs, k + 1) == at(offs, k) + W(at(blocks, k)) and 0 <= at(offs, k) and at(offs, k + 1) <= ncols)',
]))

# the raw constructor: fields are the arguments (ghost offsets supplied by the caller's ghost code); _row_dtype by resolve_dtype_iter (assumed fold)
contract(TB, 'TypeBlocks.__init__', key='TypeBlocks.__raw__', assumed=True,
    params=dict(blocks='list[arr]', dtypes='list[dtype]', index='list[tuple[int,int]]', shape='tuple[int,int]'),
    ghost_params=dict(offs='list[int]'),
    order=['blocks', 'dtypes', 'index', 'shape'], result='TypeBlocks',
    ensures=['result._blocks == blocks and result._dtypes == dtypes and result._index == index and result._shape == shape and result._offs == offs',
             'RowDtypeHolds(result) and implies(len(blocks) == 0, is_none(result._row_dtype))'])
contract(UTIL, 'shape_filter', key='shape_filter', assumed=False,
    props=['C03'],
    params=dict(array='arr'), order=['array'], result='tuple[int,int]',
    requires=['array.ndim == 1 or array.ndim == 2'],
    ensures=['result[0] == array.rows', 'result[1] == W(array)'])

_ROWS = 'cond(is_none(row_count), -1, row_count)'
contract(TB, 'TypeBlocks.from_blocks',
    props=['C01', 'C03', 'C09', 'C07'],
    params=dict(raw_blocks='list[arr]', shape_reference='opt[tuple[int,int]]'), order=['raw_blocks', 'shape_reference'],
    variants=[dict(raw_blocks='list[arr]'), dict(raw_blocks='arr')],
    result='TypeBlocks',
    requires=['implies(not is_none(shape_reference), shape_reference[0] >= 0)'],
    requires_variant={0: ['forall_in(0, len(raw_blocks), lambda k: at(raw_blocks, k).ndim >= 1)'], 1: ['raw_blocks.ndim >= 1']},     # blocks are 1-D / 2-D (or more: rejected) arrays
    raises={'ErrorInitTypeBlocks': True},
    call_ghosts={'TypeBlocks.__raw__': dict(offs='offs')},
    ghost_init=['offs = [0]'],
    ghost_after={'blocks.append(immutable_filter(raw_blocks))': ['offs.append(column_count)'],
                 'blocks.append(immutable_filter(block))': ['index_before = index', 'dtypes_before = dtypes'],
                 'column_count += c': ['offs.append(column_count)']},
    n_loops=3,
    loops={
        # single-array branch: the one block is already stored; columns 0..i-1 are indexed
        0: dict(index='i', locals=dict(index='list[tuple[int,int]]', dtypes='list[dtype]'), invariant=[
            'len(index) == i and len(dtypes) == i and len(blocks) == 1 and block_count == 0',
            'forall_in(0, i, lambda c: at(index, c)[0] == 0 and at(index, c)[1] == c and at(dtypes, c) == raw_blocks.dtype)']),
        # iterable branch, outer loop: everything built so far is a well-formed directory over column_count columns
        1: dict(index='t', locals=dict(blocks='list[arr]', dtypes='list[dtype]', index='list[tuple[int,int]]', row_count='opt[int]',
                                       column_count='int', block_count='int', offs='list[int]', r='int', c='int'),
                ghost_mods=['offs'],
                invariant=[
            'block_count == len(blocks) and column_count >= 0 and (is_none(row_count) or row_count >= 0)',
            'implies(is_none(row_count), len(blocks) == 0)',
            f'DirParts(blocks, index, dtypes, cond(is_none(row_count), 0, row_count), column_count, offs)']),
        # inner loop: the new block is stored, its first i columns are indexed
        2: dict(index='i', locals=dict(index='list[tuple[int,int]]', dtypes='list[dtype]'), invariant=[
            'len(index) == column_count + i and len(dtypes) == column_count + i',
            'forall_in(column_count, column_count + i, lambda q: at(index, q)[0] == block_count and at(index, q)[1] == q - column_count and at(dtypes, q) == block.dtype)',
            # the part built before this block is unchanged (frame of the inner loop)
            'forall_in(0, column_count, lambda q: at(index, q) == at(index_before, q) and at(dtypes, q) == at(dtypes_before, q))']),
    },
    ensures=['Dir(result)', 'Frozen(result)', 'RowDtypeHolds(result)', 'implies(len(result._blocks) == 0, is_none(result._row_dtype))'])

# concat_resolved: allocates the RESOLVED dtype before concatenating (C07 "no lossy coercion", C11)
contract(UTIL, 'concat_resolved',
    props=['C07', 'C11'],
    params=dict(arrays='list[arr]', axis='opt[int]'), order=['arrays', 'axis'], defaults=dict(axis='0'),
    result='arr',
    requires=['forall_in(0, len(arrays), lambda k: at(arrays, k).ndim == at(arrays, 0).ndim and (at(arrays, k).ndim == 1 or at(arrays, k).ndim == 2))',
              'implies(not is_none(axis), 0 <= axis and axis < at(arrays, 0).ndim)',
              ],
    raises={'NotImplementedError': 'is_none(axis)', 'StopIteration': 'not is_none(axis) and len(arrays) == 0', 'ValueError': True},
    n_loops=1,
    loops={0: dict(index='t', locals=dict(dt_resolve='dtype', shape='list[int]'), invariant=[
        'len(shape) == at(arrays, 0).ndim',
        # the running dtype holds every array seen so far (array 0 and arrays 1..t)
        'forall_in(0, t + 1, lambda k: holds(dt_resolve, at(arrays, k).dtype))',
        'implies(forall_in(0, t + 1, lambda k: at(arrays, k).dtype == at(arrays, 0).dtype), dt_resolve == at(arrays, 0).dtype)',
    ])},
    ensures=[
        'not result.writeable and result.fresh',                                             # a new read-only array
        'forall_in(0, len(arrays), lambda k: holds(result.dtype, at(arrays, k).dtype))',     # no input is narrowed
        'implies(forall_in(0, len(arrays), lambda k: at(arrays, k).dtype == at(arrays, 0).dtype), result.dtype == at(arrays, 0).dtype) or len(arrays) == 0',
        'result.ndim == at(arrays, 0).ndim',
    ])

# full_for_fill: the fill array's dtype holds both the requested dtype and the fill element (C07 reindex/shift/insert fills)
contract(UTIL, 'dtype_from_element', key='dtype_from_element', assumed=True,     # element inspection (np.array(value).dtype): assumed, exercised by the C07 stand-in
    params=dict(value='elem'), order=['value'], result='dtype',
    ensures=['result == ufd("dtype_of_element", value)'])
contract(UTIL, 'full_for_fill',
    props=['C07'],
    params=dict(dtype='opt[dtype]', shape='int', fill_value='elem'), order=['dtype', 'shape', 'fill_value'],
    result='arr',
    requires=['shape >= 0'],
    calls={
        'np.full': dict(params=dict(shape='int', fill_value='elem', dtype='dtype'), order=['shape', 'fill_value', 'dtype'], result='arr',
                        ensures=['result.ndim == 1 and result.rows == shape and result.cols == 1 and result.dtype == dtype and result.writeable and result.fresh']),
        'np.empty': dict(params=dict(shape='int', dtype='dtype'), order=['shape', 'dtype'], result='arr',
                         ensures=['result.ndim == 1 and result.rows == shape and result.cols == 1 and result.dtype == dtype and result.writeable and result.fresh']),
        'np.ndindex': dict(params=dict(shape='int'), order=['shape'], result='list[int]', ensures=['len(result) == shape']),
        'array.__setitem__': dict(params=dict(key='int', value='elem'), order=['key', 'value'], result='none', requires=['array.writeable and array.fresh'], ensures=[]),
    },
    n_loops=1,
    loops={0: dict(index='t', invariant=['array.writeable and array.fresh and array.dtype == DTYPE_OBJECT and array.rows == shape'])},
    ensures=[
        'result.fresh and result.rows == shape',                                   # a new array of the requested length (not frozen: callers may still write)
        'holds(result.dtype, ufd("dtype_of_element", fill_value))',                # the fill element fits
        'implies(not is_none(dtype), holds(result.dtype, dtype))',                 # and so does the data it will be merged with
        'implies(is_none(dtype), result.dtype == ufd("dtype_of_element", fill_value))',
    ])


# TypeBlocks.__copy__: the shallow copy holds the same (read-only) arrays under the same directory (C01 / C03 / C08: "returns a new container ... the
# original is left exactly as it was" rests on the copy being well formed and sharing only frozen arrays); that the lists themselves are new objects is
# outside the value model of lists here (the G3 ownership obligations cover who may grow them)
contract(TB, 'TypeBlocks.__copy__',
    props=['C01', 'C03', 'C08'],
    params=dict(self='TypeBlocks'), order=['self'], result='TypeBlocks',
    requires=['Dir(self)', 'Frozen(self)', 'RowDtypeHolds(self)', 'implies(len(self._blocks) == 0, is_none(self._row_dtype))'],
    calls={'self.__class__': dict(params=dict(blocks='list[arr]', dtypes='list[dtype]', index='list[tuple[int,int]]', shape='tuple[int,int]'), order=[],
                                  kwonly=['blocks', 'dtypes', 'index', 'shape'], result='TypeBlocks',
                                  # the raw constructor: fields are the arguments (as TypeBlocks.__raw__; the ghost offsets are those of the receiver, whose directory is copied)
                                  ensures=['result._blocks == blocks and result._dtypes == dtypes and result._index == index and result._shape == shape and result._offs == self._offs']),
           'self._dtypes.copy': dict(params={}, order=[], result='list[dtype]', ensures=['result == self._dtypes']),
           'self._index.copy': dict(params={}, order=[], result='list[tuple[int,int]]', ensures=['result == self._index'])},
    ensures=['Dir(result)', 'Frozen(result)', 'result._shape == self._shape', 'len(result._blocks) == len(self._blocks)',
             'forall_in(0, len(self._blocks), lambda k: at(result._blocks, k) == at(self._blocks, k))',
             'result._index == self._index and result._dtypes == self._dtypes'])


# TypeBlocks.consolidate_blocks: adjacent blocks are joined into one array only when their dtypes are the SAME (C07: "no lossy coercion" -- the joined array is cast to
# the dtype of the group's first block, so a block of another dtype, however similar, would be cast silently).  The join itself (_concatenate_blocks) is a local call
# whose PRECONDITION is the obligation: every block handed over has the dtype it is told to produce.
contract(TB, 'TypeBlocks.consolidate_blocks',
    props=['C07', 'C03'],
    params=dict(cls='elem', raw_blocks='list[arr]'), order=['cls', 'raw_blocks'],
    is_generator=True, yield_sort='arr',
    calls={'cls._concatenate_blocks': dict(params=dict(group='list[arr]', dtype='dtype'), order=['group', 'dtype'], result='arr',
                                           requires=['len(group) >= 2', 'forall_in(0, len(group), lambda k: at(group, k).dtype == dtype)'],
                                           ensures=['result.dtype == dtype and result.ndim == 2'])},
    ghost_init=['seen = 0'],
    n_loops=1,
    loops={0: dict(index='t', locals=dict(group='list[arr]', group_dtype='opt[dtype]', seen='int'), ghost_mods=['seen'], invariant=[
        'implies(is_none(group_dtype), len(group) == 0 and t == 0)',
        'implies(not is_none(group_dtype), len(group) >= 1 and forall_in(0, len(group), lambda k: at(group, k).dtype == group_dtype))',
        # the current group is exactly the run of blocks ending at the block before t
        'len(group) <= t and forall_in(0, len(group), lambda k: at(group, k) == at(raw_blocks, t - len(group) + k))',
    ])},
    concrete_inputs='specs.t2_arrays:concrete_inputs_consolidate', witness_on_unknown=True, witness_always=True, requires_concrete=[],
    at_yield_concrete=['True'], at_exit_concrete=['ref_consolidate(raw_blocks, yields)'],
    at_yield=['True'], yield_update=['seen = seen + 1'], at_exit=['True'])


def concrete_inputs_consolidate(model):
    """adjacent blocks of the same kind and width but different dtype (datetime64 / timedelta64 units, int64 / uint64), and of equal dtype"""
    import numpy as np
    from static_frame.core.type_blocks import TypeBlocks
    y = np.array(['2019', '2020'], dtype='datetime64[Y]')
    d = np.array(['2020-05-17', '2021-01-02'], dtype='datetime64[D]')
    ns = np.array(['2020-05-17T01:02:03.000000004', '2021-01-02'], dtype='datetime64[ns]')
    i = np.array([1, -2], dtype=np.int64)
    u = np.array([2 ** 63, 3], dtype=np.uint64)
    f = np.array([1.5, np.nan])
    td, th = np.array([1, 2], dtype='timedelta64[D]'), np.array([1, 2], dtype='timedelta64[h]')
    out = []
    for blocks in ([y, d], [d, ns, d], [y, y, d], [i, u], [u, i, i], [f, f, i], [td, th], [i, i], [np.stack([i, i], axis=1), i, f]):
        for b in blocks:
            b.flags.writeable = False
        out.append(dict(cls=TypeBlocks, raw_blocks=blocks))
    return out

