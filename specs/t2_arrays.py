from . import contract, predicate, RECORDS

UTIL = 'static_frame/core/util.py'
TB = 'static_frame/core/type_blocks.py'

contract(UTIL, 'immutable_filter',
    props=['C01'],
    params=dict(src_array='arr'), order=['src_array'], result='arr',
    requires=[],
    ensures=[
        'not result.writeable',                                                   # never hands out a writeable array
        'result.ndim == src_array.ndim and result.rows == src_array.rows and result.cols == src_array.cols and result.dtype == src_array.dtype',
        'implies(src_array.writeable, result.fresh)',                             # caller's later writes invisible
        'implies(not src_array.writeable, same_array(result, src_array))',        # read-only input shared, not copied
    ],
    # frame: the argument's own flag is untouched (checked through old())
    )

_CLS = 'dtype_class'
contract(UTIL, 'resolve_dtype',
    props=['C07'],
    params=dict(dt1='dtype', dt2='dtype'), order=['dt1', 'dt2'], result='dtype',
    requires=[
        # np.bool_ is the only dtype of kind b, object the only one of kind O (assumed NumPy facts)
        'implies(kind_is(dt1, "O"), dt1 == DTYPE_OBJECT)', 'implies(kind_is(dt2, "O"), dt2 == DTYPE_OBJECT)',
        'implies(kind_is(dt1, "b"), dt1 == DTYPE_BOOL)', 'implies(kind_is(dt2, "b"), dt2 == DTYPE_BOOL)',
    ],
    ensures=[
        'implies(dt1 == dt2, result == dt1)',
        'implies(kind_is(dt1, "O") or kind_is(dt2, "O"), result == DTYPE_OBJECT)',
        # strings, Booleans, dates and numbers are never cast into one another
        f'implies({_CLS}(dt1) != {_CLS}(dt2) and {_CLS}(dt1) <= 5 and {_CLS}(dt2) <= 5, result == DTYPE_OBJECT)',
        # within one class the NumPy common type is used (or object when NumPy has none)
        f'implies({_CLS}(dt1) == {_CLS}(dt2) and dt1 != dt2 and not kind_is(dt1, "O"), result == np_result_type(dt1, dt2) or result == DTYPE_OBJECT)',
        f'implies({_CLS}(dt1) == {_CLS}(dt2) and dt1 != dt2 and not kind_is(dt1, "O", "m"), result == np_result_type(dt1, dt2))',
    ])
