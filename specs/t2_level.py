"""C05: IndexLevel.dtype_per_depth -- the dtype of a depth of the label table is resolved over ALL index nodes at that depth (the per-depth arrays and the
label table are allocated with it: taking the dtype of one node truncates / casts the labels of the others).  Yield contract over opaque values:
the d-th yield is resolve_dtype_iter of dtypes_at_depth(d), for d = 0 .. depth-1, in order."""
from . import contract, RECORDS

LV = 'static_frame/core/index_level.py'
RECORDS['DpdLevel'] = {'lid': 'elem', 'depth': 'int'}
contract(LV, 'IndexLevel.dtype_per_depth',
    props=['C05', 'C07'],
    params=dict(self='DpdLevel'), order=['self'],
    is_generator=True, yield_sort='elem',
    requires=['self.depth >= 1'],
    calls={
        'self.dtypes_at_depth': dict(params=dict(d='int'), order=['d'], result='elem', ensures=['result == ufe("dtypes_at_depth", self.lid, d)']),
        # ASSUMED: resolve_dtype_iter folds resolve_dtype (proved) over every dtype the iterator yields
        # (not called by the function today: a dtype taken from ONE node of a depth is not the resolution over all of them)
        'next': dict(params=dict(it='elem'), order=['it'], result='elem', ensures=['result == ufe("first_of", it)']),
        'resolve_dtype_iter': dict(params=dict(it='elem'), order=['it'], result='elem', ensures=['result == ufe("resolved_over_all", it)']),
    },
    ghost_init=['j = 0'],
    concrete_inputs='specs.t2_level:concrete_inputs', witness_on_unknown=True, witness_always=True, requires_concrete=[], at_yield_concrete=['True'],
    at_exit_concrete=['ref_dtype_per_depth(self, yields)'],
    n_loops=1,
    loops={0: dict(index='t', locals=dict(j='int'), ghost_mods=['j'], invariant=['j == t'])},
    at_yield=['j < self.depth', 'result == ufe("resolved_over_all", ufe("dtypes_at_depth", self.lid, j))'],
    yield_update=['j = j + 1'],
    at_exit=['j == self.depth'])


def concrete_inputs(model):
    """label trees whose nodes at one depth differ in dtype (the first node the narrowest)"""
    import static_frame as sf
    out = []
    for labels in ([('a', 'x', 1), ('a', 'y', 2), ('b', 'long', 1), ('b', 'y', 1)], [('a', 1, 'p'), ('a', 2, 'q'), ('b', 2.5, 'p')], [('a', 1), ('b', 2)]):
        out.append(dict(self=sf.IndexHierarchy.from_labels(labels)._levels))
    return out
