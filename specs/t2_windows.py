"""C13: axis_window_items -- for each anchor the window is exactly the contiguous slice of the stated size, step and shift."""
from . import contract, RECORDS

CU = 'static_frame/core/container_util.py'
RECORDS['Labels'] = dict(_len='int')
RECORDS['Win'] = dict(lo='int', hi='int', other='int', ax='int')           # an extracted window: positions [lo, hi) on axis `ax`
RECORDS['WinSeries'] = dict(ndim='int', _index='Labels', values='elem')
RECORDS['WinBlocks'] = dict(values='elem')
RECORDS['WinFrame'] = dict(ndim='int', _index='Labels', _columns='Labels', _blocks='WinBlocks')

_N = 'cond(source.ndim == 1 or axis == 0, len(source._index), NCOLS)'


def _extract(n, ax, other):
    """ASSUMED contract of positional extraction with a step-less slice key [a, b) (a, b >= 0): the positions a..b-1 clipped to the axis"""
    return ['result.ax == ' + ax, 'result.other == ' + other,
            f'result.lo == cond(key.start < {n}, key.start, {n}) and result.hi == cond(key.stop < {n}, cond(key.stop > result.lo, key.stop, result.lo), {n})']


_KEYREQ = ['not is_none(key.start) and not is_none(key.stop) and is_none(key.step) and key.start >= 0 and key.stop >= 0']
_LEFT = 'idx_left'
contract(CU, 'axis_window_items',
    props=['C13'],
    params=dict(size='int', axis='int', step='int', window_sized='bool', window_func='opt[int]', window_valid='opt[int]',
                label_shift='int', start_shift='int', size_increment='int', as_array='bool'),
    order=['source', 'size', 'axis', 'step', 'window_sized', 'window_func', 'window_valid', 'label_shift', 'start_shift', 'size_increment', 'as_array'],
    variants=[dict(source='WinSeries'), dict(source='WinFrame')],
    rec_classes={'WinSeries': ['Series'], 'WinFrame': ['Frame'], 'Win': ['Series', 'Frame']},
    requires=['is_none(window_func) and is_none(window_valid)'],
    requires_variant={0: ['source.ndim == 1 and axis == 0 and source._index._len >= 0'],
                      1: ['source.ndim == 2 and (axis == 0 or axis == 1) and source._index._len >= 0 and source._columns._len >= 0']},
    is_generator=True, yield_sort='tuple[int,Win]',
    raises={'RuntimeError': 'size <= 0 or step < 0'},
    calls={
        'source._extract_iloc': dict(params=dict(key='slice'), order=['key'], result='Win', requires=_KEYREQ, ensures=_extract('source._index._len', '0', '0')),
        'values.__getitem__': dict(params=dict(key='slice'), order=['key'], result='Win', requires=_KEYREQ, ensures=_extract('source._index._len', '0', '0')),
        'source._extract_array': dict(params=dict(row_key='opt[slice]', column_key='opt[slice]'), order=['row_key', 'column_key'], defaults=dict(column_key='None'), result='Win',
            ensures=['implies(is_none(column_key), result.ax == 0 and result.lo == cond(row_key.start < source._index._len, row_key.start, source._index._len) and result.hi == cond(row_key.stop < source._index._len, cond(row_key.stop > result.lo, row_key.stop, result.lo), source._index._len))',
                     'implies(not is_none(column_key), result.ax == 1 and result.lo == cond(column_key.start < source._columns._len, column_key.start, source._columns._len) and result.hi == cond(column_key.stop < source._columns._len, cond(column_key.stop > result.lo, column_key.stop, result.lo), source._columns._len))']),
        'source._extract': dict(params=dict(row_key='opt[slice]', column_key='opt[slice]'), order=['row_key', 'column_key'], defaults=dict(row_key='None', column_key='None'), result='Win',
            ensures=['implies(is_none(column_key), result.ax == 0 and result.lo == cond(row_key.start < source._index._len, row_key.start, source._index._len) and result.hi == cond(row_key.stop < source._index._len, cond(row_key.stop > result.lo, row_key.stop, result.lo), source._index._len))',
                     'implies(not is_none(column_key), result.ax == 1 and result.lo == cond(column_key.start < source._columns._len, column_key.start, source._columns._len) and result.hi == cond(column_key.stop < source._columns._len, cond(column_key.stop > result.lo, column_key.stop, result.lo), source._columns._len))']),
        # labels.iloc[i] for i >= 0: the label at position i (identified with its position), IndexError beyond the end
        'labels.iloc.__getitem__': dict(params=dict(i='int'), order=['i'], result='int', raises={'IndexError': 'i >= len(labels) or i < -len(labels)'},
                                        ensures=['result == cond(i >= 0, i, i + len(labels))']),
        'window.shape.__getitem__': dict(params=dict(a='int'), order=['a'], result='int', requires=['a == window.ax'], ensures=['result == window.hi - window.lo']),
    },
    ghost_init=['size0 = size'],
    n_loops=1,
    loops={0: dict(locals=dict(idx_left='int', size='int', count='int'), invariant=[
        'count >= 0 and step >= 0',
        'idx_left == start_shift + count * step',            # anchor j sits at start_shift + j*step
        'size == size0 + count * size_increment',            # and has size size0 + j*size_increment
    ])},
    at_yield=[
        # the label is the one at the right edge of the window shifted by label_shift, and it exists
        'result[0] == idx_left + size - 1 + label_shift and 0 <= result[0] and result[0] < len(labels)',
        # the window is exactly the positions [max(left,0), max(left+size-1,-1)+1) that exist on the axis
        'result[1].lo == cond(cond(idx_left > 0, idx_left, 0) < len(labels), cond(idx_left > 0, idx_left, 0), len(labels))',
        'result[1].hi == cond(cond(idx_left + size - 1 > -1, idx_left + size, 0) < len(labels), cond(cond(idx_left + size - 1 > -1, idx_left + size, 0) > result[1].lo, cond(idx_left + size - 1 > -1, idx_left + size, 0), result[1].lo), len(labels))',
        'implies(window_sized, result[1].hi - result[1].lo == size)',
    ],
    at_exit=[],
    concrete_inputs='specs.t2_windows:concrete_inputs',
    requires_concrete=['size > 0 and step >= 0'],
    at_yield_concrete=[],
    at_exit_concrete=['windows_agree(observed_windows(yields, _n), ref_windows(_n, size, step, window_sized, label_shift, start_shift, size_increment))'])


def concrete_inputs(model):
    """counter-model -> a real Series of n rows (labels 100.., values 0..) and the keyword arguments of axis_window_items"""
    import static_frame as sf
    src = model.get('source') or {}
    n = src.get('_index', {}).get('_len', 0) if isinstance(src, dict) else 0
    n = max(0, min(int(n), 12))
    kw = {k: model[k] for k in ('size', 'axis', 'step', 'window_sized', 'label_shift', 'start_shift', 'size_increment') if k in model}
    kw['axis'] = 0
    return dict(source=sf.Series(range(n), index=range(100, 100 + n)), _n=n, as_array=False, window_func=None, window_valid=None, **kw)
