"""Sidecar contracts for /repo functions.  Bodies are never written here: the verified text is
always the FunctionDef found in /repo at run time."""
CONTRACTS = {}      # short key (name or Class.method) -> contract dict
RECORDS = {}


def contract(relpath, qualname, **kw):
    key = kw.pop('key', qualname)
    kw['relpath'], kw['qualname'] = relpath, qualname
    CONTRACTS[key] = kw
    return kw


def load_all():
    from . import t1_slices   # noqa
    return CONTRACTS, RECORDS
