"""Sidecar contracts for /repo functions.  Bodies are never written here: the verified text is
always the FunctionDef found in /repo at run time."""
CONTRACTS = {}      # short key (name or Class.method) -> contract dict
RECORDS = {}
PREDICATES = {}     # name -> (param names, expression): spec-level predicate macros


def predicate(name, params, body):
    PREDICATES[name] = (params, body)


def contract(relpath, qualname, **kw):
    key = kw.pop('key', qualname)
    kw['relpath'], kw['qualname'] = relpath, qualname
    CONTRACTS[key] = kw
    return kw


def load_all():
    from . import t1_slices, assumed_numpy, t2_arrays, t1_missing_windows, t2_equals, t2_bus, t3_growonly, t2_sort, t2_windows, t2_locmap, t3_splice, t2_setops, t2_align, t3_offsets, t3_indexgo, t2_reshape, t2_overlay, t2_select, t2_indexitems, t2_logical, t2_batch, t2_assign, t2_ihinit, t2_level, t2_frameassign, t2_indexmany   # noqa
    return CONTRACTS, RECORDS
