"""C05 / C02 / C09: IndexHierarchy.__init__ -- cache coherence of a constructed hierarchy.  An IndexHierarchy keeps a table of its labels (`_blocks`)
next to the label tree (`_levels`); the table may be stale only while `_recache` is set.  ube("coh", B, L) = "table B lists exactly the label tuples of
tree L".  Object invariant Coh(h): (h._blocks is None) => h._recache,  and  h._recache or coh(h._blocks, h._levels)  (a grown grow-only hierarchy keeps its
old, now stale, table while _recache is set).
Contract: a hierarchy built from a coherent hierarchy (however stale its cache is flagged) or from a tree with a table the caller vouches for is coherent.
ASSUMED (local models): TypeBlocks.copy keeps the content; IndexLevel.to_index_level keeps the tuples."""
from . import contract, RECORDS

IHP = 'static_frame/core/index_hierarchy.py'
RECORDS['IhObj'] = {'_blocks': 'opt[elem]', '_levels': 'elem', '_recache': 'bool', '_name': 'elem', 'name': 'elem', 'STATIC': 'bool'}
RECORDS['IhSelf'] = {'_blocks': 'opt[elem]', '_levels': 'elem', '_recache': 'bool', '_name': 'elem', 'STATIC': 'bool', '_LEVEL_CONSTRUCTOR': 'elem'}
RECORDS['IhLevel'] = {'lid': 'elem', 'STATIC': 'bool', 'depth': 'int'}

_COPY = dict(params={}, order=[], result='elem', ensures=['forall_elem(lambda L: ube("coh", result, L) == ube("coh", recv_, L))'])
_TO_LEVEL = dict(params=dict(cls='elem'), order=[], kwonly=['cls'], result='IhLevel',
                 ensures=['result.depth == recv_.depth', 'forall_elem(lambda B: ube("coh", B, result.lid) == ube("coh", B, recv_.lid))'])

# built from another IndexHierarchy (levels is an IndexHierarchy whose _levels is a tree record)
RECORDS['IhSrc'] = {'_blocks': 'opt[elem]', '_levels': 'IhLevel', '_recache': 'bool', 'name': 'elem'}
RECORDS['IhSelfL'] = {'_blocks': 'opt[elem]', '_levels': 'IhLevel', '_recache': 'bool', '_name': 'opt[elem]', 'STATIC': 'bool', '_LEVEL_CONSTRUCTOR': 'elem'}
contract(IHP, 'IndexHierarchy.__init__', key='IndexHierarchy.__init__[from-hierarchy]',
    props=['C05', 'C02', 'C09'],
    lenient=True, lenient_protect=['self', 'index_level'],
    params=dict(self='IhSelfL', levels='IhSrc', name='elem', blocks='opt[elem]', own_blocks='bool'), order=['self', 'levels'], kwonly=['name', 'blocks', 'own_blocks'],
    defaults=dict(blocks='None', own_blocks='False'),
    rec_classes={'IhSrc': ['IndexHierarchy']},
    modifies_self=True,
    result='none',
    requires=[
        # the source satisfies the object invariant
        # (a grow-only hierarchy keeps its old table while it is flagged stale: a table may be present although _recache is set)
        'implies(is_none(levels._blocks), levels._recache)',
        'implies(not levels._recache, ube("coh", levels._blocks, levels._levels.lid))',
        'levels._levels.depth >= 2',
    ],
    calls={
        'levels._blocks.copy': dict(params={}, order=[], result='elem', ensures=['forall_elem(lambda L: ube("coh", result, L) == ube("coh", levels._blocks, L))']),
        'index_level.to_index_level': dict(params=dict(cls='elem'), order=[], kwonly=['cls'], result='IhLevel',
                                           ensures=['result.depth == index_level.depth', 'forall_elem(lambda B: ube("coh", B, result.lid) == ube("coh", B, index_level.lid))']),
        'name_filter': dict(params=dict(n='elem'), order=['n'], result='elem', ensures=['True']),
    },
    free_conditions=['name is NAME_DEFAULT'],
    raises={'ErrorInitIndex': 'maybe', 'NotImplementedError': 'maybe'},
    concrete_inputs='specs.t2_ihinit:concrete_inputs', witness_on_unknown=True, requires_concrete=[], ensures_concrete=['ref_ih_coherent(self)'],
    ensures=[
        'self._recache == is_none(self._blocks)',
        'implies(not self._recache, ube("coh", self._blocks, self._levels.lid))',
        # the tree is the source's tree (or a copy holding the same tuples)
        'forall_elem(lambda B: ube("coh", B, self._levels.lid) == ube("coh", B, levels._levels.lid))',
    ])


# built from a label tree, optionally with a table the caller vouches for (own_blocks: taken as it is, otherwise copied)
contract(IHP, 'IndexHierarchy.__init__', key='IndexHierarchy.__init__[from-levels]',
    props=['C05', 'C02', 'C09'],
    lenient=True, lenient_protect=['self', 'index_level'],
    params=dict(self='IhSelfL', levels='IhLevel', name='elem', blocks='opt[elem]', own_blocks='bool'), order=['self', 'levels'], kwonly=['name', 'blocks', 'own_blocks'],
    defaults=dict(blocks='None', own_blocks='False'),
    rec_classes={'IhLevel': ['IndexLevel']},
    modifies_self=True,
    result='none',
    requires=['implies(not is_none(blocks), ube("coh", blocks, levels.lid))', 'levels.depth >= 2'],
    calls={
        'blocks.copy': dict(params={}, order=[], result='elem', ensures=['forall_elem(lambda L: ube("coh", result, L) == ube("coh", blocks, L))']),
        'index_level.to_index_level': dict(params=dict(cls='elem'), order=[], kwonly=['cls'], result='IhLevel',
                                           ensures=['result.depth == index_level.depth', 'forall_elem(lambda B: ube("coh", B, result.lid) == ube("coh", B, index_level.lid))']),
        'name_filter': dict(params=dict(n='elem'), order=['n'], result='elem', ensures=['True']),
    },
    free_conditions=['name is NAME_DEFAULT'],
    raises={'ErrorInitIndex': 'maybe', 'NotImplementedError': 'maybe'},
    ensures=[
        'self._recache == is_none(self._blocks)',
        'implies(not self._recache, ube("coh", self._blocks, self._levels.lid))',
        'is_none(self._blocks) == is_none(old(blocks))',
        'forall_elem(lambda B: ube("coh", B, self._levels.lid) == ube("coh", B, levels.lid))',
    ])


def concrete_inputs(model):
    """sources in the states the counter-model distinguishes: cache never built / built and current / built and then outgrown (stale table kept)"""
    import static_frame as sf
    out = []
    for target in (sf.IndexHierarchy, sf.IndexHierarchyGO):
        for state in ('cold', 'warm', 'stale'):
            go = sf.IndexHierarchyGO.from_labels([('a', 1), ('a', 2), ('b', 1)])
            if state != 'cold':
                go.values
            if state == 'stale':
                go.append(('b', 2))
            out.append(dict(self=target.__new__(target), levels=go))
        out.append(dict(self=target.__new__(target), levels=sf.IndexHierarchy.from_labels([('a', 1), ('b', 1)])))
    return out
