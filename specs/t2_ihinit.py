"""C05 / C02 / C09: IndexHierarchy.__init__ -- cache coherence of a constructed hierarchy.  An IndexHierarchy keeps a table of its labels (`_blocks`)
next to the label tree (`_levels`); the table may be stale only while `_recache` is set.  ube("coh", B, L) = "table B lists exactly the label tuples of
tree L".  Object invariant Coh(h): (h._blocks is None) => h._recache,  and  h._recache or coh(h._blocks, h._levels)  (a grown grow-only hierarchy keeps its
old, now stale, table while _recache is set).
Contract: a hierarchy built from a coherent hierarchy (however stale its cache is flagged) or from a tree with a table the caller vouches for is coherent.
ASSUMED (local models): TypeBlocks.copy keeps the content; IndexLevel.to_index_level keeps the tuples."""
from . import contract, RECORDS

IHP = 'static_frame/core/index_hierarchy.py'
RECORDS['IhObj'] = {'_blocks': 'opt[elem]', '_levels': 'elem', '_recache': 'bool', '_name': 'elem', 'name': 'elem', 'STATIC': 'bool'}
RECORDS['IhSelf'] = {'_blocks': 'opt[elem]', '_levels': 'elem', '_recache': 'bool', '_name': 'elem', 'STATIC': 'bool', '_LEVEL_CONSTRUCTOR': 'elem'}
RECORDS['IhLevel'] = {'lid': 'elem', 'STATIC': 'bool', 'depth': 'int'}

_COPY = dict(params={}, order=[], result='elem', ensures=['forall_elem(lambda L: ube("coh", result, L) == ube("coh", recv_, L))'])
_TO_LEVEL = dict(params=dict(cls='elem'), order=[], kwonly=['cls'], result='IhLevel',
                 ensures=['result.depth == recv_.depth', 'forall_elem(lambda B: ube("coh", B, result.lid) == ube("coh", B, recv_.lid))'])

# built from another IndexHierarchy (levels is an IndexHierarchy whose _levels is a tree record)
RECORDS['IhSrc'] = {'_blocks': 'opt[elem]', '_levels': 'IhLevel', '_recache': 'bool', 'name': 'elem'}
RECORDS['IhSelfL'] = {'_blocks': 'opt[elem]', '_levels': 'IhLevel', '_recache': 'bool', '_name': 'opt[elem]', 'STATIC': 'bool', '_LEVEL_CONSTRUCTOR': 'elem'}
contract(IHP, 'IndexHierarchy.__init__', key='IndexHierarchy.__init__[from-hierarchy]',
    props=['C05', 'C02', 'C09'],
    lenient=True, lenient_protect=['self', 'index_level'],
    params=dict(self='IhSelfL', levels='IhSrc', name='elem', blocks='opt[elem]', own_blocks='bool'), order=['self', 'levels'], kwonly=['name', 'blocks', 'own_blocks'],
    defaults=dict(blocks='None', own_blocks='False'),
    rec_classes={'IhSrc': ['IndexHierarchy']},
    modifies_self=True,
    result='none',
    requires=[
        # the source satisfies the object invariant
        # (a grow-only hierarchy keeps its old table while it is flagged stale: a table may be present although _recache is set)
        'implies(is_none(levels._blocks), levels._recache)',
        'implies(not levels._recache, ube("coh", levels._blocks, levels._levels.lid))',
        'levels._levels.depth >= 2',
    ],
    calls={
        'levels._blocks.copy': dict(params={}, order=[], result='elem', ensures=['forall_elem(lambda L: ube("coh", result, L) == ube("coh", levels._blocks, L))']),
        'index_level.to_index_level': dict(params=dict(cls='elem'), order=[], kwonly=['cls'], result='IhLevel',
                                           ensures=['result.depth == index_level.depth', 'forall_elem(lambda B: ube("coh", B, result.lid) == ube("coh", B, index_level.lid))']),
        'name_filter': dict(params=dict(n='elem'), order=['n'], result='elem', ensures=['True']),
    },
    free_conditions=['name is NAME_DEFAULT'],
    raises={'ErrorInitIndex': 'maybe', 'NotImplementedError': 'maybe'},
    concrete_inputs='specs.t2_ihinit:concrete_inputs', witness_on_unknown=True, witness_always=True, requires_concrete=[], ensures_concrete=['ref_ih_coherent(self)'],
    ensures=[
        'self._recache == is_none(self._blocks)',
        'implies(not self._recache, ube("coh", self._blocks, self._levels.lid))',
        # the tree is the source's tree (or a copy holding the same tuples)
        'forall_elem(lambda B: ube("coh", B, self._levels.lid) == ube("coh", B, levels._levels.lid))',
    ])


# built from a label tree, optionally with a table the caller vouches for (own_blocks: taken as it is, otherwise copied)
contract(IHP, 'IndexHierarchy.__init__', key='IndexHierarchy.__init__[from-levels]',
    props=['C05', 'C02', 'C09'],
    lenient=True, lenient_protect=['self', 'index_level'],
    params=dict(self='IhSelfL', levels='IhLevel', name='elem', blocks='opt[elem]', own_blocks='bool'), order=['self', 'levels'], kwonly=['name', 'blocks', 'own_blocks'],
    defaults=dict(blocks='None', own_blocks='False'),
    rec_classes={'IhLevel': ['IndexLevel']},
    modifies_self=True,
    result='none',
    requires=['implies(not is_none(blocks), ube("coh", blocks, levels.lid))', 'levels.depth >= 2'],
    calls={
        'blocks.copy': dict(params={}, order=[], result='elem', ensures=['forall_elem(lambda L: ube("coh", result, L) == ube("coh", blocks, L))']),
        'index_level.to_index_level': dict(params=dict(cls='elem'), order=[], kwonly=['cls'], result='IhLevel',
                                           ensures=['result.depth == index_level.depth', 'forall_elem(lambda B: ube("coh", B, result.lid) == ube("coh", B, index_level.lid))']),
        'name_filter': dict(params=dict(n='elem'), order=['n'], result='elem', ensures=['True']),
    },
    free_conditions=['name is NAME_DEFAULT'],
    raises={'ErrorInitIndex': 'maybe', 'NotImplementedError': 'maybe'},
    ensures=[
        'self._recache == is_none(self._blocks)',
        'implies(not self._recache, ube("coh", self._blocks, self._levels.lid))',
        'is_none(self._blocks) == is_none(old(blocks))',
        'forall_elem(lambda B: ube("coh", B, self._levels.lid) == ube("coh", B, levels.lid))',
    ])


# the refresh establishes coherence (ASSUMED: IndexLevel.to_type_blocks lists the tuples of the tree)
contract(IHP, 'IndexHierarchy._update_array_cache', key='IndexHierarchy._update_array_cache',
    props=['C05', 'C02'],
    params=dict(self='IhSelfL'), order=['self'], modifies_self=True, result='none',
    calls={'self._levels.to_type_blocks': dict(params={}, order=[], result='elem', ensures=['ube("coh", result, self._levels.lid)'])},
    ensures=['not self._recache and not is_none(self._blocks)', 'ube("coh", self._blocks, self._levels.lid)', 'self._levels == old(self._levels)'])

# growth flags the table stale (whatever the tree mutation did -- it may also raise, leaving the flag as it was)
for _m, _arg in (('append', 'value'), ('extend', 'other')):
    contract(IHP, f'IndexHierarchyGO.{_m}', key=f'IndexHierarchyGO.{_m}[stale-flag]',
        props=['C05', 'C02', 'C09'],
        params={'self': 'IhSelfL', _arg: ('elem' if _m == 'append' else 'IhSrc')}, order=['self', _arg], modifies_self=True, result='none',
        calls={f'self._levels.{_m}': dict(params={}, order=['v'], result='none', ensures=['True'], raises={'Exception': 'maybe'})},
        raises={'Exception': 'maybe'},
        ensures=['self._recache', 'self._blocks == old(self._blocks)'])


# copies: refreshed first, then handed to the constructor together with a copy of the table -- the constructor's precondition (the caller vouches that
# the table lists the tuples of the tree, see [from-levels]) is an obligation here
_CTOR = dict(params=dict(levels='IhLevel', name='opt[elem]', blocks='elem', own_blocks='bool'), order=[], kwonly=['levels', 'name', 'blocks', 'own_blocks'], result='IhSelfL',
             requires=['ube("coh", blocks, levels.lid)'],
             ensures=['not result._recache and not is_none(result._blocks)', 'ube("coh", result._blocks, result._levels.lid)',
                      'forall_elem(lambda B: ube("coh", B, result._levels.lid) == ube("coh", B, levels.lid))'])
for _cls in ('IndexHierarchy', 'IndexHierarchyGO'):
    contract(IHP, f'{_cls}.__copy__', key=f'{_cls}.__copy__',
        props=['C05', 'C02', 'C01'],
        params=dict(self='IhSelfL'), order=['self'], modifies_self=True, result='IhSelfL',
        call_alias={f'{_cls}._update_array_cache': 'IndexHierarchy._update_array_cache'},
        requires=['implies(is_none(self._blocks), self._recache)', 'implies(not self._recache, ube("coh", self._blocks, self._levels.lid))'],
        calls={
            'self._blocks.copy': dict(params={}, order=[], result='elem', ensures=['forall_elem(lambda L: ube("coh", result, L) == ube("coh", self._blocks, L))']),
            'self._levels.to_index_level': dict(params={}, order=[], result='IhLevel',
                                                ensures=['result.depth == self._levels.depth', 'forall_elem(lambda B: ube("coh", B, result.lid) == ube("coh", B, self._levels.lid))']),
            'self.__class__': _CTOR,
        },
        ensures=['not result._recache', 'ube("coh", result._blocks, result._levels.lid)',
                 'forall_elem(lambda B: ube("coh", B, result._levels.lid) == ube("coh", B, old(self._levels.lid)))',
                 # the receiver itself is left coherent and un-flagged
                 'not self._recache and ube("coh", self._blocks, self._levels.lid)'])


# positional selection / removal: made from a table that lists the tuples of the tree (refreshed first), with the receiver's name and level classes
RECORDS['IhDerived'] = {'table': 'elem', 'name': 'opt[elem]', 'ctors': 'elem'}
_FTB = dict(params=dict(tb='elem', name='opt[elem]', index_constructors='elem', own_blocks='bool'), order=['tb'], kwonly=['name', 'index_constructors', 'own_blocks'], result='IhDerived',
            ensures=['result.table == tb and result.name == name and result.ctors == index_constructors'])
_SEL_CALLS = {
    'isinstance': dict(params={}, order=['o', 't'], result='bool', ensures=['not result']),          # the key is not a single integer (that form returns one tuple)
    'self._levels.index_types': dict(params={}, order=[], result='elem', ensures=['result == ufe("index_types", self._levels.lid)']),
    'tuple': dict(params=dict(x='elem'), order=['x'], result='elem', ensures=['result == ufe("astuple", x)']),
    'self.__class__._from_type_blocks': _FTB,
}
_SEL_REQ = ['implies(is_none(self._blocks), self._recache)', 'implies(not self._recache, ube("coh", self._blocks, self._levels.lid))']
contract(IHP, 'IndexHierarchy._extract_iloc', key='IndexHierarchy._extract_iloc[selection]',
    props=['C05', 'C04', 'C02'],
    params=dict(self='IhSelfL', key='elem'), order=['self', 'key'], modifies_self=True, result='IhDerived',
    requires=_SEL_REQ,
    calls=dict(_SEL_CALLS, **{'self._blocks._extract': dict(params=dict(row_key='elem'), order=[], kwonly=['row_key'], result='elem', ensures=['result == ufe("take_rows", self._blocks, row_key)'])}),
    ensures=['not self._recache and ube("coh", self._blocks, self._levels.lid)',            # the table selected from lists the tuples of the tree
             'result.table == ufe("take_rows", self._blocks, key)',
             'result.name == self._name and result.ctors == ufe("astuple", ufe("index_types", self._levels.lid))',
             'self._levels == old(self._levels)'])
contract(IHP, 'IndexHierarchy._drop_iloc', key='IndexHierarchy._drop_iloc',
    props=['C05', 'C08', 'C02'],
    params=dict(self='IhSelfL', key='elem'), order=['self', 'key'], modifies_self=True, result='IhDerived',
    requires=_SEL_REQ,
    calls=dict(_SEL_CALLS, **{'self._blocks._drop_blocks': dict(params=dict(row_key='elem'), order=[], kwonly=['row_key'], result='elem', ensures=['result == ufe("drop_rows", self._blocks, row_key)']),
                              'TypeBlocks.from_blocks': dict(params=dict(raw='elem'), order=['raw'], result='elem', ensures=['result == raw'])}),
    ensures=['not self._recache and ube("coh", self._blocks, self._levels.lid)',
             'result.table == ufe("drop_rows", self._blocks, key)',
             'result.name == self._name and result.ctors == ufe("astuple", ufe("index_types", self._levels.lid))',
             'self._levels == old(self._levels)'])


# the array views are read off a table that lists the tuples of the tree (refreshed first when flagged stale)
contract(IHP, 'IndexHierarchy.values', key='IndexHierarchy.values',
    props=['C05', 'C02'],
    params=dict(self='IhSelfL'), order=['self'], modifies_self=True, result='elem',
    requires=_SEL_REQ,
    elem_attrs={'values': 'values_of'},
    concrete_inputs='specs.t2_ihinit:concrete_views', witness_on_unknown=True, witness_always=True, requires_concrete=[], ensures_concrete=['ref_ih_view(self, result)'],
    ensures=['not self._recache and ube("coh", self._blocks, self._levels.lid)', 'result == ufe("values_of", self._blocks)', 'self._levels == old(self._levels)'])
contract(IHP, 'IndexHierarchy.values_at_depth', key='IndexHierarchy.values_at_depth[int]',
    props=['C05', 'C02', 'C12'],
    params=dict(self='IhSelfL', depth_level='int'), order=['self', 'depth_level'], defaults=dict(depth_level='0'), modifies_self=True, result='elem',
    concrete_inputs='specs.t2_ihinit:concrete_views_depth', witness_on_unknown=True, witness_always=True, requires_concrete=[], ensures_concrete=['ref_ih_view(self, result, depth_level)'],
    requires=_SEL_REQ,
    calls={'isinstance': dict(params={}, order=['o', 't'], result='bool', ensures=['result']),
           'self._blocks._extract_array': dict(params=dict(column_key='int'), order=[], kwonly=['column_key'], result='elem', ensures=['result == ufe("column_of", self._blocks, column_key)'])},
    ensures=['not self._recache and ube("coh", self._blocks, self._levels.lid)', 'result == ufe("column_of", self._blocks, depth_level)', 'self._levels == old(self._levels)'])


def concrete_inputs(model):
    """sources in the states the counter-model distinguishes: cache never built / built and current / built and then outgrown (stale table kept)"""
    import static_frame as sf
    out = []
    for target in (sf.IndexHierarchy, sf.IndexHierarchyGO):
        for state in ('cold', 'warm', 'stale'):
            go = sf.IndexHierarchyGO.from_labels([('a', 1), ('a', 2), ('b', 1)])
            if state != 'cold':
                go.values
            if state == 'stale':
                go.append(('b', 2))
            out.append(dict(self=target.__new__(target), levels=go))
        out.append(dict(self=target.__new__(target), levels=sf.IndexHierarchy.from_labels([('a', 1), ('b', 1)])))
    return out


def _sources():
    import static_frame as sf
    for state in ('cold', 'warm', 'stale'):
        go = sf.IndexHierarchyGO.from_labels([('a', 1), ('a', 2), ('b', 1)])
        if state != 'cold':
            go.values
        if state == 'stale':
            go.append(('b', 2))
        yield go
    yield sf.IndexHierarchy.from_labels([('a', 1), ('b', 1)])


def concrete_views(model):
    return [dict(self=h) for h in _sources()]


def concrete_views_depth(model):
    return [dict(self=h, depth_level=d) for d in (0, 1) for h in _sources()]
