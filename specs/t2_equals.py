"""C10: TypeBlocks.equals against the content-equivalence predicate of the property.
Cell contents are ghost: ub('eq', a, b, r, c) = NumPy `==` of cell (r,c) of contents a and b,
ub('nan', a, r, c) = cell is NaN/NaT (isna with include_none=False), ub('b', x, r, c) = Boolean cell."""
from . import contract, predicate, RECORDS

TB = 'static_frame/core/type_blocks.py'
NP = '<numpy>'

RECORDS['carr'] = dict(ndim='int', rows='int', cols='int', cid='int', writeable='bool')
RECORDS['TypeBlocksC'] = dict(_blocks='list[carr]', _shape='tuple[int,int]', _dtypes='list[dtype]', cid='int', _offs='list[int]')

# a Boolean TypeBlocks produced by an operator: 2-D blocks tiling the columns, cells tied to the container's cells
predicate('BlocksWF', ['tb'], ' and '.join([
    'tb._shape[0] >= 0 and tb._shape[1] >= 0 and len(tb._offs) == len(tb._blocks) + 1 and at(tb._offs, 0) == 0 and at(tb._offs, len(tb._blocks)) == tb._shape[1]',
    'forall_in(0, len(tb._blocks), lambda k: at(tb._blocks, k).ndim == 2 and at(tb._blocks, k).rows == tb._shape[0] and at(tb._blocks, k).cols >= 1 and at(tb._offs, k + 1) == at(tb._offs, k) + at(tb._blocks, k).cols and at(tb._offs, k) >= 0)',
    'forall_in(0, len(tb._blocks) + 1, lambda k: 0 <= at(tb._offs, k) and at(tb._offs, k) <= tb._shape[1])',       # monotone-offset lemma (consequence of the line above)
    'forall_in(0, len(tb._blocks), lambda k: forall(lambda r, j: implies(0 <= r and r < tb._shape[0] and 0 <= j and j < at(tb._blocks, k).cols, ub("b", at(tb._blocks, k).cid, r, j) == ub("b", tb.cid, r, at(tb._offs, k) + j))))',
]))

_IN = '0 <= r and r < self._shape[0] and 0 <= c and c < self._shape[1]'

contract(TB, 'TypeBlocks.__eq__', key='TypeBlocksC.__eq__', assumed=True,      # operator application: proved separately? no: assumed, covered by bounded C10/C06 stand-ins
    params=dict(self='TypeBlocksC', other='TypeBlocksC'), order=['self', 'other'], result='TypeBlocksC',
    requires=['self._shape == other._shape'],
    ensures=['result._shape == self._shape', 'BlocksWF(result)',
             f'forall(lambda r, c: implies({_IN}, ub("b", result.cid, r, c) == ub("eq", self.cid, other.cid, r, c)))'])
contract(TB, 'TypeBlocks.isna', key='TypeBlocksC.isna', assumed=True,
    params=dict(self='TypeBlocksC', include_none='bool'), order=['self', 'include_none'], defaults=dict(include_none='True'), result='TypeBlocksC',
    ensures=['result._shape == self._shape',
             f'forall(lambda r, c: implies({_IN}, ub("b", result.cid, r, c) == ub("nan", self.cid, r, c)))'])
contract(TB, 'TypeBlocks.__and__', key='TypeBlocksC.__and__', assumed=True,
    params=dict(self='TypeBlocksC', other='TypeBlocksC'), order=['self', 'other'], result='TypeBlocksC',
    requires=['self._shape == other._shape'],
    ensures=['result._shape == self._shape',
             f'forall(lambda r, c: implies({_IN}, ub("b", result.cid, r, c) == (ub("b", self.cid, r, c) and ub("b", other.cid, r, c))))'])
contract(TB, 'TypeBlocks._extract_array', key='TypeBlocksC._extract_array', assumed=True,
    params=dict(self='TypeBlocksC', column_key='slice'), order=['self', 'row_key', 'column_key'], defaults=dict(row_key='None'), result='carr',
    requires=['not is_none(column_key.start) and not is_none(column_key.stop) and is_none(column_key.step)',
              '0 <= column_key.start and column_key.start <= column_key.stop and column_key.stop <= self._shape[1]'],
    ensures=['result.ndim == 2 and result.rows == self._shape[0] and result.cols == column_key.stop - column_key.start',
             'forall(lambda r, j: implies(0 <= r and r < self._shape[0] and 0 <= j and j < result.cols, ub("b", result.cid, r, j) == ub("b", self.cid, r, column_key.start + j)))'])
contract(NP, 'ndarray.__setitem__', key='carr.__setitem__', assumed=True,        # block[target] = True with a same-shape Boolean mask
    params=dict(self='carr', key='carr', value='bool'), order=['self', 'key', 'value'], result='none', modifies_self=True,
    requires=['self.writeable', 'value', 'key.ndim == self.ndim and key.rows == self.rows and key.cols == self.cols'],
    ensures=['self.ndim == old(self.ndim) and self.rows == old(self.rows) and self.cols == old(self.cols) and self.writeable',
             'forall(lambda r, j: implies(0 <= r and r < self.rows and 0 <= j and j < self.cols, ub("b", self.cid, r, j) == (ub("b", old(self.cid), r, j) or ub("b", key.cid, r, j))))'])
contract(NP, 'ndarray.all', key='carr.all', assumed=True,
    params=dict(self='carr'), order=['self'], result='bool',
    ensures=['result == forall(lambda r, j: implies(0 <= r and r < self.rows and 0 <= j and j < self.cols, ub("b", self.cid, r, j)))'])

_CONTENT = f'forall(lambda r, c: implies({_IN}, ub("eq", self.cid, other.cid, r, c) or (skipna and ub("nan", self.cid, r, c) and ub("nan", other.cid, r, c))))'
contract(TB, 'TypeBlocks.equals',
    props=['C10'],
    params=dict(self='TypeBlocksC', other='TypeBlocksC', compare_dtype='bool', compare_class='bool', skipna='bool'),
    order=['self', 'other', 'compare_dtype', 'compare_class', 'skipna'],
    rec_classes={'TypeBlocksC': ['TypeBlocks']},
    result='bool',
    requires=['self._shape[0] >= 0 and self._shape[1] >= 0 and other._shape[0] >= 0 and other._shape[1] >= 0',
              # NumPy fact: a missing cell compares unequal to everything (NaN != x, NaT != x)
              'forall(lambda r, c: implies(ub("nan", self.cid, r, c) or ub("nan", other.cid, r, c), not ub("eq", self.cid, other.cid, r, c)))'],
    n_loops=1,
    loops={0: dict(index='t', locals=dict(start='int', end='int', isna_both='TypeBlocksC', target='carr'),
                   invariant=[
        'implies(skipna, start == at(eq._offs, t) and isna_both._shape == self._shape)',
        # every cell of the blocks already visited is equal, or missing on both sides when skipna
        f'forall(lambda r, c: implies(0 <= r and r < self._shape[0] and 0 <= c and c < at(eq._offs, t), ub("b", eq.cid, r, c) or (skipna and ub("b", isna_both.cid, r, c))))',
    ])},
    # from the property: true exactly when same shape, (dtypes when asked) and pairwise equal values, where two missing
    # values at the same position count as equal only when skipna is requested; the same object is equal to itself
    model_hook='specs.t2_equals:model_hook', concrete_inputs='specs.t2_equals:concrete_inputs',
    requires_concrete=[],
    ensures_concrete=['result == ref_tb_equals(self, other, compare_dtype, skipna)'],
    ensures=[
        'implies(self.cid == other.cid, result)',
        f'implies(self.cid != other.cid, result == (self._shape == other._shape and implies(compare_dtype, self._dtypes == other._dtypes) and {_CONTENT}))',
    ])


# ---- counter-model -> real inputs (cell predicates are uninterpreted in the model) ----------------------
def model_hook(m, params):
    import z3
    s, o = params['self'], params['other']

    def ev(t):
        return m.eval(t, model_completion=True)
    rows = min(max(ev(s.fields['_shape'].items[0].t).as_long(), 0), 4)
    cols = min(max(ev(s.fields['_shape'].items[1].t).as_long(), 0), 4)
    feq = z3.Function('ub_eq', *([z3.IntSort()] * 4 + [z3.BoolSort()]))
    fnan = z3.Function('ub_nan', *([z3.IntSort()] * 3 + [z3.BoolSort()]))
    sc, oc = s.fields['cid'].t, o.fields['cid'].t
    cells = [[[z3.is_true(ev(feq(sc, oc, r, c))), z3.is_true(ev(fnan(sc, r, c))), z3.is_true(ev(fnan(oc, r, c)))] for c in range(cols)] for r in range(rows)]
    return dict(rows=rows, cols=cols, cells=cells)


def concrete_inputs(model):
    import numpy as np
    from static_frame.core.type_blocks import TypeBlocks
    h = model['__hook']
    rows, cols = h['rows'], h['cols']
    a = np.ones((rows, cols), dtype=float)
    b = np.ones((rows, cols), dtype=float)
    for r in range(rows):
        for c in range(cols):
            eq, ns, no = h['cells'][r][c]
            if ns:
                a[r, c] = np.nan
            if no:
                b[r, c] = np.nan
            elif not eq:
                b[r, c] = 2.0
    opts = dict(compare_dtype=bool(model.get('compare_dtype')), compare_class=bool(model.get('compare_class')), skipna=bool(model.get('skipna')))
    # the ghost cell contents do not fix a block layout: try the single 2-D block, all 1-D blocks, and every split into two 2-D blocks
    def split(x, cut):
        parts = [x[:, :cut], x[:, cut:]]
        return [p_ for p_ in parts if p_.shape[1]]
    cands = [dict(self=TypeBlocks.from_blocks(a), other=TypeBlocks.from_blocks(b), **opts)]
    if cols > 1:
        cands.append(dict(self=TypeBlocks.from_blocks([a[:, j] for j in range(cols)]), other=TypeBlocks.from_blocks([b[:, j] for j in range(cols)]), **opts))
        for cut in range(1, cols):
            cands.append(dict(self=TypeBlocks.from_blocks(split(a, cut)), other=TypeBlocks.from_blocks(split(b, cut)), **opts))
    return cands


# =============================================================================================
# C10 / C06: Index.equals against the content predicate of the property, over ghost label cells:
#   ub("ieq", a, b, i) = NumPy `==` of label i of arrays a and b;  ub("inan", a, i) = label i of a is NaN / NaT (isna, include_none=False)
#   ub("ib", m, i) = cell i of the Boolean array m.
IX = 'static_frame/core/index.py'
RECORDS['EqArr'] = dict(aid='int', n='int', dtype='dtype')
RECORDS['EqCmp'] = dict(cid='int', n='int', is_false='bool', writeable='bool')     # what `a == b` returns: the scalar False, or a Boolean array
RECORDS['EqIndex'] = {'iid': 'int', 'name': 'elem', 'dtype': 'dtype', '__class__': 'elem', 'values': 'EqArr', '_recache': 'bool', '_map': 'opt[elem]',
                      '_labels': 'EqArr', '_positions': 'elem'}

contract(NP, 'ndarray.__eq__', key='EqArr.__eq__', assumed=True,
    params=dict(self='EqArr', other='EqArr'), order=['self', 'other'], result='EqCmp',
    requires=['self.n == other.n'],
    # ASSUMED NumPy (>= 2) contract: two 1-D arrays of one length always compare cell by cell into a new Boolean array (the legacy scalar False for
    # incomparable dtypes is gone; the function's `eq is False` branch is therefore dead under this assumption and listed as such)
    ensures=['result.n == self.n and result.writeable and not result.is_false',
             'forall_in(0, self.n, lambda i: ub("ib", result.cid, i) == ub("ieq", self.aid, other.aid, i))'])
contract(NP, 'ndarray.__and__', key='EqCmp.__and__', assumed=True,
    params=dict(self='EqCmp', other='EqCmp'), order=['self', 'other'], result='EqCmp',
    requires=['self.n == other.n and not self.is_false and not other.is_false'],
    ensures=['result.n == self.n and not result.is_false',
             'forall_in(0, self.n, lambda i: ub("ib", result.cid, i) == (ub("ib", self.cid, i) and ub("ib", other.cid, i)))'])
contract(NP, 'ndarray.__setitem__', key='EqCmp.__setitem__', assumed=True,
    params=dict(self='EqCmp', key='EqCmp', value='bool'), order=['self', 'key', 'value'], result='none', modifies_self=True,
    requires=['self.writeable and not self.is_false and not key.is_false', 'value', 'key.n == self.n'],
    ensures=['self.n == old(self.n) and not self.is_false and self.writeable',
             'forall_in(0, self.n, lambda i: ub("ib", self.cid, i) == (ub("ib", old(self.cid), i) or ub("ib", key.cid, i)))'])
contract(NP, 'ndarray.all', key='EqCmp.all', assumed=True,
    params=dict(self='EqCmp'), order=['self'], result='bool',
    requires=['not self.is_false'],
    ensures=['result == forall_in(0, self.n, lambda i: ub("ib", self.cid, i))'])

_ICONTENT = 'forall_in(0, self.values.n, lambda i: ub("ieq", self.values.aid, other.values.aid, i) or (skipna and ub("inan", self.values.aid, i) and ub("inan", other.values.aid, i)))'
contract(IX, 'Index.equals', key='EqIndex.equals',
    props=['C10', 'C06'],
    params=dict(self='EqIndex', other='EqIndex', compare_name='bool', compare_dtype='bool', compare_class='bool', skipna='bool'),
    order=['self', 'other'], kwonly=['compare_name', 'compare_dtype', 'compare_class', 'skipna'],
    defaults=dict(compare_name='False', compare_dtype='False', compare_class='False', skipna='True'),
    result='bool',
    requires=[
        'self.values.n >= 0 and other.values.n >= 0',
        # the label cache is up to date (refreshing it is the first thing the function does; the refresh itself is not modelled)
        'not self._recache',
        # one object has one identity; different objects hold different label arrays
        'implies(self.iid == other.iid, self.values.aid == other.values.aid)',
        # NumPy fact: a missing label compares unequal to everything (NaN != x, NaT != x)
        'forall(lambda i: implies(ub("inan", self.values.aid, i) or ub("inan", other.values.aid, i), not ub("ieq", self.values.aid, other.values.aid, i)))',
    ],
    calls={
        'id': dict(params=dict(o='EqIndex'), order=['o'], result='int', ensures=['result == o.iid']),
        'isinstance': dict(params={}, order=['o', 't'], result='bool', ensures=['result']),       # `other` is an Index here (sort of the parameter)
        'len': dict(params=dict(o='EqIndex'), order=['o'], result='int', ensures=['result == o.values.n']),
        'self._update_array_cache': dict(params={}, order=[], result='none', ensures=['True']),
        # ASSUMED: isna_array(a, include_none=False) marks exactly the NaN / NaT cells
        'isna_array': dict(params=dict(a='EqArr', include_none='bool'), order=['a'], kwonly=['include_none'], result='EqCmp',
                           ensures=['result.n == a.n and not result.is_false', 'forall_in(0, a.n, lambda i: ub("ib", result.cid, i) == ub("inan", a.aid, i))']),
    },
    model_hook='specs.t2_equals:index_model_hook', concrete_inputs='specs.t2_equals:index_concrete_inputs',
    requires_concrete=[],
    ensures_concrete=['result == ref_index_equals(self, other, compare_name, compare_dtype, compare_class, skipna)'],
    ensures=[
        # from the property: the same object is equal to itself; otherwise true exactly when same length, the requested extras, and pairwise equal labels
        # where two missing labels at one position count as equal only under skipna
        'implies(self.iid == other.iid, result)',
        ('implies(self.iid != other.iid, result == (implies(compare_class, self.__class__ == other.__class__) and self.values.n == other.values.n and '
         'implies(compare_name, self.name == other.name) and implies(compare_dtype, self.dtype == other.dtype) and ' + _ICONTENT + '))'),
    ])


# Series.equals: the same predicate over the values, conjoined with Index.equals of the two indices under the SAME options (modular: the
# callee is the proved contract above)
SER = 'static_frame/core/series.py'
RECORDS['EqSeries'] = {'sid': 'int', '_name': 'elem', '__class__': 'elem', 'values': 'EqArr', '_index': 'EqIndex'}
_SCONTENT = 'forall_in(0, self.values.n, lambda i: ub("ieq", self.values.aid, other.values.aid, i) or (skipna and ub("inan", self.values.aid, i) and ub("inan", other.values.aid, i)))'
_IXC = _ICONTENT.replace('self.values', 'self._index.values').replace('other.values', 'other._index.values')
contract(SER, 'Series.equals', key='EqSeries.equals',
    props=['C10'],
    params=dict(self='EqSeries', other='EqSeries', compare_name='bool', compare_dtype='bool', compare_class='bool', skipna='bool'),
    order=['self', 'other'], kwonly=['compare_name', 'compare_dtype', 'compare_class', 'skipna'],
    defaults=dict(compare_name='False', compare_dtype='False', compare_class='False', skipna='True'),
    result='bool',
    requires=[
        'self.values.n >= 0 and other.values.n >= 0 and self._index.values.n >= 0 and other._index.values.n >= 0',
        'not self._index._recache',
        'implies(self.sid == other.sid, self.values.aid == other.values.aid)',
        'implies(self._index.iid == other._index.iid, self._index.values.aid == other._index.values.aid)',
        'forall(lambda i: implies(ub("inan", self.values.aid, i) or ub("inan", other.values.aid, i), not ub("ieq", self.values.aid, other.values.aid, i)))',
        'forall(lambda i: implies(ub("inan", self._index.values.aid, i) or ub("inan", other._index.values.aid, i), not ub("ieq", self._index.values.aid, other._index.values.aid, i)))',
    ],
    calls={
        'id': dict(params=dict(o='EqSeries'), order=['o'], result='int', ensures=['result == o.sid']),
        'isinstance': dict(params={}, order=['o', 't'], result='bool', ensures=['result']),
        'len': dict(params=dict(o='EqArr'), order=['o'], result='int', ensures=['result == o.n']),
        'isna_array': dict(params=dict(a='EqArr', include_none='bool'), order=['a'], kwonly=['include_none'], result='EqCmp',
                           ensures=['result.n == a.n and not result.is_false', 'forall_in(0, a.n, lambda i: ub("ib", result.cid, i) == ub("inan", a.aid, i))']),
    },
    model_hook='specs.t2_equals:series_model_hook', concrete_inputs='specs.t2_equals:series_concrete_inputs', witness_always=True,
    requires_concrete=[],
    ensures_concrete=['result == ref_series_equals(self, other, compare_name, compare_dtype, compare_class, skipna)'],
    ensures=[
        'implies(self.sid == other.sid, result)',
        ('implies(self.sid != other.sid, result == (implies(compare_class, self.__class__ == other.__class__) and self.values.n == other.values.n and '
         'implies(compare_name, self._name == other._name) and implies(compare_dtype, self.values.dtype == other.values.dtype) and ' + _SCONTENT + ' and '
         # ... and the indices are equal under the same options
         '(self._index.iid == other._index.iid or (implies(compare_class, self._index.__class__ == other._index.__class__) and self._index.values.n == other._index.values.n and '
         'implies(compare_name, self._index.name == other._index.name) and implies(compare_dtype, self._index.dtype == other._index.dtype) and ' + _IXC + '))))'),
    ])


# Frame.equals: shape, (name), TypeBlocks.equals of the block stores, Index.equals of both axes -- all under the SAME options (modular: the three
# callees are the proved contracts above)
FR = 'static_frame/core/frame.py'
RECORDS['EqFrame'] = {'fid': 'int', '_name': 'elem', '__class__': 'elem', '_blocks': 'TypeBlocksC', '_index': 'EqIndex', '_columns': 'EqIndex'}
_INB = '0 <= r and r < self._blocks._shape[0] and 0 <= c and c < self._blocks._shape[1]'
_BCONTENT = (f'forall(lambda r, c: implies({_INB}, ub("eq", self._blocks.cid, other._blocks.cid, r, c) or '
             '(skipna and ub("nan", self._blocks.cid, r, c) and ub("nan", other._blocks.cid, r, c))))')


def _ix_pred(ax):
    return ('(self.{ax}.iid == other.{ax}.iid or (implies(compare_class, self.{ax}.__class__ == other.{ax}.__class__) and self.{ax}.values.n == other.{ax}.values.n and '
            'implies(compare_name, self.{ax}.name == other.{ax}.name) and implies(compare_dtype, self.{ax}.dtype == other.{ax}.dtype) and '
            + _ICONTENT.replace('self.values', 'self.{ax}.values').replace('other.values', 'other.{ax}.values') + '))').format(ax=ax)


def _ix_req(ax):
    return ['self.{ax}.values.n >= 0 and other.{ax}.values.n >= 0 and not self.{ax}._recache'.format(ax=ax),
            'implies(self.{ax}.iid == other.{ax}.iid, self.{ax}.values.aid == other.{ax}.values.aid)'.format(ax=ax),
            'forall(lambda i: implies(ub("inan", self.{ax}.values.aid, i) or ub("inan", other.{ax}.values.aid, i), not ub("ieq", self.{ax}.values.aid, other.{ax}.values.aid, i)))'.format(ax=ax)]


contract(FR, 'Frame.equals', key='EqFrame.equals',
    props=['C10'],
    params=dict(self='EqFrame', other='EqFrame', compare_name='bool', compare_dtype='bool', compare_class='bool', skipna='bool'),
    order=['self', 'other'], kwonly=['compare_name', 'compare_dtype', 'compare_class', 'skipna'],
    defaults=dict(compare_name='False', compare_dtype='False', compare_class='False', skipna='True'),
    result='bool',
    call_alias={'TypeBlocksC.equals': 'TypeBlocks.equals'},
    concrete_inputs='specs.t2_equals:frame_concrete_inputs', witness_on_unknown=True, witness_always=True, requires_concrete=[],
    ensures_concrete=['result == ref_frame_equals(self, other, compare_name, compare_dtype, compare_class, skipna)'],
    attr_alias={'TypeBlocksC.shape': '_shape',           # ASSUMED: the property TypeBlocks.shape returns the field _shape
                'TypeBlocksC.size': 'it._shape[0] * it._shape[1]'},      # ... and TypeBlocks.size the number of cells
    requires=[
        'self._blocks._shape[0] >= 0 and self._blocks._shape[1] >= 0 and other._blocks._shape[0] >= 0 and other._blocks._shape[1] >= 0',
        'forall(lambda r, c: implies(ub("nan", self._blocks.cid, r, c) or ub("nan", other._blocks.cid, r, c), not ub("eq", self._blocks.cid, other._blocks.cid, r, c)))',
    ] + _ix_req('_index') + _ix_req('_columns'),
    calls={
        'id': dict(params=dict(o='EqFrame'), order=['o'], result='int', ensures=['result == o.fid']),
        'isinstance': dict(params={}, order=['o', 't'], result='bool', ensures=['result']),
    },
    ensures=[
        'implies(self.fid == other.fid, result)',
        ('implies(self.fid != other.fid, result == (implies(compare_class, self.__class__ == other.__class__) and self._blocks._shape == other._blocks._shape and '
         'implies(compare_name, self._name == other._name) and '
         '(self._blocks.cid == other._blocks.cid or (implies(compare_dtype, self._blocks._dtypes == other._blocks._dtypes) and ' + _BCONTENT + ')) and '
         + _ix_pred('_index') + ' and ' + _ix_pred('_columns') + '))'),
    ])


# IndexHierarchy.equals: same object => true; else class (when asked), shape, name (when asked) and the level trees equal under THE SAME options
# (routing contract: IndexLevel.equals -- a recursive walk of the label tree -- is ASSUMED to decide, for two trees, content equality with / without
# skipna and, per option, equality of the names / dtypes / classes of the composed indices; which of these it is asked for is what is proved here)
IHP = 'static_frame/core/index_hierarchy.py'
RECORDS['EqIH'] = {'hid': 'int', 'name': 'elem', '__class__': 'elem', 'shape': 'tuple[int,int]', '_levels': 'elem'}
_LV = ('(cond(skipna, ube("lv_content_skipna", self._levels, other._levels), ube("lv_content", self._levels, other._levels)) and '
       'implies(compare_name, ube("lv_names", self._levels, other._levels)) and implies(compare_dtype, ube("lv_dtypes", self._levels, other._levels)) and '
       'implies(compare_class, ube("lv_classes", self._levels, other._levels)))')
contract(IHP, 'IndexHierarchy.equals', key='EqIH.equals',
    props=['C10'],
    params=dict(self='EqIH', other='EqIH', compare_name='bool', compare_dtype='bool', compare_class='bool', skipna='bool'),
    order=['self', 'other'], kwonly=['compare_name', 'compare_dtype', 'compare_class', 'skipna'],
    defaults=dict(compare_name='False', compare_dtype='False', compare_class='False', skipna='True'),
    result='bool',
    calls={
        'id': dict(params=dict(o='EqIH'), order=['o'], result='int', ensures=['result == o.hid']),
        'isinstance': dict(params={}, order=['o', 't'], result='bool', ensures=['result']),
        'self._levels.equals': dict(params=dict(o='elem', compare_name='bool', compare_dtype='bool', compare_class='bool', skipna='bool'), order=['o'],
                                    kwonly=['compare_name', 'compare_dtype', 'compare_class', 'skipna'], result='bool',
                                    ensures=['result == ' + _LV.replace('other._levels', 'o')]),
    },
    ensures=[
        'implies(self.hid == other.hid, result)',
        'implies(self.hid != other.hid, result == (implies(compare_class, self.__class__ == other.__class__) and self.shape == other.shape and implies(compare_name, self.name == other.name) and ' + _LV + '))',
    ])


def index_model_hook(m, params):
    import z3
    s, o = params['self'], params['other']

    def ev(t):
        return m.eval(t, model_completion=True)
    sv, ov = s.fields['values'], o.fields['values']
    n = min(max(ev(sv.fields['n'].t).as_long(), 0), 4)
    n2 = min(max(ev(ov.fields['n'].t).as_long(), 0), 4)
    feq = z3.Function('ub_ieq', *([z3.IntSort()] * 3 + [z3.BoolSort()]))
    fnan = z3.Function('ub_inan', *([z3.IntSort()] * 2 + [z3.BoolSort()]))
    sa, oa = sv.fields['aid'].t, ov.fields['aid'].t
    cells = [[z3.is_true(ev(feq(sa, oa, i))), z3.is_true(ev(fnan(sa, i))), z3.is_true(ev(fnan(oa, i)))] for i in range(min(n, n2))]
    same = lambda f: z3.is_true(ev(s.fields[f].t == o.fields[f].t))
    nomap = lambda r: z3.is_true(ev(r.fields['_map'].isnone))
    return dict(n=n, n2=n2, cells=cells, same_name=same('name'), same_dtype=same('dtype'), same_class=same('__class__'), same_object=same('iid'),
                nomap=[nomap(s), nomap(o)])


def index_concrete_inputs(model):
    """real Index pairs for one counter-model: explicit float labels with the cell pattern of the model, and (when the model leaves both label maps
    absent) auto-generated positional indices; names / dtypes / classes differ where the model says so"""
    import numpy as np
    import static_frame as sf
    from static_frame.core.util import PositionsAllocator
    h = model['__hook']
    opts = dict(compare_name=bool(model.get('compare_name')), compare_dtype=bool(model.get('compare_dtype')), compare_class=bool(model.get('compare_class')),
                skipna=bool(model.get('skipna', True)))
    n, n2 = h['n'], h['n2']
    a = np.arange(1, n + 1, dtype=np.float64)
    b = np.arange(1, n2 + 1, dtype=np.float64)
    for i, (eq, ns, no) in enumerate(h['cells']):
        if ns:
            a[i] = np.nan
        if no:
            b[i] = np.nan
        elif not eq:
            b[i] = a[i] + 100 if not ns else 100.0 + i
    name_b = 'n' if h['same_name'] else 'other'
    cls_b = sf.Index if h['same_class'] else sf.IndexGO
    cands = []
    ia = sf.Index(a, name='n')
    if h['same_object']:
        return [dict(self=ia, other=ia, **opts)]
    cands.append(dict(self=ia, other=cls_b(b if h['same_dtype'] else b.astype(object), name=name_b), **opts))
    if all(h['nomap']) or True:
        # positional (auto-generated) indices: labels are the positions
        pa = sf.Index(PositionsAllocator.get(n), loc_is_iloc=True, name='n')
        pb = cls_b(PositionsAllocator.get(n2), loc_is_iloc=True, name=name_b)
        cands.append(dict(self=pa, other=pb, **opts))
        # the same kind of pair differing in ONE aspect, compared with exactly that option on (the model leaves names / classes opaque)
        m_ = max(n, 1)
        pa = sf.Index(PositionsAllocator.get(m_), loc_is_iloc=True, name='n')
        for other, on in ((sf.Index(PositionsAllocator.get(m_), loc_is_iloc=True, name='other'), 'compare_name'),
                          (sf.IndexGO(PositionsAllocator.get(m_), loc_is_iloc=True, name='n'), 'compare_class'),
                          (sf.Index(np.arange(m_, dtype=np.int32), name='n'), 'compare_dtype')):
            cands.append(dict(self=pa, other=other, **dict(dict(compare_name=False, compare_dtype=False, compare_class=False, skipna=opts['skipna']), **{on: True})))
    return cands


def _cells_of(m, sv, ov, cap=4):
    import z3

    def ev(t):
        return m.eval(t, model_completion=True)
    n = min(max(ev(sv.fields['n'].t).as_long(), 0), cap)
    n2 = min(max(ev(ov.fields['n'].t).as_long(), 0), cap)
    feq = z3.Function('ub_ieq', *([z3.IntSort()] * 3 + [z3.BoolSort()]))
    fnan = z3.Function('ub_inan', *([z3.IntSort()] * 2 + [z3.BoolSort()]))
    sa, oa = sv.fields['aid'].t, ov.fields['aid'].t
    return n, n2, [[z3.is_true(ev(feq(sa, oa, i))), z3.is_true(ev(fnan(sa, i))), z3.is_true(ev(fnan(oa, i)))] for i in range(min(n, n2))]


def _float_pair(n, n2, cells):
    import numpy as np
    a = np.arange(1, n + 1, dtype=np.float64)
    b = np.arange(1, n2 + 1, dtype=np.float64)
    for i, (eq, ns, no) in enumerate(cells):
        if ns:
            a[i] = np.nan
        if no:
            b[i] = np.nan
        elif not eq:
            b[i] = a[i] + 100 if not ns else 100.0 + i
    return a, b


def series_model_hook(m, params):
    import z3
    s, o = params['self'], params['other']
    same = lambda x, y: z3.is_true(m.eval(x.t == y.t, model_completion=True))
    n, n2, cells = _cells_of(m, s.fields['values'], o.fields['values'])
    si, oi = s.fields['_index'], o.fields['_index']
    k, k2, icells = _cells_of(m, si.fields['values'], oi.fields['values'])
    return dict(n=n, n2=n2, cells=cells, k=k, k2=k2, icells=icells,
                same_name=same(s.fields['_name'], o.fields['_name']), same_class=same(s.fields['__class__'], o.fields['__class__']), same_object=same(s.fields['sid'], o.fields['sid']),
                same_dtype=same(s.fields['values'].fields['dtype'], o.fields['values'].fields['dtype']),
                ix_same_name=same(si.fields['name'], oi.fields['name']), ix_same_class=same(si.fields['__class__'], oi.fields['__class__']),
                ix_same_dtype=same(si.fields['dtype'], oi.fields['dtype']), ix_same_object=same(si.fields['iid'], oi.fields['iid']))


def _series_witnesses():
    """model-independent witness pairs for Series.equals: derived from one another so that arrays / index objects are SHARED, differing in one aspect"""
    import numpy as np
    import static_frame as sf
    s = sf.Series((1.0, np.nan, 3.0), index=('a', 'b', 'c'), name='x')
    pairs = [(s, s.rename('y')), (s, s.rename('x')), (s, s.to_series_he()), (s, s.rename(index='i')), (s, s.relabel(('a', 'b', 'd'))), (s, s.astype(object)),
             (s, sf.Series((1.0, np.nan, 3.0), index=('a', 'b', 'c'), name='y')), (s, s.assign.loc['a'](9.0)), (s, s.assign.loc['b'](2.0))]
    opts = [dict(compare_name=False, compare_dtype=False, compare_class=False, skipna=True), dict(compare_name=True, compare_dtype=False, compare_class=False, skipna=True),
            dict(compare_name=False, compare_dtype=True, compare_class=False, skipna=True), dict(compare_name=False, compare_dtype=False, compare_class=True, skipna=True),
            dict(compare_name=False, compare_dtype=False, compare_class=False, skipna=False)]
    out = []
    for a, b in pairs:
        for o in opts:
            out.append(dict(self=a, other=b, **o))
            out.append(dict(self=b, other=a, **o))
    return out


def series_concrete_inputs(model):
    import numpy as np
    import static_frame as sf
    if '__hook' not in model:
        return _series_witnesses()
    h = model['__hook']
    opts = dict(compare_name=bool(model.get('compare_name')), compare_dtype=bool(model.get('compare_dtype')), compare_class=bool(model.get('compare_class')),
                skipna=bool(model.get('skipna', True)))
    # a Series holds as many values as labels: take the value length for both (the index cells beyond it are dropped, missing ones are distinct fresh labels)
    va, vb = _float_pair(h['n'], h['n2'], h['cells'])
    ia, ib = _float_pair(len(va), len(vb), h['icells'][:min(len(va), len(vb))])
    # labels must be unique within an index: NaN at most once is fine for float labels; make the non-missing labels distinct
    def uniq(x, base):
        seen, out = set(), x.copy()
        for i, v in enumerate(out):
            if v == v and v in seen:
                out[i] = base + i
            seen.add(out[i])
        return out
    ia, ib = uniq(ia, 1000.0), uniq(ib, 2000.0)
    if np.isnan(ia).sum() > 1 or np.isnan(ib).sum() > 1:
        return []
    ixa = sf.Index(ia, name='i')
    if h['ix_same_object'] and len(ia) == len(ib):
        ixb = ixa
    else:
        ixb = (sf.Index if h['ix_same_class'] else sf.IndexDate)(ib if h['ix_same_dtype'] else ib.astype(object), name='i' if h['ix_same_name'] else 'j') if h['ix_same_class'] else sf.Index(ib, name='i' if h['ix_same_name'] else 'j')
    sa = sf.Series(va, index=ixa, name='n')
    if h['same_object']:
        return [dict(self=sa, other=sa, **opts)]
    cls_b = sf.Series if h['same_class'] else sf.SeriesHE
    sb = cls_b(vb if h['same_dtype'] else vb.astype(object), index=ixb, name='n' if h['same_name'] else 'other')
    return [dict(self=sa, other=sb, **opts)] + _series_witnesses()


def frame_concrete_inputs(model):
    """witness pairs for Frame.equals: frames that differ in exactly one aspect (a label on either axis, a cell, a NaN on one side, a name, a dtype, the
    class), with and without cells (zero rows / zero columns), each under every single option"""
    import numpy as np
    import static_frame as sf
    base = sf.Frame.from_dict(dict(a=(1.0, np.nan), b=(3.0, 4.0)), index=('x', 'y'), name='n')
    variants = [base.relabel(columns=('a', 'c')), base.relabel(index=('x', 'z')), base.assign.loc['x', 'a'](9.0), base.assign.loc['y', 'a'](5.0), base.rename('m'),
                base.astype(object), base.to_frame_he(), base.rename(index='i'), base.rename(columns='c')]
    pairs = [(base, v) for v in variants]
    e0 = sf.Frame(columns=('a', 'b'))
    pairs += [(e0, sf.Frame(columns=('a', 'c'))), (e0, sf.Frame(columns=('a', 'b'), name='m')), (sf.Frame(index=('x', 'y')), sf.Frame(index=('x', 'z'))),
              (base.iloc[:0], base.relabel(columns=('a', 'c')).iloc[:0]), (base.iloc[:0], base.astype(object).iloc[:0]), (base.iloc[:0], base.iloc[:0].to_frame_he())]
    opts = [dict(compare_name=False, compare_dtype=False, compare_class=False, skipna=True), dict(compare_name=True, compare_dtype=False, compare_class=False, skipna=True),
            dict(compare_name=False, compare_dtype=True, compare_class=False, skipna=True), dict(compare_name=False, compare_dtype=False, compare_class=True, skipna=True),
            dict(compare_name=False, compare_dtype=False, compare_class=False, skipna=False)]
    out = []
    for a, b in pairs:
        for o in opts:
            out.append(dict(self=a, other=b, **o))
            out.append(dict(self=b, other=a, **o))
    return out
