"""C10: TypeBlocks.equals against the content-equivalence predicate of the property.
Cell contents are ghost: ub('eq', a, b, r, c) = NumPy `==` of cell (r,c) of contents a and b,
ub('nan', a, r, c) = cell is NaN/NaT (isna with include_none=False), ub('b', x, r, c) = Boolean cell."""
from . import contract, predicate, RECORDS

TB = 'static_frame/core/type_blocks.py'
NP = '<numpy>'

RECORDS['carr'] = dict(ndim='int', rows='int', cols='int', cid='int', writeable='bool')
RECORDS['TypeBlocksC'] = dict(_blocks='list[carr]', _shape='tuple[int,int]', _dtypes='list[dtype]', cid='int', _offs='list[int]')

# a Boolean TypeBlocks produced by an operator: 2-D blocks tiling the columns, cells tied to the container's cells
predicate('BlocksWF', ['tb'], ' and '.join([
    'tb._shape[0] >= 0 and tb._shape[1] >= 0 and len(tb._offs) == len(tb._blocks) + 1 and at(tb._offs, 0) == 0 and at(tb._offs, len(tb._blocks)) == tb._shape[1]',
    'forall_in(0, len(tb._blocks), lambda k: at(tb._blocks, k).ndim == 2 and at(tb._blocks, k).rows == tb._shape[0] and at(tb._blocks, k).cols >= 1 and at(tb._offs, k + 1) == at(tb._offs, k) + at(tb._blocks, k).cols and at(tb._offs, k) >= 0)',
    'forall_in(0, len(tb._blocks) + 1, lambda k: 0 <= at(tb._offs, k) and at(tb._offs, k) <= tb._shape[1])',       # monotone-offset lemma (consequence of the line above)
    'forall_in(0, len(tb._blocks), lambda k: forall(lambda r, j: implies(0 <= r and r < tb._shape[0] and 0 <= j and j < at(tb._blocks, k).cols, ub("b", at(tb._blocks, k).cid, r, j) == ub("b", tb.cid, r, at(tb._offs, k) + j))))',
]))

_IN = '0 <= r and r < self._shape[0] and 0 <= c and c < self._shape[1]'

contract(TB, 'TypeBlocks.__eq__', key='TypeBlocksC.__eq__', assumed=True,      # operator application: proved separately? no: assumed, covered by bounded C10/C06 stand-ins
    params=dict(self='TypeBlocksC', other='TypeBlocksC'), order=['self', 'other'], result='TypeBlocksC',
    requires=['self._shape == other._shape'],
    ensures=['result._shape == self._shape', 'BlocksWF(result)',
             f'forall(lambda r, c: implies({_IN}, ub("b", result.cid, r, c) == ub("eq", self.cid, other.cid, r, c)))'])
contract(TB, 'TypeBlocks.isna', key='TypeBlocksC.isna', assumed=True,
    params=dict(self='TypeBlocksC', include_none='bool'), order=['self', 'include_none'], defaults=dict(include_none='True'), result='TypeBlocksC',
    ensures=['result._shape == self._shape',
             f'forall(lambda r, c: implies({_IN}, ub("b", result.cid, r, c) == ub("nan", self.cid, r, c)))'])
contract(TB, 'TypeBlocks.__and__', key='TypeBlocksC.__and__', assumed=True,
    params=dict(self='TypeBlocksC', other='TypeBlocksC'), order=['self', 'other'], result='TypeBlocksC',
    requires=['self._shape == other._shape'],
    ensures=['result._shape == self._shape',
             f'forall(lambda r, c: implies({_IN}, ub("b", result.cid, r, c) == (ub("b", self.cid, r, c) and ub("b", other.cid, r, c))))'])
contract(TB, 'TypeBlocks._extract_array', key='TypeBlocksC._extract_array', assumed=True,
    params=dict(self='TypeBlocksC', column_key='slice'), order=['self', 'row_key', 'column_key'], defaults=dict(row_key='None'), result='carr',
    requires=['not is_none(column_key.start) and not is_none(column_key.stop) and is_none(column_key.step)',
              '0 <= column_key.start and column_key.start <= column_key.stop and column_key.stop <= self._shape[1]'],
    ensures=['result.ndim == 2 and result.rows == self._shape[0] and result.cols == column_key.stop - column_key.start',
             'forall(lambda r, j: implies(0 <= r and r < self._shape[0] and 0 <= j and j < result.cols, ub("b", result.cid, r, j) == ub("b", self.cid, r, column_key.start + j)))'])
contract(NP, 'ndarray.__setitem__', key='carr.__setitem__', assumed=True,        # block[target] = True with a same-shape Boolean mask
    params=dict(self='carr', key='carr', value='bool'), order=['self', 'key', 'value'], result='none', modifies_self=True,
    requires=['self.writeable', 'value', 'key.ndim == self.ndim and key.rows == self.rows and key.cols == self.cols'],
    ensures=['self.ndim == old(self.ndim) and self.rows == old(self.rows) and self.cols == old(self.cols) and self.writeable',
             'forall(lambda r, j: implies(0 <= r and r < self.rows and 0 <= j and j < self.cols, ub("b", self.cid, r, j) == (ub("b", old(self.cid), r, j) or ub("b", key.cid, r, j))))'])
contract(NP, 'ndarray.all', key='carr.all', assumed=True,
    params=dict(self='carr'), order=['self'], result='bool',
    ensures=['result == forall(lambda r, j: implies(0 <= r and r < self.rows and 0 <= j and j < self.cols, ub("b", self.cid, r, j)))'])

_CONTENT = f'forall(lambda r, c: implies({_IN}, ub("eq", self.cid, other.cid, r, c) or (skipna and ub("nan", self.cid, r, c) and ub("nan", other.cid, r, c))))'
contract(TB, 'TypeBlocks.equals',
    props=['C10'],
    params=dict(self='TypeBlocksC', other='TypeBlocksC', compare_dtype='bool', compare_class='bool', skipna='bool'),
    order=['self', 'other', 'compare_dtype', 'compare_class', 'skipna'],
    rec_classes={'TypeBlocksC': ['TypeBlocks']},
    result='bool',
    requires=['self._shape[0] >= 0 and self._shape[1] >= 0 and other._shape[0] >= 0 and other._shape[1] >= 0',
              # NumPy fact: a missing cell compares unequal to everything (NaN != x, NaT != x)
              'forall(lambda r, c: implies(ub("nan", self.cid, r, c) or ub("nan", other.cid, r, c), not ub("eq", self.cid, other.cid, r, c)))'],
    n_loops=1,
    loops={0: dict(index='t', locals=dict(start='int', end='int', isna_both='TypeBlocksC', target='carr'),
                   invariant=[
        'implies(skipna, start == at(eq._offs, t) and isna_both._shape == self._shape)',
        # every cell of the blocks already visited is equal, or missing on both sides when skipna
        f'forall(lambda r, c: implies(0 <= r and r < self._shape[0] and 0 <= c and c < at(eq._offs, t), ub("b", eq.cid, r, c) or (skipna and ub("b", isna_both.cid, r, c))))',
    ])},
    # from the property: true exactly when same shape, (dtypes when asked) and pairwise equal values, where two missing
    # values at the same position count as equal only when skipna is requested; the same object is equal to itself
    model_hook='specs.t2_equals:model_hook', concrete_inputs='specs.t2_equals:concrete_inputs',
    requires_concrete=[],
    ensures_concrete=['result == ref_tb_equals(self, other, compare_dtype, skipna)'],
    ensures=[
        'implies(self.cid == other.cid, result)',
        f'implies(self.cid != other.cid, result == (self._shape == other._shape and implies(compare_dtype, self._dtypes == other._dtypes) and {_CONTENT}))',
    ])


# ---- counter-model -> real inputs (cell predicates are uninterpreted in the model) ----------------------
def model_hook(m, params):
    import z3
    s, o = params['self'], params['other']

    def ev(t):
        return m.eval(t, model_completion=True)
    rows = min(max(ev(s.fields['_shape'].items[0].t).as_long(), 0), 4)
    cols = min(max(ev(s.fields['_shape'].items[1].t).as_long(), 0), 4)
    feq = z3.Function('ub_eq', *([z3.IntSort()] * 4 + [z3.BoolSort()]))
    fnan = z3.Function('ub_nan', *([z3.IntSort()] * 3 + [z3.BoolSort()]))
    sc, oc = s.fields['cid'].t, o.fields['cid'].t
    cells = [[[z3.is_true(ev(feq(sc, oc, r, c))), z3.is_true(ev(fnan(sc, r, c))), z3.is_true(ev(fnan(oc, r, c)))] for c in range(cols)] for r in range(rows)]
    return dict(rows=rows, cols=cols, cells=cells)


def concrete_inputs(model):
    import numpy as np
    from static_frame.core.type_blocks import TypeBlocks
    h = model['__hook']
    rows, cols = h['rows'], h['cols']
    a = np.ones((rows, cols), dtype=float)
    b = np.ones((rows, cols), dtype=float)
    for r in range(rows):
        for c in range(cols):
            eq, ns, no = h['cells'][r][c]
            if ns:
                a[r, c] = np.nan
            if no:
                b[r, c] = np.nan
            elif not eq:
                b[r, c] = 2.0
    opts = dict(compare_dtype=bool(model.get('compare_dtype')), compare_class=bool(model.get('compare_class')), skipna=bool(model.get('skipna')))
    # the ghost cell contents do not fix a block layout: try the single 2-D block, all 1-D blocks, and every split into two 2-D blocks
    def split(x, cut):
        parts = [x[:, :cut], x[:, cut:]]
        return [p_ for p_ in parts if p_.shape[1]]
    cands = [dict(self=TypeBlocks.from_blocks(a), other=TypeBlocks.from_blocks(b), **opts)]
    if cols > 1:
        cands.append(dict(self=TypeBlocks.from_blocks([a[:, j] for j in range(cols)]), other=TypeBlocks.from_blocks([b[:, j] for j in range(cols)]), **opts))
        for cut in range(1, cols):
            cands.append(dict(self=TypeBlocks.from_blocks(split(a, cut)), other=TypeBlocks.from_blocks(split(b, cut)), **opts))
    return cands
