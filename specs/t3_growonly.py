"""C09: grow-only containers -- append-only, all-or-nothing (validate before mutate), lock-step growth of
labels and data.  Abstract records: an index is its label list; a Series is (values, index, name)."""
from . import contract, predicate, RECORDS

FRAME = 'static_frame/core/frame.py'
TB = 'static_frame/core/type_blocks.py'
INDEX = 'static_frame/core/index.py'
NP = '<numpy>'

RECORDS['Index'] = dict(labels='list[elem]')
RECORDS['IndexGO'] = dict(labels='list[elem]')
RECORDS['Series'] = dict(values='arr', _index='Index', name='elem')
RECORDS['Frame'] = dict(_columns='Index', _blocks='TypeBlocks', _index='Index')
RECORDS['FrameGO'] = dict(_columns='IndexGO', _blocks='TypeBlocks', _index='Index')

predicate('Has', ['xs', 'v'], 'exists_in(0, len(xs), lambda i: at(xs, i) == v)')
predicate('TBWF', ['tb'], 'Dir(tb) and Frozen(tb) and RowDtypeHolds(tb) and implies(len(tb._blocks) == 0, is_none(tb._row_dtype))')
# labels and data in step
predicate('FrameWF', ['f'], 'TBWF(f._blocks) and len(f._index.labels) == f._blocks._shape[0] and len(f._columns.labels) == f._blocks._shape[1]')

# ---- contracts of the members (IndexGO: assumed here, examined by the C02/C09 stand-ins; TypeBlocks.append: proved in t2_arrays) ----
contract(INDEX, 'Index.__contains__', key='IndexGO.__contains__', assumed=True,
    params=dict(self='IndexGO', value='elem'), order=['self', 'value'], result='bool',
    ensures=['result == Has(self.labels, value)'])
contract(INDEX, '_IndexGOMixin.append', key='IndexGO.append', assumed=True, modifies_self=True,
    backed_by='the same statement is proved on the real method over its concrete fields as _IndexGOMixin.append[impl] (labels = _labels_mutable); what stays assumed is that __contains__ agrees with the label list',
    params=dict(self='IndexGO', value='elem'), order=['self', 'value'], result='none',
    raises={'KeyError': 'Has(self.labels, value)'},
    ensures=['len(self.labels) == old(len(self.labels)) + 1', 'at(self.labels, old(len(self.labels))) == value',
             'forall_in(0, old(len(self.labels)), lambda i: at(self.labels, i) == at(old(self.labels), i))'])
contract(FRAME, 'Frame.index', key='FrameGO.index', property=True, assumed=True,
    params=dict(self='FrameGO'), order=['self'], result='Index', ensures=['result == self._index'])
contract('static_frame/core/series.py', 'Series.reindex', key='Series.reindex', assumed=True,
    params=dict(self='Series', index='Index'), order=['self', 'index', 'fill_value', 'own_index', 'check_equals'],
    defaults=dict(fill_value='None', own_index='False', check_equals='True'), result='Series',
    raises={'Exception': 'maybe'},
    ensures=['result.values.ndim == 1 and result.values.rows == len(index.labels) and not result.values.writeable', 'result._index == index'])
contract(NP, 'np.full', key='np.full', assumed=True,
    params=dict(shape='int'), order=['shape', 'fill_value', 'dtype'], defaults=dict(dtype='None'), result='arr',
    raises={'Exception': 'maybe'},
    ensures=['result.ndim == 1 and result.rows == shape and result.cols == 1 and result.writeable and result.fresh'])
contract('static_frame/core/util.py', 'iterable_to_array_1d', key='iterable_to_array_1d', assumed=True,   # freeze side checked by G1
    params={}, order=['values', 'dtype'], defaults=dict(dtype='None'), result='tuple[arr,bool]',
    raises={'Exception': 'maybe'},
    ensures=['result[0].ndim == 1 and not result[0].writeable'])

_NL = 'old(len(self._columns.labels))'
contract(FRAME, 'FrameGO.__setitem__',
    props=['C09'],
    params=dict(self='FrameGO', key='elem'), order=['self', 'key', 'value', 'fill_value'],
    variants=[dict(value='Series'), dict(value='Frame'), dict(value='arr'), dict(value='elem')],
    rec_classes={'FrameGO': ['FrameGO', 'Frame'], 'Frame': ['Frame'], 'Series': ['Series'], 'TypeBlocks': ['TypeBlocks']},
    rec_attrs={'Series': ['__iter__', 'values', 'index'], 'Frame': ['__iter__', 'values', 'index']},
    result='none',
    requires=['FrameWF(self)'],
    # a rejected or failing call leaves the container exactly as it was (every raising statement precedes the first write)
    raises={'RuntimeError': True, 'Exception': True, 'KeyError': True},
    raise_ensures=['self == old(self)'],
    ensures=[
        'FrameWF(self)',                                                    # labels and data still in step
        f'len(self._columns.labels) == {_NL} + 1 and at(self._columns.labels, {_NL}) == key',
        f'forall_in(0, {_NL}, lambda i: at(self._columns.labels, i) == at(old(self._columns.labels), i))',
        'not Has(old(self._columns.labels), key)',                          # duplicates are rejected
        # every column present before is the same array at the same position
        'forall_in(0, old(len(self._blocks._blocks)), lambda k: at(self._blocks._blocks, k) == at(old(self._blocks._blocks), k))',
        'self._index == old(self._index)',
    ])

# IndexGO.extend is a loop of append: it stops at the first duplicate, keeping the labels appended so far (prefix semantics)
contract(INDEX, '_IndexGOMixin.extend', key='IndexGO.extend', assumed=True, modifies_self=True,
    backed_by='the same statement (prefix semantics on rejection) is proved on the real method as _IndexGOMixin.extend[impl]',
    params=dict(self='IndexGO', values='Index'), order=['self', 'values'], result='none',
    raises={'KeyError': ('maybe', 'exists_in(0, len(values.labels), lambda i: Has(self.labels, at(values.labels, i)))')},
    raise_modifies_self=True,
    callee_raise_ensures=[
        'len(self.labels) >= old(len(self.labels)) and len(self.labels) < old(len(self.labels)) + len(values.labels)',
        'forall_in(0, old(len(self.labels)), lambda i: at(self.labels, i) == at(old(self.labels), i))',
        'forall_in(old(len(self.labels)), len(self.labels), lambda i: at(self.labels, i) == at(values.labels, i - old(len(self.labels))))',
        # it stopped exactly at the first label already present
        'Has(old(self.labels), at(values.labels, len(self.labels) - old(len(self.labels))))',
    ],
    ensures=['len(self.labels) == old(len(self.labels)) + len(values.labels)',
             'forall_in(0, old(len(self.labels)), lambda i: at(self.labels, i) == at(old(self.labels), i))',
             'forall_in(old(len(self.labels)), len(self.labels), lambda i: at(self.labels, i) == at(values.labels, i - old(len(self.labels))))'])
contract(INDEX, 'Index.equals', key='Index.equals', assumed=True,
    backed_by='the consequence used here (equal => equally many labels) is one conjunct of the content predicate proved on the real method as EqIndex.equals (specs/t2_equals.py)',
    params=dict(self='Index', other='Index'), order=['self', 'other'], result='bool',
    ensures=['implies(result, len(self.labels) == len(other.labels))'])      # equal indices have equally many labels (the only consequence used)
contract(FRAME, 'Frame.reindex', key='Frame.reindex', assumed=True,
    params=dict(self='Frame', index='Index'), order=['self', 'index', 'columns', 'fill_value', 'own_index', 'own_columns', 'check_equals'],
    defaults=dict(columns='None', fill_value='None', own_index='False', own_columns='False', check_equals='True'), result='Frame',
    raises={'Exception': 'maybe'},
    ensures=['result._index == index and result._columns == self._columns and TBWF(result._blocks)',
             'result._blocks._shape[0] == len(index.labels) and result._blocks._shape[1] == len(self._columns.labels)'])
contract(FRAME, 'Frame.columns', key='Frame.columns', property=True, assumed=True,
    params=dict(self='Frame'), order=['self'], result='Index', ensures=['result == self._columns'])
contract(FRAME, 'Frame.keys', key='Frame.keys', assumed=True,
    params=dict(self='Frame'), order=['self'], result='Index', ensures=['result == self._columns'])
# TypeBlocks.extend(TypeBlocks): all-or-nothing (the row check precedes the loop; every block of a well-formed TypeBlocks
# has its row count, so only the FIRST append can be rejected).  Proved; callers (FrameGO.extend) use this contract.
contract(TB, 'TypeBlocks.extend', key='TypeBlocks.extend', modifies_self=True,
    props=['C09'],
    params=dict(self='TypeBlocks', other='TypeBlocks'), order=['self', 'other'], result='none',
    rec_classes={'TypeBlocks': ['TypeBlocks']},
    requires=['TBWF(self)', 'TBWF(other)'],
    raises={'RuntimeError': 'self._shape[0] != other._shape[0] and (self._shape[0] != 0 or len(other._blocks) > 0)'},
    raise_ensures=['self == old(self)'],
    n_loops=1,
    loops={0: dict(index='t', invariant=[
        'TBWF(self) and blocks == other._blocks',
        'implies(t == 0, self == old(self))',
        'implies(t > 0, self._shape[0] == other._shape[0]) and self._shape[0] == old(self._shape[0])',
        'self._shape[1] == old(self._shape[1]) + at(other._offs, t)',
        'len(self._blocks) >= old(len(self._blocks)) and forall_in(0, old(len(self._blocks)), lambda k: at(self._blocks, k) == at(old(self._blocks), k))',
    ], locals=dict(blocks='list[arr]'))},
    ensures=['TBWF(self)', 'self._shape[0] == old(self._shape[0])', 'self._shape[1] == old(self._shape[1]) + other._shape[1]',
             'forall_in(0, old(len(self._blocks)), lambda k: at(self._blocks, k) == at(old(self._blocks), k))'])

_WFC = 'TBWF(container._blocks) and len(container._index.labels) == container._blocks._shape[0] and len(container._columns.labels) == container._blocks._shape[1]'
contract(FRAME, 'FrameGO.extend',
    props=['C09'],
    params=dict(self='FrameGO'), order=['self', 'container', 'fill_value'],
    variants=[dict(container='Frame'), dict(container='Series'), dict(container='elem')],
    rec_classes={'FrameGO': ['FrameGO', 'Frame'], 'Frame': ['Frame'], 'Series': ['Series'], 'TypeBlocks': ['TypeBlocks'], 'Index': ['Index'], 'IndexGO': ['IndexGO', 'Index']},
    result='none',
    requires=['FrameWF(self)'],
    n_loops=1,
    loops={0: dict(index='t', invariant=[
        'self == old(self)',
        'forall_in(0, t, lambda i: not Has(self._columns.labels, at(container._columns.labels, i)))'])},
    requires_variant={0: [_WFC], 1: ['container.values.ndim == 1 and container.values.rows == len(container._index.labels)']},
    raises={'RuntimeError': True, 'Exception': True, 'KeyError': True, 'NotImplementedError': True},
    # from the property: a rejected or failing growth call leaves the container exactly as it was
    raise_ensures=['self == old(self)'],
    ensures=['FrameWF(self)',
             'forall_in(0, old(len(self._columns.labels)), lambda i: at(self._columns.labels, i) == at(old(self._columns.labels), i))',
             'forall_in(0, old(len(self._blocks._blocks)), lambda k: at(self._blocks._blocks, k) == at(old(self._blocks._blocks), k))',
             'self._index == old(self._index)'])
