"""ASSUMED contracts on NumPy (never proved; probed by specs/probes.py; listed in every evidence file)."""
from . import contract

NP = '<numpy>'

contract(NP, 'np.result_type', key='np.result_type', assumed=True,
    params=dict(a='dtype', b='dtype'), order=['a', 'b'], result='dtype',
    raises={'TypeError': ('maybe', 'kind_is(a, "m") and kind_is(b, "m")')},   # only incompatible timedelta units (probed)
    ensures=['result == np_result_type(a, b)'])

contract(NP, 'ndarray.copy', key='ndarray.copy', assumed=True,
    params={}, order=[], result='arr',
    ensures=['result.ndim == self.ndim', 'result.rows == self.rows', 'result.cols == self.cols',
             'result.dtype == self.dtype', 'result.writeable', 'result.fresh'])

contract(NP, 'np.empty', key='np.empty', assumed=True,
    params=dict(shape='list[int]', dtype='dtype'), order=['shape', 'dtype'], result='arr',
    requires=['len(shape) == 1 or len(shape) == 2'],
    ensures=['result.ndim == len(shape) and result.rows == at(shape, 0) and result.cols == cond(len(shape) == 2, at(shape, 1), 1)',
             'result.dtype == dtype and result.writeable and result.fresh'])
contract(NP, 'np.concatenate', key='np.concatenate', assumed=True,      # writes only into `out`
    params=dict(arrays='list[arr]', out='arr', axis='int'), order=['arrays', 'axis', 'out'], result='arr',
    requires=['out.writeable and out.fresh'],                            # G2 in contract form: the output buffer is this activation's own
    raises={'ValueError': 'maybe'},
    ensures=['result == out'])
