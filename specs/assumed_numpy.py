"""ASSUMED contracts on NumPy (never proved; probed by specs/probes.py; listed in every evidence file)."""
from . import contract

NP = '<numpy>'

contract(NP, 'np.result_type', key='np.result_type', assumed=True,
    params=dict(a='dtype', b='dtype'), order=['a', 'b'], result='dtype',
    raises={'TypeError': ('maybe', 'kind_is(a, "m") and kind_is(b, "m")')},   # only incompatible timedelta units (probed)
    ensures=['result == np_result_type(a, b)'])

contract(NP, 'ndarray.copy', key='ndarray.copy', assumed=True,
    params={}, order=[], result='arr',
    ensures=['result.ndim == self.ndim', 'result.rows == self.rows', 'result.cols == self.cols',
             'result.dtype == self.dtype', 'result.writeable', 'result.fresh'])
