"""C06: a binary operator between two Series pairs values by LABEL: unless the two indices are equal, both operands are reindexed to the
union of the indices before the operator is applied cell by cell; the result carries that union.  (Opaque values: the contract pins down
which index and which value arrays reach the operator and the result (and that the name does not propagate), relative to assumed contracts of Index.equals / union / reindex.)"""
from . import contract, RECORDS

SER = 'static_frame/core/series.py'
RECORDS['OpSeries'] = dict(values='elem', _index='elem', _name='elem')
RECORDS['Operator'] = dict(__name__='elem')

_U = 'ufe("union", self._index, old(other)._index)'
contract(SER, 'Series._ufunc_binary_operator', key='Series._ufunc_binary_operator[Series]',
    props=['C06'],
    params=dict(self='OpSeries', operator='Operator', other='OpSeries'), order=['self'], kwonly=['operator', 'other'],
    rec_classes={'OpSeries': ['Series']},
    requires=['operator.__name__ != "matmul"', 'operator.__name__ != "rmatmul"'],
    result='elem',
    calls={
        'self._index.equals': dict(params=dict(o='elem'), order=['o'], result='bool', ensures=['result == ube("ieq", self._index, o)']),
        'self._index.union': dict(params=dict(o='elem'), order=['o'], result='elem', ensures=['result == ufe("union", self._index, o)']),
        # ASSUMED: reindex(index) yields the Series holding, under every label of `index`, the operand's value for that label or the missing marker
        'self.reindex': dict(params=dict(index='elem'), order=['index'], kwonly=['own_index', 'check_equals'], result='OpSeries',
                             ensures=['result.values == ufe("aligned", self.values, self._index, index)', 'result._index == index']),
        'other.reindex': dict(params=dict(index='elem'), order=['index'], kwonly=['own_index', 'check_equals'], result='OpSeries',
                              ensures=['result.values == ufe("aligned", other.values, other._index, index)', 'result._index == index']),
        'apply_binary_operator': dict(params=dict(values='elem', other='elem', other_is_array='bool', operator='Operator'), order=[],
                                      kwonly=['values', 'other', 'other_is_array', 'operator'], result='elem',
                                      ensures=['result == ufe("cellwise", operator.__name__, values, other)']),
        'self.__class__': dict(params=dict(values='elem', index='elem', name='opt[elem]'), order=['values'], kwonly=['index', 'name'], result='elem',
                               ensures=['implies(is_none(name), result == ufe("series_unnamed", values, index))']),
    },
    ensures=[
        # equal indices: order kept, values used as they are
        'implies(ube("ieq", self._index, old(other)._index), result == ufe("series_unnamed", ufe("cellwise", operator.__name__, self.values, old(other).values), self._index))',
        # otherwise: BOTH operands aligned to the union, the union is the result index
        f'implies(not ube("ieq", self._index, old(other)._index), result == ufe("series_unnamed", ufe("cellwise", operator.__name__, '
        f'ufe("aligned", self.values, self._index, {_U}), ufe("aligned", old(other).values, old(other)._index, {_U})), {_U}))',
    ])


# ---- Frame op Frame / Frame op Series ------------------------------------------------------------------------------------------------
FR = 'static_frame/core/frame.py'
RECORDS['OpFrame'] = dict(_blocks='elem', _index='elem', _columns='elem', _name='elem', STATIC='bool')
RECORDS['OpBlocks'] = dict(oid='elem')
_UI = 'ufe("union", self._index, other._index)'
_UC = 'ufe("union", self._columns, other._columns)'
_FCLS = dict(params=dict(data='elem', index='elem', columns='elem'), order=['data'], kwonly=['index', 'columns', 'own_data', 'own_index', 'own_columns', 'name'],
             defaults=dict(own_columns='False', name='None'), result='elem', ensures=['result == ufe("frame_unnamed", data, index, columns)'])


def _reidx(who):
    # ASSUMED: reindex gives the container holding, under every label pair of the new axes, the operand's cell for that pair or the missing marker;
    # an axis that is not passed (None) is kept
    return dict(params=dict(index='opt[elem]', columns='opt[elem]'), order=[], kwonly=['index', 'columns', 'own_index', 'own_columns'],
                defaults=dict(index='None', columns='None', own_index='False', own_columns='False'), result='OpFrame',
                ensures=[f'result._blocks == ufe("aligned2", {who}._blocks, {who}._index, {who}._columns, index, columns)'])


contract(FR, 'Frame._ufunc_binary_operator', key='Frame._ufunc_binary_operator[Frame]',
    props=['C06'],
    params=dict(self='OpFrame', operator='Operator', other='OpFrame', axis='int'), order=['self'], kwonly=['operator', 'other', 'axis'], defaults=dict(axis='0'),
    rec_classes={'OpFrame': ['Frame']},
    requires=['operator.__name__ != "matmul"', 'operator.__name__ != "rmatmul"'],
    result='elem',
    calls={
        'self._columns.union': dict(params=dict(o='elem'), order=['o'], result='elem', ensures=['result == ufe("union", self._columns, o)']),
        'self._index.union': dict(params=dict(o='elem'), order=['o'], result='elem', ensures=['result == ufe("union", self._index, o)']),
        'self.reindex': _reidx('self'),
        'other.reindex': _reidx('other'),
        'self_tb._ufunc_binary_operator': dict(params=dict(operator='Operator', other='elem'), order=[], kwonly=['operator', 'other'], result='elem',
                                               ensures=['result == ufe("cellwise", operator.__name__, self_tb, other)']),
        'self.__class__': _FCLS,
    },
    ensures=[
        # both operands are aligned to the union of the row labels AND the union of the column labels; the result carries both unions
        f'result == ufe("frame_unnamed", ufe("cellwise", operator.__name__, ufe("aligned2", self._blocks, self._index, self._columns, {_UI}, {_UC}), '
        f'ufe("aligned2", other._blocks, other._index, other._columns, {_UI}, {_UC})), {_UI}, {_UC})',
    ])

_UCS = 'ufe("union", self._columns, other._index)'
_UIS = 'ufe("union", self._index, other._index)'
contract(FR, 'Frame._ufunc_binary_operator', key='Frame._ufunc_binary_operator[Series]',
    props=['C06'],
    params=dict(self='OpFrame', operator='Operator', other='OpSeries', axis='int'), order=['self'], kwonly=['operator', 'other', 'axis'], defaults=dict(axis='0'),
    rec_classes={'OpFrame': ['Frame'], 'OpSeries': ['Series']},
    requires=['operator.__name__ != "matmul"', 'operator.__name__ != "rmatmul"'],
    result='elem',
    raises={'AxisInvalid': 'axis != 0 and axis != 1'},
    calls={
        'self._columns.union': dict(params=dict(o='elem'), order=['o'], result='elem', ensures=['result == ufe("union", self._columns, o)']),
        'self._index.union': dict(params=dict(o='elem'), order=['o'], result='elem', ensures=['result == ufe("union", self._index, o)']),
        'self.reindex': _reidx('self'),
        'other.reindex': dict(params=dict(index='elem'), order=['index'], kwonly=['own_index', 'check_equals'], result='OpSeries',
                              ensures=['result.values == ufe("aligned", other.values, other._index, index)']),
        'self_tb._ufunc_binary_operator': dict(params=dict(operator='Operator', other='elem', axis='int'), order=[], kwonly=['operator', 'other', 'axis'], result='elem',
                                               ensures=['result == ufe("cellwise_ax", operator.__name__, self_tb, other, axis)']),
        'self.__class__': _FCLS,
    },
    ensures=[
        # axis 0: the Series labels pair with the COLUMN labels; axis 1: with the ROW labels; the paired axis becomes the union, the other is kept
        f'implies(axis == 0, result == ufe("frame_unnamed", ufe("cellwise_ax", operator.__name__, ufe("aligned2", self._blocks, self._index, self._columns, None, {_UCS}), '
        f'ufe("aligned", other.values, other._index, {_UCS}), 0), self._index, {_UCS}))',
        f'implies(axis == 1, result == ufe("frame_unnamed", ufe("cellwise_ax", operator.__name__, ufe("aligned2", self._blocks, self._index, self._columns, {_UIS}, None), '
        f'ufe("aligned", other.values, other._index, {_UIS}), 1), {_UIS}, self._columns))',
    ])
