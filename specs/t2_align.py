"""C06: a binary operator between two Series pairs values by LABEL: unless the two indices are equal, both operands are reindexed to the
union of the indices before the operator is applied cell by cell; the result carries that union.  (Opaque values: the contract pins down
which index and which value arrays reach the operator and the result (and that the name does not propagate), relative to assumed contracts of Index.equals / union / reindex.)"""
from . import contract, RECORDS

SER = 'static_frame/core/series.py'
RECORDS['OpSeries'] = dict(values='elem', _index='elem', _name='elem')
RECORDS['Operator'] = dict(__name__='elem')

_U = 'ufe("union", self._index, old(other)._index)'
contract(SER, 'Series._ufunc_binary_operator', key='Series._ufunc_binary_operator[Series]',
    props=['C06'],
    params=dict(self='OpSeries', operator='Operator', other='OpSeries'), order=['self'], kwonly=['operator', 'other'],
    rec_classes={'OpSeries': ['Series']},
    requires=['operator.__name__ != "matmul"', 'operator.__name__ != "rmatmul"'],
    result='elem',
    calls={
        'self._index.equals': dict(params=dict(o='elem'), order=['o'], result='bool', ensures=['result == ube("ieq", self._index, o)']),
        'self._index.union': dict(params=dict(o='elem'), order=['o'], result='elem', ensures=['result == ufe("union", self._index, o)']),
        # ASSUMED: reindex(index) yields the Series holding, under every label of `index`, the operand's value for that label or the missing marker
        'self.reindex': dict(params=dict(index='elem'), order=['index'], kwonly=['own_index', 'check_equals'], result='OpSeries',
                             ensures=['result.values == ufe("aligned", self.values, self._index, index)', 'result._index == index']),
        'other.reindex': dict(params=dict(index='elem'), order=['index'], kwonly=['own_index', 'check_equals'], result='OpSeries',
                              ensures=['result.values == ufe("aligned", other.values, other._index, index)', 'result._index == index']),
        'apply_binary_operator': dict(params=dict(values='elem', other='elem', other_is_array='bool', operator='Operator'), order=[],
                                      kwonly=['values', 'other', 'other_is_array', 'operator'], result='elem',
                                      ensures=['result == ufe("cellwise", operator.__name__, values, other)']),
        'self.__class__': dict(params=dict(values='elem', index='elem', name='opt[elem]'), order=['values'], kwonly=['index', 'name'], result='elem',
                               ensures=['implies(is_none(name), result == ufe("series_unnamed", values, index))']),
    },
    ensures=[
        # equal indices: order kept, values used as they are
        'implies(ube("ieq", self._index, old(other)._index), result == ufe("series_unnamed", ufe("cellwise", operator.__name__, self.values, old(other).values), self._index))',
        # otherwise: BOTH operands aligned to the union, the union is the result index
        f'implies(not ube("ieq", self._index, old(other)._index), result == ufe("series_unnamed", ufe("cellwise", operator.__name__, '
        f'ufe("aligned", self.values, self._index, {_U}), ufe("aligned", old(other).values, old(other)._index, {_U})), {_U}))',
    ])
