"""C08: FrameAssignILoc.__call__ (Frame.assign.iloc / .loc [key](value)) -- "aligned by label when the value is itself labelled ... returns a new container":
the value is aligned to THE SAME normalised key (rows as given, columns made ascending) that the block store is then asked to write at, the aligned
values are what is written, and the result carries the container's own index, columns and name.  Routing contract over opaque values, relative to assumed
contracts of the alignment (`_reindex_other_like_iloc`) and of the block store (`extract_iloc_assign_by_unit` / `_by_blocks`; their offset discipline is
proved separately in specs/t3_offsets.py)."""
from . import contract, RECORDS

FR = 'static_frame/core/frame.py'
RECORDS['FaFrame'] = {'fid': 'elem', '_blocks': 'elem', '_columns': 'elem', '_index': 'elem', '_name': 'elem', 'shape': 'tuple[int,int]'}
RECORDS['FaSeries'] = {'sid': 'elem', 'values': 'elem'}
RECORDS['FaBlocks'] = {'_blocks': 'elem'}
RECORDS['FaValFrame'] = {'vid': 'elem', '_blocks': 'FaBlocks'}
RECORDS['FaResult'] = {'data': 'elem', 'columns': 'elem', 'index': 'elem', 'name': 'elem', 'own_data': 'bool'}



def _mk(keykind, valkind):
    tuple_key = keykind == 'tuple'
    rec = 'FaAssignT' if tuple_key else 'FaAssignP'
    RECORDS[rec] = {'container': 'FaFrame', 'key': ('tuple[elem,elem]' if tuple_key else 'elem')}
    krow = 'self.key[0]' if tuple_key else 'self.key'
    kcol = 'ufe("asc_key", self.key[1], self.container.shape[1])' if tuple_key else 'None'
    vsort = dict(series='FaSeries', frame='FaValFrame', other='elem')[valkind]
    calls = {
        'key_to_ascending_key': dict(params=dict(k='elem', size='int'), order=['k', 'size'], result='elem', ensures=['result == ufe("asc_key", k, size)']),
        # ASSUMED alignment: the value re-labelled to the rows / columns the key addresses (missing labels filled)
        'self.container._reindex_other_like_iloc': dict(params=dict(v=vsort if valkind != 'other' else 'elem', k='tuple[opt[elem],opt[elem]]', fill_value='elem'), order=['v', 'k'], kwonly=['fill_value'],
                                                        result=(vsort if valkind != 'other' else 'elem'),
                                                        ensures=[('result.values == ufe("aligned", v.sid, k[0], k[1], fill_value)' if valkind == 'series' else
                                                                  'result._blocks._blocks == ufe("aligned", v.vid, k[0], k[1], fill_value)' if valkind == 'frame' else 'True')]),
        'self.container._blocks.extract_iloc_assign_by_unit': dict(params=dict(k='tuple[opt[elem],opt[elem]]', a='elem'), order=['k', 'a'], result='elem',
                                                                   ensures=['result == ufe("written_unit", self.container._blocks, k[0], k[1], a)']),
        'self.container._blocks.extract_iloc_assign_by_blocks': dict(params=dict(k='tuple[opt[elem],opt[elem]]', a='elem'), order=['k', 'a'], result='elem',
                                                                     ensures=['result == ufe("written_blocks", self.container._blocks, k[0], k[1], a)']),
        'self.container.__class__': dict(params=dict(data='elem', columns='elem', index='elem', name='elem', own_data='bool'), order=[], kwonly=['data', 'columns', 'index', 'name', 'own_data'],
                                         result='FaResult', ensures=['result.data == data and result.columns == columns and result.index == index and result.name == name and result.own_data == own_data']),
    }
    aligned = {'series': f'ufe("aligned", value.sid, {krow}, {kcol}, fill_value)', 'frame': f'ufe("aligned", value.vid, {krow}, {kcol}, fill_value)', 'other': 'value'}[valkind]
    written = ('written_blocks' if valkind == 'frame' else 'written_unit')
    contract(FR, 'FrameAssignILoc.__call__', key=f'FrameAssignILoc.__call__[{keykind}-key,{valkind}]',
        props=['C08'],
        params=dict(self=rec, value=vsort, fill_value='elem'), order=['self', 'value'], kwonly=['fill_value'],
        rec_classes={'FaSeries': ['Series'], 'FaValFrame': ['Frame']},
        result='FaResult',
        calls=calls,
        **(dict(concrete_inputs='specs.t2_frameassign:concrete_inputs_series', witness_on_unknown=True, witness_always=True, requires_concrete=[],
                ensures_concrete=['ref_frame_assign_series(self, value, fill_value, result)']) if (valkind == 'series' and tuple_key) else {}),
        ensures=[
            # what is written is the value aligned to the very key it is written at (rows as given, columns ascending)
            f'result.data == ufe("{written}", self.container._blocks, {krow}, {kcol}, {aligned})',
            'result.columns == self.container._columns and result.index == self.container._index and result.name == self.container._name and result.own_data',
        ])


for _k in ('tuple', 'plain'):
    for _v in ('series', 'frame', 'other'):
        _mk(_k, _v)


def concrete_inputs_series(model):
    """one row, columns addressed in ascending and in non-ascending order, a Series labelled by column"""
    import numpy as np
    import static_frame as sf
    out = []
    f = sf.Frame.from_records([[1, 2, 3, 4], [5, 6, 7, 8]], index=('x', 'y'), columns=('a', 'b', 'c', 'd'))
    f2 = sf.Frame(np.arange(8).reshape(2, 4), index=('x', 'y'), columns=('a', 'b', 'c', 'd'))      # one 2-D block
    v = sf.Series((100, 300), index=('a', 'c'))
    for fr in (f, f2):
        out.append(dict(self=fr.assign.loc['y', ['a', 'c']], value=v, fill_value=0))
        out.append(dict(self=fr.assign.loc['y', ['c', 'a']], value=v, fill_value=0))
        out.append(dict(self=fr.assign.iloc[1, 2::-2], value=v, fill_value=0))
        out.append(dict(self=fr.assign.loc['y', ['d', 'a']], value=v, fill_value=-1))
    return out


# Frame.rename: "returns a new container ... the original left exactly as it was" -- the data handed to the new Frame as its OWN (own_data=True) is a copy of
# the block store, never the receiver's live store (a grow-only result would otherwise grow the original); the columns are handed over WITHOUT ownership
# (the constructor copies a grow-only columns index), the index with ownership only because indices on the row axis are static
RECORDS['FrRename'] = {'data': 'elem', 'index': 'elem', 'columns': 'elem', 'own_data': 'bool', 'own_index': 'bool'}
contract(FR, 'Frame.rename', key='Frame.rename',
    props=['C08', 'C01', 'C09'],
    lenient=True, lenient_protect=[],
    params=dict(self='FaFrame', name='elem', index='elem', columns='elem'), order=['self', 'name'], kwonly=['index', 'columns'],
    result='FrRename',
    calls={
        'self._blocks.copy': dict(params={}, order=[], result='elem', ensures=['result == ufe("tb_copy", self._blocks)', 'result != self._blocks']),
        'self._index.rename': dict(params=dict(n='elem'), order=['n'], result='elem', ensures=['result == ufe("renamed", self._index, n)']),
        'self._columns.rename': dict(params=dict(n='elem'), order=['n'], result='elem', ensures=['result == ufe("renamed", self._columns, n)', 'result != self._columns']),
        # (own_columns is not passed: the constructor then copies a grow-only columns index; a call that passes it is outside this model and leaves the contract undecided)
        'self.__class__': dict(params=dict(data='elem', index='elem', columns='elem', name='elem', own_data='bool', own_index='bool'), order=['data'],
                               kwonly=['index', 'columns', 'name', 'own_data', 'own_index'],
                               result='FrRename', ensures=['result.data == data and result.index == index and result.columns == columns and result.own_data == own_data and result.own_index == own_index']),
    },
    free_conditions=['name is NAME_DEFAULT', 'index is NAME_DEFAULT', 'columns is NAME_DEFAULT'],
    ensures=[
        'result.data != self._blocks',                                   # never the live block store
        'implies(result.own_data, result.data == ufe("tb_copy", self._blocks))',
    ])
