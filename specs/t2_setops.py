"""C11 / C06: util.ufunc_set_iter folds a binary set operation over the label arrays of the inputs (the aligned axis of
from_concat / from_overlay, Index.union / intersection of several operands).
Labels are abstract: `ub("mem", x, a.src)` says "label number x occurs in the array with buffer identity a.src" (an injective
numbering of labels is a modelling device, nothing is assumed about it)."""
from . import contract

UTIL = 'static_frame/core/util.py'


def _mem(x, a):
    return f'ub("mem", {x}, {a}.src)'


# ASSUMED contracts of the binary set functions (the C06 stand-in exercises them on the real package; _ufunc_set_1d/_2d defer to
# np.union1d / np.intersect1d): membership of the result is the disjunction / conjunction of the operands' membership; an empty result
# holds no label.  Nothing is assumed about order here.
for _name, _op in (('union1d', 'or'), ('union2d', 'or'), ('intersect1d', 'and'), ('intersect2d', 'and')):
    contract(UTIL, _name, key=_name, assumed=True,
        params=dict(array='arr', other='arr', assume_unique='bool'), order=['array', 'other', 'assume_unique'], defaults=dict(assume_unique='False'),
        result='arr',
        raises={'Exception': 'maybe'},
        ensures=[f'forall(lambda x: {_mem("x", "result")} == ({_mem("x", "array")} {_op} {_mem("x", "other")}))',
                 f'implies(result.rows == 0, forall(lambda x: not {_mem("x", "result")}))',
                 'result.ndim == array.ndim'])

_N = 'len(old(arrays))'
contract(UTIL, 'ufunc_set_iter',
    props=['C11', 'C06'],
    params=dict(arrays='list[arr]', union='bool', assume_unique='bool'), order=['arrays', 'union', 'assume_unique'],
    defaults=dict(union='False', assume_unique='False'),
    result='arr',
    requires=[f'forall_in(0, len(arrays), lambda k: at(arrays, k).ndim == 1 or at(arrays, k).ndim == 2)'],
    raises={'StopIteration': 'len(arrays) == 0',
            # mixed dimensionalities are rejected -- unless an intersection became empty before the offending operand was reached
            'RuntimeError': ('maybe', 'len(arrays) > 0 and exists_in(1, len(arrays), lambda k: at(arrays, k).ndim != at(arrays, 0).ndim)'),
            'Exception': 'maybe'},
    n_loops=1,
    loops={0: dict(index='t', locals=dict(result='arr'), invariant=[
        't + 1 <= len(old(arrays))',
        'result.ndim == at(old(arrays), 0).ndim',
        'forall_in(0, t + 1, lambda k: at(old(arrays), k).ndim == at(old(arrays), 0).ndim)',      # operands seen so far passed the ndim check
        f'implies(union, forall(lambda x: {_mem("x", "result")} == exists_in(0, t + 1, lambda k: {_mem("x", "at(old(arrays), k)")})))',
        f'implies(not union, forall(lambda x: {_mem("x", "result")} == forall_in(0, t + 1, lambda k: {_mem("x", "at(old(arrays), k)")})))',
    ])},
    model_hook='specs.t2_setops:model_hook', concrete_inputs='specs.t2_setops:concrete_inputs',
    requires_concrete=['len(arrays) >= 1'],
    ensures_concrete=['not result.writeable', 'labels_of_array(result) == ref_set_fold(arrays, union)'],
    raises_concrete={'RuntimeError': 'len({a.ndim for a in arrays}) > 1', 'StopIteration': 'len(arrays) == 0'},
    ensures=[
        'not result.writeable',
        # exactly the labels set algebra prescribes: in the union iff in some input, in the intersection iff in every input
        f'implies(union, forall(lambda x: {_mem("x", "result")} == exists_in(0, {_N}, lambda k: {_mem("x", "at(old(arrays), k)")})))',
        f'implies(not union, forall(lambda x: {_mem("x", "result")} == forall_in(0, {_N}, lambda k: {_mem("x", "at(old(arrays), k)")})))',
    ])


# ---- counter-model -> real inputs: membership of the label numbers 0..5 in each input array is read off the model --------------
def model_hook(m, params):
    import z3
    from pyvc.sorts import list_get
    arrays = params['arrays']
    n = min(max(m.eval(arrays.length, model_completion=True).as_long(), 0), 6)
    mem = z3.Function('ub_mem', z3.IntSort(), z3.IntSort(), z3.BoolSort())
    out = []
    for k in range(n):
        a = list_get(arrays, z3.IntVal(k))
        src = a.fields['src'].t
        ndim = m.eval(a.fields['ndim'].t, model_completion=True).as_long()
        out.append(dict(ndim=ndim, labels=[x for x in range(-2, 6) if z3.is_true(m.eval(mem(z3.IntVal(x), src), model_completion=True))]))
    return dict(arrays=out)


def concrete_inputs(model):
    import numpy as np
    h = model['__hook']
    arrs = []
    for a in h['arrays']:
        labs = a['labels']
        if a['ndim'] == 2:
            x = np.array([[v, v * 10] for v in labs], dtype=np.int64).reshape(len(labs), 2)
        else:
            x = np.array(labs, dtype=np.int64)
        x.flags.writeable = False
        arrs.append(x)
    return [dict(arrays=arrs, union=bool(model.get('union')), assume_unique=bool(model.get('assume_unique')))]
