from . import contract

UTIL = 'static_frame/core/util.py'
TB = 'static_frame/core/type_blocks.py'

contract(UTIL, 'slice_to_inclusive_slice',
    props=['C04', 'C02'],
    params=dict(key='slice', offset='int'), order=['key', 'offset'], defaults=dict(offset='0'),
    result='slice',
    requires=[],
    ensures=[
        'is_none(result.start) == is_none(key.start)',
        'implies(not is_none(key.start), result.start == key.start + offset)',
        'is_none(result.stop) == is_none(key.stop)',
        'implies(not is_none(key.stop), result.stop == key.stop + 1 + offset)',   # label slices include their stop
        'result.step == key.step',
    ])

contract(TB, 'TypeBlocks._cols_to_slice',
    props=['C03', 'C04'],
    params=dict(indices='list[int]'), order=['indices'],
    result='slice',
    ghost_params=dict(d='int', W='int'),
    requires=[
        'len(indices) >= 1',
        'd == 1 or d == -1',
        'forall_in(0, len(indices), lambda j: 0 <= at(indices, j) and at(indices, j) < W)',
        'forall_in(0, len(indices) - 1, lambda j: at(indices, j + 1) - at(indices, j) == d)',
        # closed form of an arithmetic run (a lemma the caller proves inductively)
        'forall_in(0, len(indices), lambda j: at(indices, j) == at(indices, 0) + j * d)',
    ],
    ensures=[
        # list(range(*result.indices(W))) == indices, for every container width W that holds the columns
        'forall_in(0, len(indices), lambda j: nth(result, W, j, at(indices, j)))',
        'not nth(result, W, len(indices), s_start(result, W) + len(indices) * s_step(result))',
        's_step(result) == d or len(indices) == 1',
        # an ascending run (or a single column) comes back as the plain slice [first, last + 1)
        'implies(d == 1 or len(indices) == 1, is_none(result.step) and not is_none(result.start) and not is_none(result.stop) and result.start == at(indices, 0) and result.stop == at(indices, len(indices) - 1) + 1)',
    ])

_POS = '(is_none(key.step) or key.step > 0)'
_QQ = 'cond(is_none(key.stop) or (key.stop < 0 and key.stop + size < 0), _q0, _q1)'      # which of the two floor divisions ran
contract(UTIL, 'slice_to_ascending_slice',
    props=['C08', 'C03'],
    ghost_results=['_q0', '_q1'],
    params=dict(key='slice', size='int'), order=['key', 'size'],
    result='slice',
    requires=[
        'size >= 0',
        'is_none(key.step) or key.step != 0',        # every slice a user can write: start/stop None, negative or out of range
    ],
    ensures=[
        'is_none(result.step) or result.step > 0',
        # every position addressed by key is addressed by result (witness: index in the result) ...
        f'forall(lambda i, k: implies(nth(key, size, k, i), nth(result, size, cond({_POS}, k, cond(key.step == -1, i - s_start(result, size), {_QQ} - k)), i)))',
        # ... and vice versa: result addresses nothing else
        f'forall(lambda i, k: implies(nth(result, size, k, i), nth(key, size, cond({_POS}, k, cond(key.step == -1, s_start(key, size) - i, {_QQ} - k)), i)))',
    ],
    # same statement without the proof witnesses, for run-time evaluation (replay / bounded stand-in)
    ensures_concrete=[
        'result.step is None or result.step > 0',
        'R(result, size) == sorted(set(R(key, size)))',
    ])

_D = 'cond(len(bundle) >= 2, at(bundle, 1) - at(bundle, 0), 1)'
contract(TB, 'TypeBlocks._indices_to_contiguous_pairs',
    props=['C03', 'C04'],
    params=dict(indices='list[tuple[int,int]]'), order=['indices'],
    is_generator=True, yield_sort='tuple[int,slice]',
    ghost_params=dict(W='int'),
    requires=[
        # (block, column) pairs, each column valid for a block of width <= W, pairwise distinct
        'forall_in(0, len(indices), lambda j: 0 <= at(indices, j)[1] and at(indices, j)[1] < W)',
        'forall(lambda a, b: implies(0 <= a and a < b and b < len(indices), not (at(indices, a)[0] == at(indices, b)[0] and at(indices, a)[1] == at(indices, b)[1])))',
    ],
    ghost_init=['cut = 0'],
    n_loops=1,
    loops={0: dict(index='t', locals=dict(last='opt[tuple[int,int]]', bundle='list[int]', cut='int'),
        ghost_mods=['cut'],
        invariant=[
            '0 <= cut and cut <= t',
            'is_none(last) == (t == 0)',
            'implies(t == 0, cut == 0)',
            'implies(t > 0, last == at(indices, t - 1))',
            'implies(t > 0, len(bundle) == t - cut and len(bundle) >= 1)',
            'implies(t > 0, forall_in(0, len(bundle), lambda j: at(bundle, j) == at(indices, cut + j)[1] and at(indices, cut + j)[0] == at(indices, t - 1)[0]))',
            # hint: names the pair (t-2, t) that the distinctness precondition must be instantiated with
            'implies(t > 0 and len(bundle) >= 2, at(bundle, len(bundle) - 2) == at(indices, t - 2)[1] and at(indices, t - 2)[0] == at(indices, t - 1)[0])',
            f'implies(t > 0, ({_D} == 1 or {_D} == -1) and forall_in(0, len(bundle), lambda j: at(bundle, j) == at(bundle, 0) + j * {_D}))',
        ])},
    call_ghosts={'TypeBlocks._cols_to_slice': dict(d=_D, W='W')},
    # the yielded (block, slice) segments tile the key positions in order; segment expands to its sub-sequence
    at_yield=[
        'cut + len(bundle) <= len(indices)',
        'forall_in(0, len(bundle), lambda j: at(indices, cut + j)[0] == result[0] and nth(result[1], W, j, at(indices, cut + j)[1]))',
        'not nth(result[1], W, len(bundle), s_start(result[1], W) + len(bundle) * s_step(result[1]))',
    ],
    yield_update=['cut = cut + len(bundle)'],
    at_exit=['cut == len(indices)'],
    # callers see: the concatenated expansions of the yielded segments reproduce `indices`
    ensures=[])

CU = 'static_frame/core/container_util.py'
contract(CU, 'key_to_ascending_key',
    props=['C08'],
    params=dict(key='slice', size='int'), order=['key', 'size'], result='slice',
    requires=['size >= 0', 'is_none(key.step) or key.step != 0'],       # every slice a user can write, incl. negative start/stop
    ensures=[
        # from the property: the ascending key addresses exactly the positions the user's key addresses
        'is_none(result.step) or result.step > 0',
        f'forall(lambda i, k: implies(nth(key, size, k, i), nth(result, size, cond({_POS}, k, cond(key.step == -1, i - s_start(result, size), {_QQ} - k)), i)))',
        f'forall(lambda i, k: implies(nth(result, size, k, i), nth(key, size, cond({_POS}, k, cond(key.step == -1, s_start(key, size) - i, {_QQ} - k)), i)))',
    ],
    ensures_concrete=['result.step is None or result.step > 0', 'R(result, size) == sorted(set(R(key, size)))'])


# ---- the same generator on ASCENDING input (every key with retain_key_order=False): the yielded (block, slice) targets are plain slices
# [start, stop) inside their block, ascending by block and disjoint-ascending within a block -- the ordering the block-wise splice generators rely on
_ORD = ('forall(lambda a, b: implies(0 <= a and a < b and b < len({ys}), at({ys}, a)[0] <= at({ys}, b)[0] and '
        'implies(at({ys}, a)[0] == at({ys}, b)[0], at({ys}, a)[1].stop <= at({ys}, b)[1].start)))')
_SHAPE = ('forall_in(0, len({ys}), lambda k: is_none(at({ys}, k)[1].step) and not is_none(at({ys}, k)[1].start) and not is_none(at({ys}, k)[1].stop) '
          'and 0 <= at({ys}, k)[1].start and at({ys}, k)[1].start < at({ys}, k)[1].stop and 0 <= at({ys}, k)[0] and at({ys}, k)[0] + 1 < len(offs) and at({ys}, k)[1].stop <= at(offs, at({ys}, k)[0] + 1) - at(offs, at({ys}, k)[0]))')
_LASTY = 'at(yields, len(yields) - 1)'
contract(TB, 'TypeBlocks._indices_to_contiguous_pairs', key='TypeBlocks._indices_to_contiguous_pairs[ascending]',
    props=['C03', 'C08'],
    params=dict(indices='list[tuple[int,int]]'), order=['indices'],
    is_generator=True, yield_sort='tuple[int,slice]',
    ghost_params=dict(offs='list[int]'),       # prefix column offsets of the blocks: block b is offs[b+1] - offs[b] columns wide
    requires=[
        'forall_in(0, len(indices), lambda j: 0 <= at(indices, j)[0] and at(indices, j)[0] + 1 < len(offs) and 0 <= at(indices, j)[1] and at(indices, j)[1] < at(offs, at(indices, j)[0] + 1) - at(offs, at(indices, j)[0]))',
        # lexicographically strictly ascending (block, column) pairs
        'forall_in(0, len(indices) - 1, lambda j: at(indices, j)[0] < at(indices, j + 1)[0] or (at(indices, j)[0] == at(indices, j + 1)[0] and at(indices, j)[1] < at(indices, j + 1)[1]))',
    ],
    ghost_init=['cut = 0', 'yields = []'],
    n_loops=1,
    loops={0: dict(index='t', locals=dict(last='opt[tuple[int,int]]', bundle='list[int]', cut='int', yields='list[tuple[int,slice]]'),
        ghost_mods=['cut', 'yields'],
        invariant=[
            '0 <= cut and cut <= t',
            'is_none(last) == (t == 0)',
            'implies(t == 0, cut == 0 and len(yields) == 0)',
            'implies(t > 0, last == at(indices, t - 1))',
            'implies(t > 0, len(bundle) == t - cut and len(bundle) >= 1)',
            'implies(t > 0, forall_in(0, len(bundle), lambda j: at(bundle, j) == at(indices, cut + j)[1] and at(indices, cut + j)[0] == at(indices, t - 1)[0]))',
            'implies(t > 0, forall_in(0, len(bundle), lambda j: at(bundle, j) == at(bundle, 0) + j))',
            _ORD.format(ys='yields'), _SHAPE.format(ys='yields'),
            # everything yielded so far lies before the open bundle
            f'implies(t > 0 and len(yields) > 0, {_LASTY}[0] < at(indices, t - 1)[0] or ({_LASTY}[0] == at(indices, t - 1)[0] and {_LASTY}[1].stop <= at(bundle, 0)))',
            f'implies(len(yields) > 0, cut > 0 and ({_LASTY}[0] < at(indices, cut - 1)[0] or ({_LASTY}[0] == at(indices, cut - 1)[0] and {_LASTY}[1].stop == at(indices, cut - 1)[1] + 1)))',
        ])},
    call_ghosts={'TypeBlocks._cols_to_slice': dict(d='1', W='at(offs, last[0] + 1) - at(offs, last[0])')},
    at_yield=['cut + len(bundle) <= len(indices)'],
    yield_update=['cut = cut + len(bundle)'],
    at_exit=['cut == len(indices)', _ORD.format(ys='yields'), _SHAPE.format(ys='yields')],
    # what callers may assume about the whole sequence of yields (each is proved above as an exit condition over the ghost list `yields`)
    ensures=[_ORD.format(ys='result'), _SHAPE.format(ys='result')])


# ---- the key translation used by every block-wise generator (retain_key_order=False): targets ascending by block, disjoint within a block -------
_KSHAPE = ('forall_in(0, len({ys}), lambda k: 0 <= at({ys}, k)[0] and at({ys}, k)[0] < len(self._blocks) and is_none(at({ys}, k)[1].step) and not is_none(at({ys}, k)[1].start) and not is_none(at({ys}, k)[1].stop)'
           ' and 0 <= at({ys}, k)[1].start and at({ys}, k)[1].start < at({ys}, k)[1].stop and at({ys}, k)[1].stop <= W(at(self._blocks, at({ys}, k)[0])))')
contract(TB, 'TypeBlocks._all_block_slices',
    props=['C03', 'C08'],
    params=dict(self='TypeBlocks'), order=['self'],
    is_generator=True, yield_sort='tuple[int,slice]',
    requires=['Dir(self)'],
    ghost_init=['yields = []'],
    n_loops=1,
    loops={0: dict(index='t', locals=dict(yields='list[tuple[int,slice]]'), ghost_mods=['yields'], invariant=[
        'len(yields) == t',
        'forall_in(0, len(yields), lambda k: at(yields, k)[0] == k and is_none(at(yields, k)[1].step) and at(yields, k)[1].start == 0 and at(yields, k)[1].stop == W(at(self._blocks, k)))',
        # instance of Dir for the block about to be visited (quantifier-free: branch decisions use it)
        'implies(t < len(self._blocks), at(self._blocks, t).ndim == 1 or at(self._blocks, t).ndim == 2)',
    ])},
    at_yield=[],
    at_exit=['len(yields) == len(self._blocks)',
             'forall_in(0, len(yields), lambda k: at(yields, k)[0] == k and is_none(at(yields, k)[1].step) and at(yields, k)[1].start == 0 and at(yields, k)[1].stop == W(at(self._blocks, k)))'],
    ensures=['len(result) == len(self._blocks)',
             'forall_in(0, len(result), lambda k: at(result, k)[0] == k and is_none(at(result, k)[1].step) and at(result, k)[1].start == 0 and at(result, k)[1].stop == W(at(self._blocks, k)))'])

_KORD = _ORD
contract(TB, 'TypeBlocks._key_to_block_slices', key='TypeBlocks._key_to_block_slices',
    props=['C03', 'C04', 'C08'],
    params=dict(self='TypeBlocks', retain_key_order='bool'), order=['self', 'key', 'retain_key_order'], defaults=dict(retain_key_order='True'),
    # proved for: key None / a slice (any user slice) / a list of distinct in-range integers.  NOT covered by the proof (callers that pass them rely
    # on the same statement as an assumption): a single integer (the one target is (block, column), not a slice) and Boolean arrays.
    variants=[dict(key='opt[slice]'), dict(key='list[int]')],
    partly_assumed='proved for None / slice / distinct in-range integer-list keys; ASSUMED for a single integer key and for Boolean-array keys, and the key preconditions are not checked at call sites that pass an untyped key',
    is_generator=True, yield_sort='tuple[int,slice]',
    requires=['Dir(self)', 'not retain_key_order'],
    requires_variant={0: ['is_none(key) or is_none(key.step) or key.step != 0'],
                      1: ['forall_in(0, len(key), lambda j: -self._shape[1] <= at(key, j) and at(key, j) < self._shape[1])',
                          # distinct positions (labels are unique)
                          'forall(lambda a, b: implies(0 <= a and a < b and b < len(key), cond(at(key, a) < 0, at(key, a) + self._shape[1], at(key, a)) != cond(at(key, b) < 0, at(key, b) + self._shape[1], at(key, b))))']},
    call_alias={'TypeBlocks._indices_to_contiguous_pairs': 'TypeBlocks._indices_to_contiguous_pairs[ascending]'},
    call_ghosts={'TypeBlocks._indices_to_contiguous_pairs[ascending]': dict(offs='self._offs')},
    calls={
        # ASSUMED builtin: sorted() of distinct integers in [0, size) is their strictly ascending arrangement (same length, same range)
        'sorted': dict(params=dict(xs='list[int]'), order=['xs'], result='list[int]',
                       requires=['forall_in(0, len(xs), lambda j: 0 <= at(xs, j) and at(xs, j) < self._shape[1])',
                                 'forall(lambda a, b: implies(0 <= a and a < b and b < len(xs), at(xs, a) != at(xs, b)))'],
                       ensures=['len(result) == len(xs)', 'forall_in(0, len(result), lambda j: 0 <= at(result, j) and at(result, j) < self._shape[1])',
                                'forall_in(0, len(result) - 1, lambda j: at(result, j) < at(result, j + 1))']),
    },
    ghost_init=['yields = []'],
    yield_from={'*': {'assert': [], 'update': ['yields = sub']}},
    at_exit=[_KSHAPE.format(ys='yields'), _KORD.format(ys='yields')],
    ensures=[_KSHAPE.format(ys='result'), _KORD.format(ys='result')])
