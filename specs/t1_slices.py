from . import contract

UTIL = 'static_frame/core/util.py'
TB = 'static_frame/core/type_blocks.py'

contract(UTIL, 'slice_to_inclusive_slice',
    props=['C04', 'C02'],
    params=dict(key='slice', offset='int'), order=['key', 'offset'], defaults=dict(offset='0'),
    result='slice',
    requires=[],
    ensures=[
        'is_none(result.start) == is_none(key.start)',
        'implies(not is_none(key.start), result.start == key.start + offset)',
        'is_none(result.stop) == is_none(key.stop)',
        'implies(not is_none(key.stop), result.stop == key.stop + 1 + offset)',   # label slices include their stop
        'result.step == key.step',
    ])

contract(TB, 'TypeBlocks._cols_to_slice',
    props=['C03', 'C04'],
    params=dict(indices='list[int]'), order=['indices'],
    result='slice',
    ghost_params=dict(d='int', W='int'),
    requires=[
        'len(indices) >= 1',
        'd == 1 or d == -1',
        'forall_in(0, len(indices), lambda j: 0 <= at(indices, j) and at(indices, j) < W)',
        'forall_in(0, len(indices) - 1, lambda j: at(indices, j + 1) - at(indices, j) == d)',
        # closed form of an arithmetic run (a lemma the caller proves inductively)
        'forall_in(0, len(indices), lambda j: at(indices, j) == at(indices, 0) + j * d)',
    ],
    ensures=[
        # list(range(*result.indices(W))) == indices, for every container width W that holds the columns
        'forall_in(0, len(indices), lambda j: nth(result, W, j, at(indices, j)))',
        'not nth(result, W, len(indices), s_start(result, W) + len(indices) * s_step(result))',
        's_step(result) == d or len(indices) == 1',
    ])

_POS = '(is_none(key.step) or key.step > 0)'
_QQ = 'cond(is_none(key.stop) or (key.stop < 0 and key.stop + size < 0), _q0, _q1)'      # which of the two floor divisions ran
contract(UTIL, 'slice_to_ascending_slice',
    props=['C08', 'C03'],
    ghost_results=['_q0', '_q1'],
    params=dict(key='slice', size='int'), order=['key', 'size'],
    result='slice',
    requires=[
        'size >= 0',
        'is_none(key.step) or key.step != 0',        # every slice a user can write: start/stop None, negative or out of range
    ],
    ensures=[
        'is_none(result.step) or result.step > 0',
        # every position addressed by key is addressed by result (witness: index in the result) ...
        f'forall(lambda i, k: implies(nth(key, size, k, i), nth(result, size, cond({_POS}, k, cond(key.step == -1, i - s_start(result, size), {_QQ} - k)), i)))',
        # ... and vice versa: result addresses nothing else
        f'forall(lambda i, k: implies(nth(result, size, k, i), nth(key, size, cond({_POS}, k, cond(key.step == -1, s_start(key, size) - i, {_QQ} - k)), i)))',
    ],
    # same statement without the proof witnesses, for run-time evaluation (replay / bounded stand-in)
    ensures_concrete=[
        'result.step is None or result.step > 0',
        'R(result, size) == sorted(set(R(key, size)))',
    ])

_D = 'cond(len(bundle) >= 2, at(bundle, 1) - at(bundle, 0), 1)'
contract(TB, 'TypeBlocks._indices_to_contiguous_pairs',
    props=['C03', 'C04'],
    params=dict(indices='list[tuple[int,int]]'), order=['indices'],
    is_generator=True, yield_sort='tuple[int,slice]',
    ghost_params=dict(W='int'),
    requires=[
        # (block, column) pairs, each column valid for a block of width <= W, pairwise distinct
        'forall_in(0, len(indices), lambda j: 0 <= at(indices, j)[1] and at(indices, j)[1] < W)',
        'forall(lambda a, b: implies(0 <= a and a < b and b < len(indices), not (at(indices, a)[0] == at(indices, b)[0] and at(indices, a)[1] == at(indices, b)[1])))',
    ],
    ghost_init=['cut = 0'],
    n_loops=1,
    loops={0: dict(index='t', locals=dict(last='opt[tuple[int,int]]', bundle='list[int]', cut='int'),
        ghost_mods=['cut'],
        invariant=[
            '0 <= cut and cut <= t',
            'is_none(last) == (t == 0)',
            'implies(t == 0, cut == 0)',
            'implies(t > 0, last == at(indices, t - 1))',
            'implies(t > 0, len(bundle) == t - cut and len(bundle) >= 1)',
            'implies(t > 0, forall_in(0, len(bundle), lambda j: at(bundle, j) == at(indices, cut + j)[1] and at(indices, cut + j)[0] == at(indices, t - 1)[0]))',
            # hint: names the pair (t-2, t) that the distinctness precondition must be instantiated with
            'implies(t > 0 and len(bundle) >= 2, at(bundle, len(bundle) - 2) == at(indices, t - 2)[1] and at(indices, t - 2)[0] == at(indices, t - 1)[0])',
            f'implies(t > 0, ({_D} == 1 or {_D} == -1) and forall_in(0, len(bundle), lambda j: at(bundle, j) == at(bundle, 0) + j * {_D}))',
        ])},
    call_ghosts={'TypeBlocks._cols_to_slice': dict(d=_D, W='W')},
    # the yielded (block, slice) segments tile the key positions in order; segment expands to its sub-sequence
    at_yield=[
        'cut + len(bundle) <= len(indices)',
        'forall_in(0, len(bundle), lambda j: at(indices, cut + j)[0] == result[0] and nth(result[1], W, j, at(indices, cut + j)[1]))',
        'not nth(result[1], W, len(bundle), s_start(result[1], W) + len(bundle) * s_step(result[1]))',
    ],
    yield_update=['cut = cut + len(bundle)'],
    at_exit=['cut == len(indices)'],
    # callers see: the concatenated expansions of the yielded segments reproduce `indices`
    ensures=[])

CU = 'static_frame/core/container_util.py'
contract(CU, 'key_to_ascending_key',
    props=['C08'],
    params=dict(key='slice', size='int'), order=['key', 'size'], result='slice',
    requires=['size >= 0', 'is_none(key.step) or key.step != 0'],       # every slice a user can write, incl. negative start/stop
    ensures=[
        # from the property: the ascending key addresses exactly the positions the user's key addresses
        'is_none(result.step) or result.step > 0',
        f'forall(lambda i, k: implies(nth(key, size, k, i), nth(result, size, cond({_POS}, k, cond(key.step == -1, i - s_start(result, size), {_QQ} - k)), i)))',
        f'forall(lambda i, k: implies(nth(result, size, k, i), nth(key, size, cond({_POS}, k, cond(key.step == -1, s_start(key, size) - i, {_QQ} - k)), i)))',
    ],
    ensures_concrete=['result.step is None or result.step > 0', 'R(result, size) == sorted(set(R(key, size)))'])
