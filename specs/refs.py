"""Pure-Python reference functions used by the CONCRETE side of some contracts (replay / bounded
stand-ins) where the symbolic contract speaks about loop ghosts that do not exist at run time.
Each is written from the property statement, not from the code."""


def ref_slices_from_targets(target_index, target_values, length, forward, limit, cond):
    out = []
    n = len(target_index)
    for k in range(n):
        if forward:
            start, stop = target_index[k] + 1, (target_index[k + 1] if k + 1 < n else length)
        else:
            start, stop = (target_index[k - 1] + 1 if k > 0 else 0), target_index[k]
        if start >= stop or start >= length:
            continue
        if not cond(slice(start, stop)):
            continue
        if limit > 0 and stop - start > limit:
            if forward:
                stop = start + limit
            else:
                start = stop - limit
        out.append((slice(start, stop), target_values[k]))
    return out


def ref_tb_equals(a, b, compare_dtype, skipna):
    """content equivalence of two TypeBlocks proxies, from the property statement (C10)"""
    import numpy as np
    if a._shape != b._shape:
        return False
    if compare_dtype and list(a._dtypes) != list(b._dtypes):
        return False

    def cols(tb):
        out = []
        for blk in tb._blocks:
            arr = blk.a
            if arr.ndim == 1:
                out.append(arr)
            else:
                out.extend(arr[:, j] for j in range(arr.shape[1]))
        return out

    def missing(x):
        try:
            return bool(x != x) or (isinstance(x, (np.datetime64, np.timedelta64)) and bool(np.isnat(x)))
        except Exception:
            return False
    for ca, cb in zip(cols(a), cols(b)):
        for x, y in zip(ca.tolist() if ca.dtype.kind != 'O' else list(ca), cb.tolist() if cb.dtype.kind != 'O' else list(cb)):
            try:
                same = bool(x == y)
            except Exception:
                same = False
            if not same and not (skipna and missing(x) and missing(y)):
                return False
    return True


REFS = dict(ref_tb_equals=ref_tb_equals, ref_slices_from_targets=ref_slices_from_targets)
