"""Pure-Python reference functions used by the CONCRETE side of some contracts (replay / bounded
stand-ins) where the symbolic contract speaks about loop ghosts that do not exist at run time.
Each is written from the property statement, not from the code."""


def ref_slices_from_targets(target_index, target_values, length, forward, limit, cond):
    out = []
    n = len(target_index)
    for k in range(n):
        if forward:
            start, stop = target_index[k] + 1, (target_index[k + 1] if k + 1 < n else length)
        else:
            start, stop = (target_index[k - 1] + 1 if k > 0 else 0), target_index[k]
        if start >= stop or start >= length:
            continue
        if not cond(slice(start, stop)):
            continue
        if limit > 0 and stop - start > limit:
            if forward:
                stop = start + limit
            else:
                start = stop - limit
        out.append((slice(start, stop), target_values[k]))
    return out


def ref_tb_equals(a, b, compare_dtype, skipna):
    """content equivalence of two TypeBlocks proxies, from the property statement (C10)"""
    import numpy as np
    if a._shape != b._shape:
        return False
    if compare_dtype and list(a._dtypes) != list(b._dtypes):
        return False

    def cols(tb):
        out = []
        for blk in tb._blocks:
            arr = blk.a
            if arr.ndim == 1:
                out.append(arr)
            else:
                out.extend(arr[:, j] for j in range(arr.shape[1]))
        return out

    def missing(x):
        try:
            return bool(x != x) or (isinstance(x, (np.datetime64, np.timedelta64)) and bool(np.isnat(x)))
        except Exception:
            return False
    for ca, cb in zip(cols(a), cols(b)):
        for x, y in zip(ca.tolist() if ca.dtype.kind != 'O' else list(ca), cb.tolist() if cb.dtype.kind != 'O' else list(cb)):
            try:
                same = bool(x == y)
            except Exception:
                same = False
            if not same and not (skipna and missing(x) and missing(y)):
                return False
    return True


def ref_windows(n, size, step, window_sized, label_shift, start_shift, size_increment):
    """reference enumeration of windows from the property statement: anchor j has left = start_shift + j*step and
    size_j = size + j*size_increment; window = positions [max(left,0), max(left+size_j-1,-1)+1) that exist; label at left+size_j-1+label_shift"""
    out = []
    count_max = n if start_shift >= 0 else n + abs(start_shift)
    left, sz, count = start_shift, size, 0
    while True:
        right = left + sz - 1
        lo = min(max(left, 0), n)
        hi = min(max(max(right, -1) + 1, lo), n)
        lab = right + label_shift
        if 0 <= lab < n and (not window_sized or hi - lo == sz):
            out.append((lab, lo, hi))
        left += step
        sz += size_increment
        count += 1
        if count > count_max or left > count_max - 1 or sz < 0:
            break
    return out


def observed_windows(yields, n):
    """(label position, lo, hi) of each yielded (label, window Series) over a source whose labels are 100..100+n-1 and values 0..n-1"""
    out = []
    for label, w in yields:
        vals = list(w.values.tolist())
        lo = vals[0] if vals else None
        out.append((label - 100, lo, (lo + len(vals)) if vals else None))
    return out


def windows_agree(obs, ref):
    if len(obs) != len(ref):
        return False
    for (l1, lo1, hi1), (l2, lo2, hi2) in zip(obs, ref):
        if l1 != l2:
            return False
        if lo1 is None:
            if lo2 != hi2:
                return False
        elif (lo1, hi1) != (lo2, hi2):
            return False
    return True


def ref_map_slice_args(mapping, key, offset):
    off = 0 if offset is None else offset
    out = []
    for field in ('start', 'stop', 'step'):
        v = getattr(key, field)
        if v is None:
            out.append(None)
        elif field == 'step':
            out.append(v)
        else:
            out.append(mapping[v] + off + (1 if field == 'stop' else 0))
    return out


def ref_set_fold(arrays, union):
    """labels set algebra prescribes for ufunc_set_iter: (frozenset of labels); 2-D arrays: rows are labels"""
    def labs(a):
        a = getattr(a, 'a', a)      # proxy -> ndarray
        return frozenset(tuple(r) for r in a.tolist()) if a.ndim == 2 else frozenset(a.tolist())
    sets = [labs(a) for a in arrays]
    out = sets[0]
    for s_ in sets[1:]:
        out = (out | s_) if union else (out & s_)
    return out


def labels_of_array(a):
    a = getattr(a, 'a', a)
    return frozenset(tuple(r) for r in a.tolist()) if a.ndim == 2 else frozenset(a.tolist())


def ref_index_equals(a, b, compare_name, compare_dtype, compare_class, skipna):
    """content equivalence of two Index objects, from the property statement (C10)"""
    import numpy as np
    if a is b:
        return True
    if compare_class and a.__class__ is not b.__class__:
        return False
    if len(a) != len(b):
        return False
    if compare_name and a.name != b.name:
        return False
    if compare_dtype and a.values.dtype != b.values.dtype:
        return False

    def missing(x):
        if isinstance(x, (np.datetime64, np.timedelta64)):
            return bool(np.isnat(x))
        return isinstance(x, (float, np.floating)) and x != x
    for x, y in zip(list(a.values), list(b.values)):
        mx, my = missing(x), missing(y)
        if mx and my:
            if not skipna:
                return False
        elif mx or my:
            return False
        else:
            try:
                if not bool(x == y):
                    return False
            except Exception:
                return False
    return True


def ref_series_equals(a, b, compare_name, compare_dtype, compare_class, skipna):
    """content equivalence of two Series, from the property statement (C10): values as for an index, and the indices equal under the same options"""
    if a is b:
        return True
    if compare_class and a.__class__ is not b.__class__:
        return False
    if compare_name and a.name != b.name:
        return False

    class _V:      # the value vectors seen through the index predicate (name / class already compared above)
        def __init__(self, s):
            self.values, self.name, self.s = s.values, None, s

        def __len__(self):
            return len(self.values)
    if not ref_index_equals(_V(a), _V(b), False, compare_dtype, False, skipna):
        return False
    return ref_index_equals(a.index, b.index, compare_name, compare_dtype, compare_class, skipna)


def ref_has_missing(array):
    """does the array (or array proxy) hold a NaN / NaT / None cell?"""
    import numpy as np
    a = getattr(array, 'a', array)
    k = a.dtype.kind
    if k in 'fc':
        return bool(np.isnan(a).any())
    if k in 'mM':
        return bool(np.isnat(a).any())
    if k == 'O':
        return any(x is None or (isinstance(x, float) and x != x) for x in a.ravel())
    return False


def ref_series_assign(assign, value, fill_value, result):
    """Series.assign[key](Series value, fill_value): under every targeted label the result holds the value's cell for that label, or the fill value when the
    value lacks the label -- exactly, not a cast of it; every other cell is the container's"""
    cont = assign.container
    key = assign.key
    labels = list(cont.index.values)
    import numpy as np
    targeted = list(np.array(labels, dtype=object)[key]) if not isinstance(key, (int, np.integer)) else [labels[key]]

    def same(a, b):
        if isinstance(a, float) and a != a:
            return isinstance(b, float) and b != b
        try:
            return type(a) is not bool and type(b) is not bool and a == b or (a is b) or (type(a) is type(b) and a == b)
        except Exception:
            return False

    def py(x):
        return x.item() if hasattr(x, 'item') else x
    vmap = dict(zip(list(value.index.values), list(value.values)))
    got = dict(zip(list(result.index.values), list(result.values)))
    orig = dict(zip(labels, list(cont.values)))
    for lab in labels:
        want = (vmap[lab] if lab in vmap else fill_value) if lab in targeted else orig[lab]
        if not same(py(got[lab]), py(want)):
            return False
    return True


def ref_ih_coherent(h):
    """object invariant of an IndexHierarchy: a label table that is not flagged stale lists exactly the tuples of the label tree"""
    h = getattr(h, 'obj', h)
    if h._blocks is None:
        return bool(h._recache)
    if h._recache:
        return True
    rows = [tuple(r) for r in h._blocks.values.tolist()] if h._blocks.shape[0] else []
    tree = [tuple(x.item() if hasattr(x, 'item') else x for x in t) for t in h._levels]
    return rows == tree


def ref_ih_view(h, result, depth=None):
    """an array view of an IndexHierarchy lists the label tuples of its tree (depth: one level; None: the 2-D table)"""
    h = getattr(h, 'obj', h)
    tree = [tuple(x.item() if hasattr(x, 'item') else x for x in t) for t in h._levels]
    got = getattr(result, 'a', result)
    if depth is None:
        return [tuple(r) for r in got.tolist()] == tree
    return list(got.tolist()) == [t[depth] for t in tree]


def ref_dtype_per_depth(level, yields):
    """the dtype yielded for a depth can hold every label of every index node at that depth"""
    import numpy as np
    level = getattr(level, 'obj', level)
    from static_frame.core.util import resolve_dtype
    ys = list(yields)
    if len(ys) != level.depth:
        return False
    for d, dt in enumerate(ys):
        for nd in level.dtypes_at_depth(d):
            if resolve_dtype(np.dtype(dt), np.dtype(nd)) != np.dtype(dt):
                return False
    return True


def ref_frame_assign_series(assign, value, fill_value, result):
    """Frame.assign[row, columns](Series): under every addressed (row, column) the result holds the Series value labelled by that column (or the fill
    value when the Series lacks it); every other cell is the container's"""
    import numpy as np
    cont = assign.container
    rk, ck = assign.key if isinstance(assign.key, tuple) else (assign.key, None)
    rows = list(np.arange(cont.shape[0])[rk].ravel()) if rk is not None else list(range(cont.shape[0]))
    cols = list(np.arange(cont.shape[1])[ck].ravel()) if ck is not None else list(range(cont.shape[1]))
    clabels = list(cont.columns.values)
    vmap = dict(zip(list(value.index.values), list(value.values)))
    for i in range(cont.shape[0]):
        for j in range(cont.shape[1]):
            got = result.iloc[i, j]
            if i in rows and j in cols:
                want = vmap.get(clabels[j], fill_value)
            else:
                want = cont.iloc[i, j]
            same = (got != got and want != want) or got == want
            if not same:
                return False
    return True


def ref_frame_equals(a, b, compare_name, compare_dtype, compare_class, skipna):
    """content equivalence of two Frames, from the property statement (C10)"""
    import numpy as np
    if a is b:
        return True
    if compare_class and a.__class__ is not b.__class__:
        return False
    if a.shape != b.shape:
        return False
    if compare_name and a.name != b.name:
        return False
    if not ref_index_equals(a.index, b.index, compare_name, compare_dtype, compare_class, skipna):
        return False
    if not ref_index_equals(a.columns, b.columns, compare_name, compare_dtype, compare_class, skipna):
        return False

    class _V:
        def __init__(self, arr):
            self.values, self.name = arr, None

        def __len__(self):
            return len(self.values)
    for j in range(a.shape[1]):
        if not ref_index_equals(_V(a.iloc[:, j].values), _V(b.iloc[:, j].values), False, compare_dtype, False, skipna):
            return False
    return True


def ref_sort_order_by_key(index, ascending, key, result):
    """the permutation orders the rows of the key function's result lexicographically (depth 0 first), stably; descending is its exact reverse"""
    cfs = key(index)
    rows = [tuple(r) for r in cfs.values.tolist()] if getattr(cfs, 'depth', 1) > 1 else [(v,) for v in cfs.values.tolist()]
    want = sorted(range(len(rows)), key=lambda i: rows[i])
    if not ascending:
        want = want[::-1]
    return list(getattr(result, 'a', result).tolist()) == want


def ref_index_many(indices, cls_default, result):
    """the combined index is of the first input's class only when every input is of that class (else of the default class), and carries the first name only when
    every input carries it"""
    idx = [getattr(i, 'obj', i) for i in indices]
    c0 = idx[0].__class__
    if all(i.__class__ is c0 for i in idx):
        if c0.STATIC == cls_default.STATIC and type(result) is not c0:
            return False
    elif type(result) is not cls_default:
        return False
    want_name = idx[0].name if all(i.name == idx[0].name for i in idx) else None
    return result.name == want_name


def ref_consolidate(raw_blocks, yields):
    """the consolidated blocks present, column by column, the columns of the raw blocks: same dtype, same values"""
    import numpy as np

    def columns(blocks):
        out = []
        for b in blocks:
            a = getattr(b, 'a', b)
            if a.ndim == 1:
                out.append(a)
            else:
                out.extend(a[:, j] for j in range(a.shape[1]))
        return out
    src, got = columns(raw_blocks), columns(yields)
    if len(src) != len(got):
        return False
    for x, y in zip(src, got):
        if x.dtype != y.dtype or len(x) != len(y):
            return False
        for u, v in zip(x.tolist() if x.dtype.kind != 'O' else list(x), y.tolist() if y.dtype.kind != 'O' else list(y)):
            if not (u == v or (u != u and v != v)):
                return False
    return True


def ref_sorted_axis(container, result, axis, ascending, key):
    """sort_index / sort_columns: the (label, vector) pairs of the sorted axis are those of the input, ordered by the key of the label (stable; descending = exact
    reverse of ascending); the other axis and the name are unchanged"""
    import numpy as np
    f, r = container, result
    is_frame = hasattr(f, 'columns')
    lab = lambda c, ax: [tuple(x) if isinstance(x, (list, tuple, np.ndarray)) else x for x in (c.index if ax == 0 else c.columns).values.tolist()]
    vec = (lambda c, ax, i: tuple(np.asarray(c.iloc[i].values if ax == 0 else c.iloc[:, i].values).tolist())) if is_frame else (lambda c, ax, i: c.values.tolist()[i])
    n = len(lab(f, axis))
    idx = f.index if axis == 0 else f.columns
    if key is None:
        kv = lab(f, axis)
    else:
        k = key(idx)
        kv = [tuple(x) for x in k.values.tolist()] if getattr(k, 'ndim', 1) == 2 or getattr(k, 'depth', 1) > 1 else list(np.asarray(getattr(k, 'values', k)).tolist())
    order = sorted(range(n), key=lambda i: kv[i])
    if not ascending:
        order = order[::-1]
    want = [(lab(f, axis)[i], vec(f, axis, i)) for i in order]
    got = [(lab(r, axis)[i], vec(r, axis, i)) for i in range(n)]
    if got != want or r.name != f.name:
        return False
    if is_frame and lab(r, 1 - axis) != lab(f, 1 - axis):
        return False
    return True


REFS = dict(ref_sorted_axis=ref_sorted_axis, ref_consolidate=ref_consolidate, ref_index_many=ref_index_many, ref_sort_order_by_key=ref_sort_order_by_key, ref_frame_equals=ref_frame_equals, ref_frame_assign_series=ref_frame_assign_series, ref_dtype_per_depth=ref_dtype_per_depth, ref_ih_view=ref_ih_view, ref_ih_coherent=ref_ih_coherent, ref_series_assign=ref_series_assign, ref_has_missing=ref_has_missing, ref_index_equals=ref_index_equals, ref_series_equals=ref_series_equals, ref_set_fold=ref_set_fold, labels_of_array=labels_of_array, ref_map_slice_args=ref_map_slice_args, ref_windows=ref_windows, observed_windows=observed_windows, windows_agree=windows_agree, ref_tb_equals=ref_tb_equals, ref_slices_from_targets=ref_slices_from_targets)
