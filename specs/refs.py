"""Pure-Python reference functions used by the CONCRETE side of some contracts (replay / bounded
stand-ins) where the symbolic contract speaks about loop ghosts that do not exist at run time.
Each is written from the property statement, not from the code."""


def ref_slices_from_targets(target_index, target_values, length, forward, limit, cond):
    out = []
    n = len(target_index)
    for k in range(n):
        if forward:
            start, stop = target_index[k] + 1, (target_index[k + 1] if k + 1 < n else length)
        else:
            start, stop = (target_index[k - 1] + 1 if k > 0 else 0), target_index[k]
        if start >= stop or start >= length:
            continue
        if not cond(slice(start, stop)):
            continue
        if limit > 0 and stop - start > limit:
            if forward:
                stop = start + limit
            else:
                start = stop - limit
        out.append((slice(start, stop), target_values[k]))
    return out


REFS = dict(ref_slices_from_targets=ref_slices_from_targets)
