"""C20: Frame.set_index_hierarchy moves columns into row labels "without changing any cell or its row": the index is built from exactly the selected
columns, and when rows are re-ordered to make the labels hierarchical THE SAME permutation re-orders the data (opaque routing contract)."""
from . import contract, RECORDS

FR = 'static_frame/core/frame.py'
RECORDS['SihBlocks'] = dict(oid='elem', _shape='tuple[int,int]', shape='tuple[int,int]')
RECORDS['SihColumns'] = dict(oid='elem', values='elem')
RECORDS['SihFrame'] = dict(_blocks='SihBlocks', _columns='SihColumns', _index='elem', _name='elem')

_SEL = 'ufe("sel_cols", self._blocks.oid, ufe("l2i", self._columns.oid, old(columns)))'
_EXTRACT = dict(params=dict(row_key='opt[elem]', column_key='opt[elem]'), order=[], kwonly=['row_key', 'column_key'], defaults=dict(row_key='None', column_key='None'),
                result='SihBlocks')
contract(FR, 'Frame.set_index_hierarchy',
    props=['C20'],
    params=dict(self='SihFrame', columns='elem', drop='bool', index_constructors='elem', reorder_for_hierarchy='bool'),
    order=['self', 'columns'], kwonly=['drop', 'index_constructors', 'reorder_for_hierarchy'],
    defaults=dict(drop='False', reorder_for_hierarchy='False'),
    result='elem',
    calls={
        # `columns` is a list / slice of labels here (a tuple key only changes the name given to the index)
        'isinstance': dict(params={}, order=['o', 't'], result='bool', ensures=['not result']),
        'self._columns._loc_to_iloc': dict(params=dict(k='elem'), order=['k'], result='elem', ensures=['result == ufe("l2i", self._columns.oid, k)']),
        'self._columns.values.__getitem__': dict(params=dict(k='elem'), order=['k'], result='elem', ensures=['result == ufe("labels_at", self._columns.oid, k)']),
        'tuple': dict(params=dict(x='elem'), order=['x'], result='elem', ensures=['result == ufe("astuple", x)']),
        # ASSUMED block-store contracts: selecting columns / taking rows by a permutation
        'self._blocks._extract': dict(_EXTRACT, ensures=['implies(is_none(row_key), result.oid == ufe("sel_cols", self._blocks.oid, column_key))',
                                                         'implies(is_none(column_key), result.oid == ufe("take_rows", self._blocks.oid, row_key))',
                                                         'result._shape == result.shape']),
        'range': dict(params={}, order=['n'], result='elem', ensures=['True']),
        # ASSUMED: rehierarch returns the hierarchical index of the re-ordered label rows AND the permutation that re-orders them
        'rehierarch_from_type_blocks': dict(params=dict(labels='SihBlocks', depth_map='elem', index_constructors='elem', name='elem'), order=[],
                                            kwonly=['labels', 'depth_map', 'index_cls', 'index_constructors', 'name'], result='tuple[elem,elem]',
                                            ensures=['result[1] == ufe("rehier_order", labels.oid)',
                                                     'result[0] == ufe("ih", ufe("take_rows", labels.oid, ufe("rehier_order", labels.oid)), index_constructors, name)']),
        'IndexHierarchy._from_type_blocks': dict(params=dict(blocks='SihBlocks', index_constructors='elem', name='elem', own_blocks='bool'), order=['blocks'],
                                                 kwonly=['index_constructors', 'name', 'own_blocks'], result='elem',
                                                 ensures=['result == ufe("ih", blocks.oid, index_constructors, name)']),
        'blocks_src._drop_blocks': dict(params=dict(column_key='elem'), order=[], kwonly=['column_key'], result='elem', ensures=['result == ufe("drop_cols", blocks_src.oid, column_key)']),
        'TypeBlocks.from_blocks': dict(params=dict(raw='elem', shape_reference='tuple[int,int]'), order=['raw'], kwonly=['shape_reference'], result='SihBlocks',
                                       ensures=['result.oid == raw']),
        'self._columns._drop_iloc': dict(params=dict(k='elem'), order=['k'], result='SihColumns', ensures=['result.oid == ufe("drop_labels", self._columns.oid, k)']),
        'self.__class__': dict(params=dict(data='SihBlocks', columns='SihColumns', index='elem', name='elem'), order=['data'],
                               kwonly=['columns', 'index', 'own_data', 'own_columns', 'own_index', 'name'], result='elem',
                               ensures=['result == ufe("frame", data.oid, index, columns.oid, name)']),
    },
    ensures=[
        # the data rows: untouched, or re-ordered by exactly the permutation that orders the labels; the selected columns dropped iff asked
        ('result == ufe("frame", cond(drop, ufe("drop_cols", {src}, {i}), {src}), {idx}, cond(drop, ufe("drop_labels", self._columns.oid, {i}), self._columns.oid), self._name)').format(
            i='ufe("l2i", self._columns.oid, old(columns))',
            src='cond(reorder_for_hierarchy, ufe("take_rows", self._blocks.oid, ufe("rehier_order", %s)), self._blocks.oid)' % _SEL,
            idx='cond(reorder_for_hierarchy, ufe("ih", ufe("take_rows", %s, ufe("rehier_order", %s)), index_constructors, %s), ufe("ih", %s, index_constructors, %s))'
                % (_SEL, _SEL, 'ufe("astuple", ufe("labels_at", self._columns.oid, ufe("l2i", self._columns.oid, old(columns))))', _SEL,
                   'ufe("astuple", ufe("labels_at", self._columns.oid, ufe("l2i", self._columns.oid, old(columns))))')),
    ])
