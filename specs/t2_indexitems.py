"""C11 / C05: IndexHierarchy.from_index_items (the two-level labels of Frame/Series.from_concat_items): the k-th inner level is built from the k-th
item's index and starts at the row offset that is the sum of the lengths of the items before it -- "cells are found under the label they had" needs
exactly this: a level that starts anywhere else maps (outer label k, inner label) to rows of another item.
Opaque routing/offset contract: a level is a record (index, offset, targets); the target array is opaque, its k-th member is seen through
ufi("tgt_offset", T, k) / ufe("tgt_index", T, k); len of an index is the uninterpreted len_elem."""
from . import contract, RECORDS

IH = 'static_frame/core/index_hierarchy.py'
RECORDS['IiLevel'] = dict(index='elem', offset='int', targets='opt[elem]')
RECORDS['IiCls'] = dict(STATIC='bool', _INDEX_CONSTRUCTOR='elem')
RECORDS['IiResult'] = dict(levels='IiLevel')

_N = 'len(old(items))'
contract(IH, 'IndexHierarchy.from_index_items',
    props=['C11', 'C05'],
    params=dict(cls='IiCls', items='list[tuple[elem,elem]]', index_constructor='opt[elem]'), order=['cls', 'items'], kwonly=['index_constructor'],
    defaults=dict(index_constructor='None'),
    result='IiResult',
    calls={
        # ASSUMED: the static/grow-only filter returns an index with the same labels (same length); identity of the result: ufe("static", .)
        'mutable_immutable_index_filter': dict(params=dict(target_static='bool', index='elem'), order=['target_static', 'index'], result='elem',
                                               ensures=['result == ufe("static", index)', 'len(result) == len(index)']),
        # the level constructor stores its arguments (IndexLevel.__init__: fields = arguments; offset defaults to 0, targets to None)
        'cls._LEVEL_CONSTRUCTOR': dict(params=dict(index='elem', targets='opt[elem]', offset='int', own_index='bool', depth_reference='opt[int]'),
                                       order=['index', 'targets', 'offset', 'own_index', 'depth_reference'],
                                       defaults=dict(targets='None', offset='0', own_index='False', depth_reference='None'), result='IiLevel',
                                       ensures=['result.index == index and result.offset == offset', 'result.targets == targets']),
        # ASSUMED: an object array built from a list holds the list's members in order
        'np.array': dict(params=dict(xs='list[IiLevel]'), order=['xs'], kwonly=['dtype'], result='elem',
                         ensures=['ufi("tgt_len", result) == len(xs)',
                                  'forall_in(0, len(xs), lambda k: ufi("tgt_offset", result, k) == at(xs, k).offset and ufe("tgt_index", result, k) == at(xs, k).index)']),
        # ASSUMED: ArrayGO over an array presents that array
        'ArrayGO': dict(params=dict(a='elem'), order=['a'], kwonly=['own_iterable'], result='elem', ensures=['result == a']),
        # ASSUMED: the outer index lists `labels` in order
        'index_from_optional_constructor': dict(params=dict(labels='list[elem]'), order=['labels'], kwonly=['default_constructor', 'explicit_constructor'], result='elem',
                                                ensures=['ufi("idx_len", result) == len(labels)', 'forall_in(0, len(labels), lambda k: ufe("label_at", result, k) == at(labels, k))']),
        'cls': dict(params=dict(levels='IiLevel'), order=['levels'], result='IiResult', ensures=['result.levels == levels']),
    },
    n_loops=1,
    loops={0: dict(index='t', locals=dict(labels='list[elem]', index_levels='list[IiLevel]', offset='int'), invariant=[
        'len(labels) == t and len(index_levels) == t',
        'forall_in(0, t, lambda k: at(labels, k) == at(old(items), k)[0] and at(index_levels, k).index == ufe("static", at(old(items), k)[1]))',
        'implies(t >= 1, at(index_levels, 0).offset == 0)',
        'forall_in(0, t - 1, lambda k: at(index_levels, k + 1).offset == at(index_levels, k).offset + len(at(old(items), k)[1]))',
        'offset == cond(t == 0, 0, at(index_levels, t - 1).offset + len(at(old(items), t - 1)[1]))',
    ])},
    ensures=[
        'not is_none(result.levels.targets)',
        # the outer level lists the item labels in order, one inner level per item, built from that item's index
        f'ufi("idx_len", result.levels.index) == {_N} and ufi("tgt_len", T_) == {_N}'.replace('T_', 'result.levels.targets'),
        f'forall_in(0, {_N}, lambda k: ufe("label_at", result.levels.index, k) == at(old(items), k)[0])',
        f'forall_in(0, {_N}, lambda k: ufe("tgt_index", T_, k) == ufe("static", at(old(items), k)[1]))'.replace('T_', 'result.levels.targets'),
        # row offsets: the first level starts at 0, each next level starts where the previous one ends
        f'implies({_N} >= 1, ufi("tgt_offset", T_, 0) == 0)'.replace('T_', 'result.levels.targets'),
        f'forall_in(0, {_N} - 1, lambda k: ufi("tgt_offset", T_, k + 1) == ufi("tgt_offset", T_, k) + len(at(old(items), k)[1]))'.replace('T_', 'result.levels.targets'),
    ])
