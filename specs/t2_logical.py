"""C15: util._ufunc_logical_skipna (all / any) -- "without skipna a missing cell ... is rejected for logical reductions and never silently treated as a
number".  Rejection discipline only (lenient): for a non-empty array and ufunc in {np.all, np.any} the call raises TypeError exactly when the dtype kind
can hold a missing value (float, complex, datetime64, timedelta64, object), a missing cell is present and skipna is off.  The reduction values themselves
(NumPy's all / any over the prepared array) are over-approximated; the stand-in compares them.
ub("hasna", a) = the array with ghost identity a holds at least one missing cell (isna_array(...).any())."""
from . import contract, RECORDS

UTIL = 'static_frame/core/util.py'
RECORDS['LMask'] = dict(src='int')

_NACAP = 'kind_is(array.dtype, "f", "c", "M", "m", "O")'
contract(UTIL, '_ufunc_logical_skipna',
    props=['C15'],
    lenient=True, lenient_protect=[],
    params=dict(array='arr', ufunc='elem', skipna='bool', axis='int', out='opt[elem]'), order=['array', 'ufunc', 'skipna', 'axis', 'out'],
    defaults=dict(axis='0', out='None'),
    result='elem',
    requires=['array.rows >= 1', 'array.ndim == 1 or array.ndim == 2'],
    calls={
        'len': dict(params=dict(a='arr'), order=['a'], result='int', ensures=['result == a.rows']),
        # ASSUMED: isna_array marks the missing cells; .any() of the mask says whether there is one
        'isna_array': dict(params=dict(a='arr'), order=['a'], result='LMask', ensures=['result.src == a.off']),
        'isna.any': dict(params={}, order=[], result='bool', ensures=['result == ub("hasna", array.src, array.off)']),
    },
    free_conditions=['ufunc != np.all and ufunc != np.any'],
    raises={'TypeError': f'{_NACAP} and ub("hasna", array.src, array.off) and not skipna', 'NotImplementedError': 'maybe',
            'Exception': 'maybe'},       # whatever NumPy's own all / any / full raise on the prepared array (not TypeError from this function's own raise statements)
    concrete_inputs='specs.t2_logical:concrete_inputs',
    requires_concrete=[],
    raises_concrete={'TypeError': 'ref_has_missing(array) and not skipna', 'NotImplementedError': 'maybe', 'Exception': 'maybe'},
    ensures_concrete=['not (ref_has_missing(array) and not skipna)'],       # a normal return means nothing had to be rejected
    ensures=['True'])


def concrete_inputs(model):
    """the counter-model fixes skipna and the shape; the dtype is an opaque token: try one array with a missing cell per kind that can hold one"""
    import numpy as np
    skipna = bool(model.get('skipna'))
    cands = []
    pool = [np.array([1.5, np.nan, 3.0]), np.array([1 + 2j, np.nan, 3.0]), np.array(['2020-01-01', 'NaT', '2020-01-03'], dtype='datetime64[D]'),
            np.array([3, 'NaT', 0], dtype='timedelta64[D]'), np.array([1, None, 'a'], dtype=object), np.array([1.5, 2.5]), np.array([3, 1], dtype='timedelta64[D]')]
    for a in pool:
        for uf in (np.all, np.any):
            for arr in (a, np.stack([a, a], axis=1)):
                cands.append(dict(array=arr, ufunc=uf, skipna=skipna, axis=0, out=None))
    return cands
