"""Everything that is assumed, not proved (reported in every evidence file)."""
TRUSTED_ALWAYS = [
    'pyvc itself (AST->SMT translator written for this task; cross-checked against CPython, canaries, seeded mutants)',
    'z3 4.x/5.1 and cvc5 1.0.3 (SMT back ends)',
    'CPython 3.12 semantics as encoded: mathematical ints, floor division, slice.indices (PySlice_AdjustIndices), list/tuple value semantics (aliasing of mutated lists is rejected as unsupported, not modelled)',
    'UnboundLocalError is not modelled for locals declared in a loop contract',
]
ASSUMPTIONS_ALWAYS = [
    'NumPy 2.5.3 / automap / stdlib behave as the assumed contracts in specs/assumed_*.py state (probed on small inputs, not proved)',
    'machine integers inside NumPy arrays are treated as mathematical integers',
    'user subclasses of the containers and attribute re-binding by the caller are out of scope',
]
