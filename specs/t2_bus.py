"""C17: Bus store reader (per-label config, label order, batching by max_persist)."""
from . import contract

BUS = 'static_frame/core/bus.py'

_FR = 'ufe("read", at(labels, j), ufe("cfg", config, at(labels, j)))'      # the Frame an eager load of label j returns
contract(BUS, 'Bus._store_reader',
    props=['C17'],
    params=dict(store='elem', config='elem', labels='list[elem]', max_persist='opt[int]'),
    order=['store', 'config', 'labels', 'max_persist'],
    is_generator=True, yield_sort='elem',
    requires=['is_none(max_persist) or max_persist >= 1'],
    calls={
        # ASSUMED Store contracts (C17 stand-in exercises the real stores): read_many returns the frames of the labels in label
        # order, each read with that label's config out of the map; read returns the frame for (label, config)
        'store.read_many': dict(params=dict(labels='list[elem]', config='elem'), order=['labels', 'config'], result='list[elem]',
                                ensures=['len(result) == len(labels)',
                                         'forall_in(0, len(labels), lambda k: at(result, k) == ufe("read", at(labels, k), ufe("cfg", config, at(labels, k))))']),
        'store.read': dict(params=dict(label='elem', config='elem'), order=['label', 'config'], result='elem',
                           ensures=['result == ufe("read", label, config)']),
        'config.__getitem__': dict(params=dict(key='elem'), order=['key'], result='elem', loose=True,
                                   ensures=['result == ufe("cfg", config, key)']),
    },
    call_ghosts={},
    ghost_init=['j = 0'],
    n_loops=5,
    loops={
        0: dict(index='u', locals=dict(j='int'), ghost_mods=['j'], invariant=['j == u']),
        1: dict(index='t', locals=dict(j='int', coll='list[elem]'), ghost_mods=['j'], invariant=[
            'max_persist > 1 and j + len(coll) == t and len(coll) < max_persist and 0 <= j',
            'forall_in(0, len(coll), lambda k: at(coll, k) == at(labels, j + k))']),
        2: dict(index='u', locals=dict(j='int'), ghost_mods=['j'], invariant=[
            'j == t + 1 - len(coll) + u and len(coll) == max_persist and 0 <= t + 1 - len(coll)',
            'forall_in(0, len(coll), lambda k: at(coll, k) == at(labels, t + 1 - len(coll) + k))']),
        3: dict(index='u', locals=dict(j='int'), ghost_mods=['j'], invariant=[
            'j == len(labels) - len(coll) + u and 0 <= len(labels) - len(coll)',
            'forall_in(0, len(coll), lambda k: at(coll, k) == at(labels, len(labels) - len(coll) + k))']),
        4: dict(index='t', locals=dict(j='int'), ghost_mods=['j'], invariant=['j == t']),
    },
    # every yielded Frame is the one stored under the next label, read with THAT label's config, in label order
    at_yield=['j < len(labels)', f'result == {_FR}'],
    yield_update=['j = j + 1'],
    at_exit=['j == len(labels)'],
    concrete_inputs='specs.t2_bus:concrete_inputs',
    requires_concrete=[],
    at_yield_concrete=['j < len(_labels)', 'result == ("frame", _labels[j], ("cfg", _labels[j]))'],
    at_exit_concrete=['j == len(_labels)'])


# ---- concrete side: stub Store / StoreConfigMap that record which config each label was read with -------------
class _StubStore:
    def read(self, label, *, config=None):
        return ('frame', label, config)

    def read_many(self, labels, *, config=None):
        for label in labels:
            yield ('frame', label, config[label])


class _StubConfigMap:
    """like StoreConfigMap: a per-label config, the default config for anything that is not a known label"""

    def __getitem__(self, key):
        return ('cfg', key) if isinstance(key, str) else ('cfg-default',)


def concrete_inputs(model):
    labels = [str(x) for x in model.get('labels', [])]
    labels = [f'{l}#{i}' for i, l in enumerate(labels)]
    return dict(store=_StubStore(), config=_StubConfigMap(), labels=iter(list(labels)), max_persist=model.get('max_persist'), _labels=labels)


# ---- C17: stale-file detection.  mtimes are opaque values: only (in)equality is used by the code and by the property ------------
STORE = 'static_frame/core/store.py'
from . import RECORDS
RECORDS.setdefault('Store', dict(_fp='elem', _last_modified='elem'))
contract(STORE, 'Store._mtime_coherent',
    props=['C17'],
    params=dict(self='Store'), order=['self'],
    calls={
        # ASSUMED models of the OS / NumPy calls: pure functions of their argument at the time of the call
        'os.path.exists': dict(params=dict(p='elem'), order=['p'], result='bool', ensures=['result == ube("exists", p)']),
        'os.path.getmtime': dict(params=dict(p='elem'), order=['p'], result='elem', ensures=['result == ufe("mtime", p)']),
        'np.isnan': dict(params=dict(x='elem'), order=['x'], result='bool', ensures=['result == ube("isnan", x)']),
    },
    # the next read raises the store-mutation error iff the file is there with ANY other modification time than the one
    # recorded (newer or older), or is gone although a time had been recorded
    raises={'StoreFileMutation': '(ube("exists", self._fp) and ufe("mtime", self._fp) != self._last_modified) or '
                                 '(not ube("exists", self._fp) and not ube("isnan", self._last_modified))'},
    ensures=['True'])


# ---- C17: the load / evict loop of the Bus.  Counter discipline (lenient contract: array, dict and Series operations are over-approximated):
# the number of loaded Frames tracked by `loaded_count` never exceeds max_persist once an iteration is complete; every flag set in `_loaded` is
# counted, every eviction clears one flag and uncounts it (ghost counter g mirrors the flag writes).  NOT covered here: that the evicted label is
# the least recently used one and that `_last_accessed` holds exactly the loaded labels (decided by the bounded history stand-in).
RECORDS['LruBus'] = dict(_max_persist='opt[int]', _loaded_all='bool')
contract(BUS, 'Bus._update_series_cache_iloc',
    props=['C17'],
    params=dict(self='LruBus'), order=['self', 'key'],
    ghost_params=dict(L0='int'),          # number of Frames loaded on entry
    lenient=True, lenient_protect=['loaded_count', 'max_persist_active', 'g'],
    requires=['implies(not is_none(self._max_persist), self._max_persist >= 1 and 0 <= L0 and L0 <= self._max_persist)'],
    raises={'RuntimeError': 'maybe', 'Exception': 'maybe', 'StopIteration': 'maybe'},
    result='none',
    calls={'self._loaded.sum': dict(params={}, order=[], result='int', ensures=['result == L0'])},      # ASSUMED: the flag array holds L0 True entries on entry
    ghost_init=['g = L0'],
    ghost_after={'self._loaded[idx] = True': ['g = g + 1'],
                 'self._loaded[idx_remove] = False': ['g = g - 1']},
    n_loops=2,
    loops={0: dict(index='u', locals={}, invariant=[]),      # LRU refresh only (everything requested is loaded)
           1: dict(index='t', locals=dict(loaded_count='int', g='int'), ghost_mods=['g'], invariant=[
               'implies(max_persist_active, g == loaded_count and 0 <= loaded_count and loaded_count <= self._max_persist)'])},
    ensures=['implies(not is_none(self._max_persist), True)'])
