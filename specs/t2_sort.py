"""C12: sort_index_for_order routes labels to the sort primitives so that depth 0 is the primary key,
the requested kind is forwarded, and descending is exactly the reverse of the ascending order."""
from . import contract, RECORDS

CU = 'static_frame/core/container_util.py'
RECORDS['SortIndex'] = dict(depth='int', n='int', values='elem', oid='elem')

contract(CU, 'sort_index_for_order',
    props=['C12'],
    params=dict(index='SortIndex', ascending='bool', kind='elem'), order=['index', 'ascending', 'kind', 'key'],
    variants=[dict(key='opt[int]')],          # key=None (the key-function path is covered by the bounded stand-in)
    requires=['is_none(key)', 'index.depth >= 1 and index.n >= 0'],
    result='elem',
    calls={
        # ASSUMED NumPy contracts: lexsort(keys) is THE stable permutation ordering by the LAST key first;
        # argsort(v, kind) is the stable permutation when kind is a stable kind (DEFAULT_SORT_KIND, checked separately)
        'np.lexsort': dict(params=dict(keys='list[elem]'), order=['keys'], result='elem',
                           # the caller must establish: key j is the label array of depth (depth-1-j), i.e. depth 0 is the LAST (= primary) key
                           requires=['len(keys) == index.depth',
                                     'forall_in(0, len(keys), lambda j: at(keys, j) == ufe("vad", index.oid, index.depth - 1 - j))'],
                           ensures=['result == ufe("lexperm", index.oid)']),
        'cfs.values_at_depth': dict(params=dict(d='int'), order=['d'], result='elem', result_expr='ufe("vad", cfs.oid, d)'),
        'np.argsort': dict(params=dict(a='elem'), order=['a', 'axis', 'kind'], defaults=dict(axis='-1', kind='"quicksort"'), result='elem',
                           ensures=['result == ufe("argsort", a, kind)']),
        'order.__getitem__': dict(params=dict(key='slice'), order=['key'], result='elem',
                                  requires=['is_none(key.start) and is_none(key.stop) and key.step == -1'],
                                  ensures=['result == ufe("rev", order)']),
    },
    ghost_init=[],
    ensures=[
        'implies(index.depth == 1 and ascending, result == ufe("argsort", index.values, kind))',       # requested kind forwarded
        'implies(index.depth == 1 and not ascending, result == ufe("rev", ufe("argsort", index.values, kind)))',   # descending = exact reverse
        'implies(index.depth > 1 and ascending, result == ufe("lexperm", index.oid))',
        'implies(index.depth > 1 and not ascending, result == ufe("rev", ufe("lexperm", index.oid)))',
    ])


# ---- Series.sort_values: one permutation, computed from the values (or the key function's result), applied to labels AND values ----
SER = 'static_frame/core/series.py'
RECORDS['SortSeries'] = dict(values='elem', _index='elem', _name='elem')
_ARGSORT = dict(params=dict(a='elem'), order=['a', 'axis', 'kind'], defaults=dict(axis='-1', kind='"quicksort"'), result='elem',
                ensures=['result == ufe("argsort", a, kind)'])
_REV = dict(params=dict(key='slice'), order=['key'], result='elem',
            requires=['is_none(key.start) and is_none(key.stop) and key.step == -1'], ensures=['result == ufe("rev", order)'])
_ORD = 'cond(ascending, ufe("argsort", {v}, kind), ufe("rev", ufe("argsort", {v}, kind)))'
contract(SER, 'Series.sort_values',
    props=['C12'],
    params=dict(self='SortSeries', ascending='bool', kind='elem'), order=['self'], kwonly=['ascending', 'kind', 'key'],
    variants=[dict(key='opt[int]')],          # key=None (key functions: bounded stand-in)
    requires=['is_none(key)'],
    result='elem',
    calls={
        'np.argsort': _ARGSORT,
        'order.__getitem__': _REV,
        # ASSUMED: fancy indexing of the label index / the value array by a permutation = the take() of that permutation (fresh array)
        'self._index.__getitem__': dict(params=dict(key='elem'), order=['key'], result='elem', ensures=['result == ufe("take", self._index, key)']),
        'self.values.__getitem__': dict(params=dict(key='elem'), order=['key'], result='arr',
                                        ensures=['result.fresh and result.writeable and result.ndim == 1', 'ufe("content", result.src) == ufe("take", self.values, key)']),
        'self.__class__': dict(params=dict(values='arr', index='elem', name='elem', own_index='bool'), order=['values'], kwonly=['index', 'name', 'own_index'],
                               result='elem', requires=['not values.writeable'],     # the constructor takes a frozen array as is
                               ensures=['result == ufe("series", ufe("content", values.src), index, name)']),
    },
    ensures=[
        # the result holds labels and values both taken through THE SAME permutation: the stable argsort of the values with the
        # requested kind, reversed as a whole for a descending sort; the name is kept
        'result == ufe("series", ufe("take", self.values, %s), ufe("take", self._index, %s), self._name)' % (_ORD.format(v='self.values'), _ORD.format(v='self.values')),
    ])


# ---- Frame.sort_values (no key function): key columns feed lexsort LAST-KEY-FIRST so that the first label is the primary key; the same
# permutation reorders the labels and the data of the sorted axis; the other axis is untouched -----------------------------------------
FR = 'static_frame/core/frame.py'
RECORDS['SortFrame'] = dict(_index='elem', _columns='elem', _blocks='elem', _name='elem', shape='tuple[int,int]')
RECORDS['SortTB'] = dict(ndim='int', shape='tuple[int,int]', oid='elem')
_LEX = dict(params=dict(keys='list[elem]'), order=['keys'], result='elem',
            # the caller must establish: key j is sort vector number (m-1-j) of the selection, i.e. the FIRST label is the LAST (= primary) lexsort key
            requires=['len(keys) == cfs.shape[{ax}]', 'len(keys) >= 2',
                      'forall_in(0, len(keys), lambda j: at(keys, j) == ufe("vec", cfs.oid, cfs.shape[{ax}] - 1 - j))'],
            ensures=['result == ufe("lexperm", cfs.oid)'])
_FORD = 'cond(ascending, {p}, ufe("rev", {p}))'


def _perm(ax):
    sel = 'ufe("sel", self._blocks, ufe("l2i", self.%s, label), %d)' % ('_columns' if ax == 1 else '_index', ax)
    return 'cond(M == 1, ufe("argsort", ufe("vec", %s, 0), kind), ufe("lexperm", %s))' % (sel, sel)


contract(FR, 'Frame.sort_values', key='Frame.sort_values[axis=1]',
    props=['C12'],
    params=dict(self='SortFrame', label='elem', ascending='bool', axis='int', kind='elem'), order=['self', 'label'], kwonly=['ascending', 'axis', 'kind', 'key'],
    ghost_params=dict(M='int'),            # number of key columns selected by `label`
    variants=[dict(key='opt[int]')],
    requires=['is_none(key)', 'axis == 1', 'M >= 1'],
    result='elem',
    calls={
        'self._columns._loc_to_iloc': dict(params=dict(k='elem'), order=['k'], result='elem', ensures=['result == ufe("l2i", self._columns, k)']),
        # ASSUMED: column selection out of the block store gives a TypeBlocks of all rows x the M selected columns (key order)
        'self._blocks._extract': dict(params=dict(column_key='elem'), order=[], kwonly=['column_key'], result='SortTB',
                                      ensures=['result.ndim == 2 and result.shape[0] == self.shape[0] and result.shape[1] == M',
                                               'result.oid == ufe("sel", self._blocks, column_key, 1)']),
        'cfs._extract_array': dict(params=dict(column_key='int'), order=[], kwonly=['column_key'], result='elem', result_expr='ufe("vec", cfs.oid, column_key)'),
        'np.lexsort': dict(_LEX, requires=[r.format(ax=1) for r in _LEX['requires']]),
        'np.argsort': _ARGSORT,
        'order.__getitem__': _REV,
        'self._index.__getitem__': dict(params=dict(key='elem'), order=['key'], result='elem', ensures=['result == ufe("take", self._index, key)']),
        'self._blocks.iloc.__getitem__': dict(params=dict(key='elem'), order=['key'], result='elem', ensures=['result == ufe("take_rows", self._blocks, key)']),
        'self.__class__': dict(params=dict(data='elem', index='elem', columns='elem', name='elem'), order=['data'],
                               kwonly=['index', 'columns', 'name', 'own_data', 'own_index', 'own_columns'], defaults=dict(own_columns='False', own_index='False', own_data='False'),
                               result='elem', ensures=['result == ufe("frame", data, index, columns, name)']),
    },
    rec_classes={'SortTB': ['TypeBlocks']},
    ensures=[
        'result == ufe("frame", ufe("take_rows", self._blocks, %s), ufe("take", self._index, %s), self._columns, self._name)' % (_FORD.format(p=_perm(1)), _FORD.format(p=_perm(1))),
    ])


# axis == 0: columns are reordered by one or more ROWS (consolidated row arrays).  Two contracts: one label (1-D row array) / a list of labels
RECORDS['SortArr'] = dict(ndim='int', shape='tuple[int,int]', oid='elem')
_SEL0 = 'ufe("sel", self._blocks, ufe("l2i", self._index, label), 0)'
_CALLS0 = {
    'self._index._loc_to_iloc': dict(params=dict(k='elem'), order=['k'], result='elem', ensures=['result == ufe("l2i", self._index, k)']),
    'order.__getitem__': _REV,
    'self._columns.__getitem__': dict(params=dict(key='elem'), order=['key'], result='elem', ensures=['result == ufe("take", self._columns, key)']),
    'self._blocks.__getitem__': dict(params=dict(key='elem'), order=['key'], result='elem', ensures=['result == ufe("take_cols", self._blocks, key)']),
    'self.__class__': dict(params=dict(data='elem', index='elem', columns='elem', name='elem'), order=['data'],
                           kwonly=['index', 'columns', 'name', 'own_data', 'own_index', 'own_columns'], defaults=dict(own_columns='False', own_index='False', own_data='False'),
                           result='elem', ensures=['result == ufe("frame", data, index, columns, name)']),
}
_POST0 = 'result == ufe("frame", ufe("take_cols", self._blocks, %s), self._index, ufe("take", self._columns, %s), self._name)'
_P0S = 'ufe("argsort_o", %s, kind)' % _SEL0
contract(FR, 'Frame.sort_values', key='Frame.sort_values[axis=0,one label]',
    props=['C12'],
    params=dict(self='SortFrame', label='elem', ascending='bool', axis='int', kind='elem'), order=['self', 'label'], kwonly=['ascending', 'axis', 'kind', 'key'],
    variants=[dict(key='opt[int]')],
    requires=['is_none(key)', 'axis == 0'],
    result='elem',
    calls=dict(_CALLS0, **{
        # ASSUMED: selecting ONE row out of the block store gives one consolidated 1-D array
        'self._blocks._extract_array': dict(params=dict(row_key='elem'), order=[], kwonly=['row_key'], result='SortArr',
                                            ensures=['result.ndim == 1', 'result.oid == ufe("sel", self._blocks, row_key, 0)']),
        'np.argsort': dict(params=dict(a='SortArr'), order=['a', 'axis', 'kind'], defaults=dict(axis='-1', kind='"quicksort"'), result='elem',
                           ensures=['result == ufe("argsort_o", a.oid, kind)']),
    }),
    ensures=[_POST0 % (_FORD.format(p=_P0S), _FORD.format(p=_P0S))])

_P0L = 'cond(M == 1, ufe("argsort", ufe("row", %s, 0), kind), ufe("lexperm", %s))' % (_SEL0, _SEL0)
contract(FR, 'Frame.sort_values', key='Frame.sort_values[axis=0,label list]',
    props=['C12'],
    params=dict(self='SortFrame', label='elem', ascending='bool', axis='int', kind='elem'), order=['self', 'label'], kwonly=['ascending', 'axis', 'kind', 'key'],
    ghost_params=dict(M='int'),            # number of key rows
    variants=[dict(key='opt[int]')],
    requires=['is_none(key)', 'axis == 0', 'M >= 1'],
    result='elem',
    calls=dict(_CALLS0, **{
        # ASSUMED: selecting M rows out of the block store gives one consolidated M x columns array
        'self._blocks._extract_array': dict(params=dict(row_key='elem'), order=[], kwonly=['row_key'], result='SortArr',
                                            ensures=['result.ndim == 2', 'result.shape[0] == M and result.shape[1] == self.shape[1]',
                                                     'result.oid == ufe("sel", self._blocks, row_key, 0)']),
        'cfs.__getitem__': dict(params=dict(key='int'), order=['key'], result='elem', result_expr='ufe("row", cfs.oid, key)'),
        'np.lexsort': dict(params=dict(keys='list[elem]'), order=['keys'], result='elem',
                           requires=['len(keys) == cfs.shape[0]', 'len(keys) >= 2',
                                     'forall_in(0, len(keys), lambda j: at(keys, j) == ufe("row", cfs.oid, cfs.shape[0] - 1 - j))'],
                           ensures=['result == ufe("lexperm", cfs.oid)']),
        'np.argsort': _ARGSORT,
    }),
    ensures=[_POST0 % (_FORD.format(p=_P0L), _FORD.format(p=_P0L))])


# axis == 1 with a key function returning a 2-D ndarray (one sort vector per column of the returned array)
contract(FR, 'Frame.sort_values', key='Frame.sort_values[axis=1,key->ndarray]',
    props=['C12'],
    params=dict(self='SortFrame', label='elem', ascending='bool', axis='int', kind='elem', key='elem'), order=['self', 'label'], kwonly=['ascending', 'axis', 'kind', 'key'],
    ghost_params=dict(K='arr'),            # the array the key function returns
    requires=['axis == 1', 'K.ndim == 1 or K.ndim == 2', 'K.rows >= 0 and K.cols >= 1', 'implies(K.ndim == 1, K.cols == 1)'],
    result='elem',
    calls={
        'self._columns._loc_to_iloc': dict(params=dict(k='elem'), order=['k'], result='elem', ensures=['result == ufe("l2i", self._columns, k)']),
        'self._extract': dict(params=dict(column_key='elem'), order=[], kwonly=['column_key'], result='elem', ensures=['result == ufe("subframe", column_key)']),
        'key': dict(params=dict(x='elem'), order=['x'], result='arr', ensures=['result == K']),
        'np.lexsort': dict(params=dict(keys='list[arr]'), order=['keys'], result='elem',
                           # key j is column (cols-1-j) of the returned array: the FIRST column is the LAST (= primary) lexsort key
                           requires=['len(keys) == K.cols', 'len(keys) >= 2',
                                     'forall_in(0, len(keys), lambda j: at(keys, j).src == K.src and at(keys, j).off == K.off + K.cols - 1 - j and at(keys, j).ndim == 1)'],
                           ensures=['result == ufe("lexperm_k", K.src)']),
        'np.argsort': dict(params=dict(a='arr'), order=['a', 'axis', 'kind'], defaults=dict(axis='-1', kind='"quicksort"'), result='elem',
                           requires=['a.src == K.src and a.off == K.off and a.ndim == 1'],
                           ensures=['result == ufe("argsort_k", K.src, kind)']),
        'order.__getitem__': _REV,
        'self._index.__getitem__': dict(params=dict(key='elem'), order=['key'], result='elem', ensures=['result == ufe("take", self._index, key)']),
        'self._blocks.iloc.__getitem__': dict(params=dict(key='elem'), order=['key'], result='elem', ensures=['result == ufe("take_rows", self._blocks, key)']),
        'self.__class__': dict(params=dict(data='elem', index='elem', columns='elem', name='elem'), order=['data'],
                               kwonly=['index', 'columns', 'name', 'own_data', 'own_index', 'own_columns'], defaults=dict(own_columns='False', own_index='False', own_data='False'),
                               result='elem', ensures=['result == ufe("frame", data, index, columns, name)']),
    },
    raises={'RuntimeError': 'K.rows != self.shape[0]'},
    ensures=[
        'result == ufe("frame", ufe("take_rows", self._blocks, %s), ufe("take", self._index, %s), self._columns, self._name)'
        % (_FORD.format(p='cond(K.cols == 1, ufe("argsort_k", K.src, kind), ufe("lexperm_k", K.src))'), _FORD.format(p='cond(K.cols == 1, ufe("argsort_k", K.src, kind), ufe("lexperm_k", K.src))')),
    ])


# the key-function path with a key that returns an index (flat or hierarchical, of ANY depth): the sort vectors are the per-depth arrays of the KEY's result, all of them,
# innermost first (so that its depth 0 is the primary key) -- the depth of the index being sorted plays no part
RECORDS['SortKeyFn'] = dict(fid='elem')
RECORDS['SortIndexL'] = dict(depth='int', _len='int', values='elem', oid='elem')
_KO = 'ufe("key_result", key.fid, index.oid)'
_KD = 'ufi("key_result_depth", key.fid, index.oid)'
contract(CU, 'sort_index_for_order', key='sort_index_for_order[key->index]',
    props=['C12'],
    params=dict(index='SortIndexL', ascending='bool', kind='elem', key='SortKeyFn'), order=['index', 'ascending', 'kind', 'key'],
    result='elem',
    requires=['index.depth >= 1 and index._len >= 0'],
    calls={
        # the key function returns an index-like container (not an ndarray) of some depth >= 1 with one row per label
        'key': dict(params=dict(i='SortIndexL'), order=['i'], result='SortIndexL',
                    ensures=[f'result.oid == {_KO} and result.depth == {_KD} and result.depth >= 1 and result._len >= 0'.replace('index.oid', 'i.oid')]),
        'np.lexsort': dict(params=dict(keys='list[elem]'), order=['keys'], result='elem',
                           requires=['len(keys) == cfs.depth', 'forall_in(0, len(keys), lambda j: at(keys, j) == ufe("vad", cfs.oid, cfs.depth - 1 - j))'],
                           ensures=['result == ufe("lexperm", cfs.oid)']),
        'cfs.values_at_depth': dict(params=dict(d='int'), order=['d'], result='elem', result_expr='ufe("vad", cfs.oid, d)'),
        'np.argsort': dict(params=dict(a='elem'), order=['a', 'axis', 'kind'], defaults=dict(axis='-1', kind='"quicksort"'), result='elem',
                           ensures=['result == ufe("argsort", a, kind)']),
        'order.__getitem__': dict(params=dict(key='slice'), order=['key'], result='elem',
                                  requires=['is_none(key.start) and is_none(key.stop) and key.step == -1'],
                                  ensures=['result == ufe("rev", order)']),
    },
    raises={'RuntimeError': 'maybe'},
    concrete_inputs='specs.t2_sort:concrete_inputs_key', witness_on_unknown=True, witness_always=True, requires_concrete=[],
    ensures_concrete=['ref_sort_order_by_key(index, ascending, key, result)'],
    ensures=[
        f'implies({_KD} > 1 and ascending, result == ufe("lexperm", {_KO}))',
        f'implies({_KD} > 1 and not ascending, result == ufe("rev", ufe("lexperm", {_KO})))',
    ])


def concrete_inputs_key(model):
    """key functions returning a hierarchy as deep as, and deeper than, the index being sorted; the key rows are in tree form (a valid hierarchy) but tie on the
    outer depths and are out of order on the inner ones"""
    import static_frame as sf
    flat = sf.Index(('Az', 'ax', 'Ay', 'By', 'bx'))
    k2 = lambda ix: sf.IndexHierarchy.from_labels([(l[0].lower(), l[1]) for l in ix.values])
    k3 = lambda ix: sf.IndexHierarchy.from_labels([(l[0].lower(), 'm', l[1]) for l in ix.values])
    h2 = sf.IndexHierarchy.from_labels([('a', 2), ('a', 1), ('b', 2), ('b', 1)])
    k_same = lambda ix: sf.IndexHierarchy.from_labels([(a, -b) for a, b in ix.values.tolist()])
    k_deeper = lambda ix: sf.IndexHierarchy.from_labels([(a, 0, b) for a, b in ix.values.tolist()])
    out = []
    for asc in (True, False):
        for ix, kf in ((flat, k2), (flat, k3), (h2, k_same), (h2, k_deeper)):
            out.append(dict(index=ix, ascending=asc, kind='mergesort', key=kf))
    return out


# Frame.sort_index / Frame.sort_columns / Series.sort_index: ONE permutation, computed by sort_index_for_order from the labels of the sorted axis with the caller's
# ascending / kind / key (always: no shortcut that ignores the key), applied to the labels AND to the data of that axis; the other axis and the name are kept
RECORDS['SlFrame'] = {'_index': 'elem', '_columns': 'elem', '_blocks': 'elem', '_name': 'elem'}
RECORDS['SlResult'] = {'data': 'elem', 'index': 'elem', 'columns': 'elem', 'name': 'elem'}
_SIFO = lambda ax: dict(params=dict(i='elem', kind='elem', ascending='bool', key='elem'), order=['i'], kwonly=['kind', 'ascending', 'key'], result='elem',
                        ensures=['result == ufe("order_of", i, kind, ascending, key)'])
_ORDER = lambda ax: f'ufe("order_of", self.{ax}, kind, ascending, key)'
for _meth, _ax, _other, _rows in (('sort_index', '_index', '_columns', True), ('sort_columns', '_columns', '_index', False)):
    contract(FR if False else 'static_frame/core/frame.py', f'Frame.{_meth}', key=f'Frame.{_meth}',
        props=['C12'],
        params=dict(self='SlFrame', ascending='bool', kind='elem', key='elem'), order=['self'], kwonly=['ascending', 'kind', 'key'],
        result='SlResult',
        concrete_inputs='specs.t2_sort:concrete_inputs_axis', witness_on_unknown=True, witness_always=True, requires_concrete=[],
        ensures_concrete=[f'ref_sorted_axis(self, result, {0 if _rows else 1}, ascending, key)'],
        calls={
            'sort_index_for_order': _SIFO(_ax),
            f'self.{_ax}.__getitem__': dict(params=dict(o='elem'), order=['o'], result='elem', ensures=[f'result == ufe("take_labels", self.{_ax}, o)']),
            'self._blocks.iloc.__getitem__': dict(params=dict(o='elem'), order=['o'], result='elem', ensures=['result == ufe("take_rows", self._blocks, o)']),
            'self._blocks.__getitem__': dict(params=dict(o='elem'), order=['o'], result='elem', ensures=['result == ufe("take_columns", self._blocks, o)']),
            'self._blocks._extract': dict(params=dict(row_key='opt[elem]', column_key='opt[elem]'), order=[], kwonly=['row_key', 'column_key'], defaults=dict(row_key='None', column_key='None'),
                                          result='elem', ensures=['result == ufe("take_data", self._blocks, row_key, column_key)']),
            'self.__class__': dict(params=dict(data='elem', index='elem', columns='elem', name='elem'), order=['data'], kwonly=['index', 'columns', 'name', 'own_data', 'own_index', 'own_columns'],
                                   result='SlResult', ensures=['result.data == data and result.index == index and result.columns == columns and result.name == name']),
        },
        ensures=[
            (f'result.index == ufe("take_labels", self._index, {_ORDER("_index")}) and result.columns == self._columns' if _rows else
             f'result.columns == ufe("take_labels", self._columns, {_ORDER("_columns")}) and result.index == self._index'),
            'result.name == self._name',
            # the data of the sorted axis is taken by the very same permutation
            (f'result.data == ufe("take_rows", self._blocks, {_ORDER("_index")})' if _rows else f'result.data == ufe("take_columns", self._blocks, {_ORDER("_columns")})'),
        ])


RECORDS['SlSeries'] = {'_index': 'elem', 'values': 'arr', '_name': 'elem'}
RECORDS['SlSeriesResult'] = {'values': 'arr', 'index': 'elem', 'name': 'elem'}
contract('static_frame/core/series.py', 'Series.sort_index', key='Series.sort_index',
    props=['C12', 'C01'],
    params=dict(self='SlSeries', ascending='bool', kind='elem', key='elem'), order=['self'], kwonly=['ascending', 'kind', 'key'],
    result='SlSeriesResult',
    concrete_inputs='specs.t2_sort:concrete_inputs_axis_series', witness_on_unknown=True, witness_always=True, requires_concrete=[],
    ensures_concrete=['ref_sorted_axis(self, result, 0, ascending, key)'],
    requires=['self.values.ndim == 1'],
    calls={
        'sort_index_for_order': _SIFO('_index'),
        'self._index.__getitem__': dict(params=dict(o='elem'), order=['o'], result='elem', ensures=['result == ufe("take_labels", self._index, o)']),
        # ASSUMED NumPy: fancy indexing by a permutation yields a NEW writeable array of the same dtype and length (cells = take)
        'self.values.__getitem__': dict(params=dict(o='elem'), order=['o'], result='arr',
                                        ensures=['result.fresh and result.writeable and result.ndim == 1 and result.rows == self.values.rows and result.dtype == self.values.dtype',
                                                 'result.src != self.values.src']),
        'self.__class__': dict(params=dict(values='arr', index='elem', name='elem'), order=['values'], kwonly=['index', 'name', 'own_index'], result='SlSeriesResult',
                               ensures=['result.values == values and result.index == index and result.name == name']),
    },
    ensures=[
        f'result.index == ufe("take_labels", self._index, {_ORDER("_index")})',
        'result.name == self._name',
        'not result.values.writeable and result.values.src != self.values.src and result.values.dtype == self.values.dtype',      # a new read-only array
    ])


def _axis_witnesses(series):
    import numpy as np
    import static_frame as sf
    out = []
    keys = [None, lambda ix: -ix.values, lambda ix: ix.values % 2, lambda ix: sf.Index(ix.values * -3)]
    frames = [sf.Frame(np.arange(12).reshape(4, 3) * 1.5),                                                           # auto-supplied positional labels on both axes
              sf.Frame(np.arange(12).reshape(4, 3), index=(3, 0, 2, 1), columns=(2, 0, 1), name='n'),
              sf.Frame.from_dict(dict(a=(1, 2, 3, 4), b=('p', 'q', 'r', 's')), index=(10, 7, 9, 8)).rename('m')]
    for f in frames:
        if not series and f.columns.values.dtype.kind not in 'iu':
            f = f.relabel(columns=range(f.shape[1]))          # the arithmetic key functions need numeric labels on whichever axis is sorted
        for k in keys:
            for asc in (True, False):
                c = f.iloc[:, 0].rename(f.name) if series else f
                out.append(dict(self=c, ascending=asc, kind='mergesort', key=k))
    return out


def concrete_inputs_axis(model):
    return _axis_witnesses(False)


def concrete_inputs_axis_series(model):
    return _axis_witnesses(True)
