"""C12: sort_index_for_order routes labels to the sort primitives so that depth 0 is the primary key,
the requested kind is forwarded, and descending is exactly the reverse of the ascending order."""
from . import contract, RECORDS

CU = 'static_frame/core/container_util.py'
RECORDS['SortIndex'] = dict(depth='int', n='int', values='elem', oid='elem')

contract(CU, 'sort_index_for_order',
    props=['C12'],
    params=dict(index='SortIndex', ascending='bool', kind='elem'), order=['index', 'ascending', 'kind', 'key'],
    variants=[dict(key='opt[int]')],          # key=None (the key-function path is covered by the bounded stand-in)
    requires=['is_none(key)', 'index.depth >= 1 and index.n >= 0'],
    result='elem',
    calls={
        # ASSUMED NumPy contracts: lexsort(keys) is THE stable permutation ordering by the LAST key first;
        # argsort(v, kind) is the stable permutation when kind is a stable kind (DEFAULT_SORT_KIND, checked separately)
        'np.lexsort': dict(params=dict(keys='list[elem]'), order=['keys'], result='elem',
                           # the caller must establish: key j is the label array of depth (depth-1-j), i.e. depth 0 is the LAST (= primary) key
                           requires=['len(keys) == index.depth',
                                     'forall_in(0, len(keys), lambda j: at(keys, j) == ufe("vad", index.oid, index.depth - 1 - j))'],
                           ensures=['result == ufe("lexperm", index.oid)']),
        'cfs.values_at_depth': dict(params=dict(d='int'), order=['d'], result='elem', result_expr='ufe("vad", cfs.oid, d)'),
        'np.argsort': dict(params=dict(a='elem'), order=['a', 'axis', 'kind'], defaults=dict(axis='-1', kind='"quicksort"'), result='elem',
                           ensures=['result == ufe("argsort", a, kind)']),
        'order.__getitem__': dict(params=dict(key='slice'), order=['key'], result='elem',
                                  requires=['is_none(key.start) and is_none(key.stop) and key.step == -1'],
                                  ensures=['result == ufe("rev", order)']),
    },
    ghost_init=[],
    ensures=[
        'implies(index.depth == 1 and ascending, result == ufe("argsort", index.values, kind))',       # requested kind forwarded
        'implies(index.depth == 1 and not ascending, result == ufe("rev", ufe("argsort", index.values, kind)))',   # descending = exact reverse
        'implies(index.depth > 1 and ascending, result == ufe("lexperm", index.oid))',
        'implies(index.depth > 1 and not ascending, result == ufe("rev", ufe("lexperm", index.oid)))',
    ])
