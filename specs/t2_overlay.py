"""C11: Series.from_overlay -- "overlay takes, per cell, the first non-missing value in input order".
Cells are abstract: for a Series with identity s and label number x, ub("miss", s, x) says "s holds no usable value under x" (the label is absent
or the cell is missing) and ufe("val", s, x) is its value.  Relative to assumed contracts of reindex (alignment) and fillna(Series)."""
from . import contract, RECORDS

SER = 'static_frame/core/series.py'
RECORDS['OvSeries'] = dict(sid='int', index='elem', values='elem', dtype='dtype')

_MISS = 'ub("miss", {s}, x)'
_VAL = 'ufe("val", {s}, x)'
_C = 'at(containers, {k}).sid'
# the overlay of the first n containers at label x: missing iff every one of them lacks a usable value; otherwise the value of the FIRST that has one
_INV_M = 'forall(lambda x: ub("miss", post.sid, x) == forall_in(0, {n}, lambda k: ub("miss", at(containers, k).sid, x)))'
_INV_V = ('forall(lambda x: implies(not ub("miss", post.sid, x), exists_in(0, {n}, lambda k: not ub("miss", at(containers, k).sid, x) '
          'and ufe("val", post.sid, x) == ufe("val", at(containers, k).sid, x) and forall_in(0, k, lambda j: ub("miss", at(containers, j).sid, x)))))')
contract(SER, 'Series.from_overlay',
    props=['C11'],
    params=dict(cls='elem', containers='list[OvSeries]', index='opt[elem]', union='bool', name='elem'), order=['cls', 'containers'], kwonly=['index', 'union', 'name'],
    defaults=dict(index='None', union='True', name='None'),
    result='OvSeries',
    requires=['len(containers) >= 1'],
    calls={
        'hasattr': dict(params={}, order=['o', 'n'], result='bool', ensures=['result']),
        'isinstance': dict(params={}, order=['o', 't'], result='bool', ensures=['result']),
        'index_many_set': dict(params={}, order=['indices'], kwonly=['cls_default', 'union'], result='elem', ensures=['True']),
        'container_first.index.equals': dict(params=dict(o='elem'), order=['o'], result='bool', ensures=['result == ube("ieq", container_first.index, o)']),
        # ASSUMED: a Series over the same values and an EQUAL index (same labels, same order) holds the same cells; over any other index nothing is known
        'cls': dict(params=dict(values='elem', index='elem', name='elem'), order=['values'], kwonly=['index', 'own_index', 'name'], result='OvSeries',
                    ensures=['implies(values == container_first.values and ube("ieq", container_first.index, index), forall(lambda x: ub("miss", result.sid, x) == ub("miss", container_first.sid, x) and ufe("val", result.sid, x) == ufe("val", container_first.sid, x)))']),
        'dtype_kind_to_na': dict(params={}, order=['k'], result='elem', ensures=['True']),
        # ASSUMED: reindex keeps every cell whose label is kept and adds missing cells for the new labels (cells are looked at through the aligned index only)
        'container_first.reindex': dict(params=dict(index='elem', fill_value='elem'), order=['index'], kwonly=['fill_value'], result='OvSeries',
                    ensures=['forall(lambda x: ub("miss", result.sid, x) == ub("miss", container_first.sid, x) and ufe("val", result.sid, x) == ufe("val", container_first.sid, x))']),
        # ASSUMED: rename changes the name only
        'container_first.reindex(index, fill_value=fill_value).rename': dict(params=dict(n='elem'), order=['n'], result='OvSeries',
                    ensures=['forall(lambda x: ub("miss", result.sid, x) == ub("miss", recv_.sid, x) and ufe("val", result.sid, x) == ufe("val", recv_.sid, x))']),
        # ASSUMED: fillna(other) keeps every usable cell and takes other's value (by label) where its own cell is missing
        'post.fillna': dict(params=dict(other='OvSeries'), order=['other'], result='OvSeries',
                    ensures=['forall(lambda x: ub("miss", result.sid, x) == (ub("miss", post.sid, x) and ub("miss", other.sid, x)))',
                             'forall(lambda x: implies(not ub("miss", post.sid, x), ufe("val", result.sid, x) == ufe("val", post.sid, x)))',
                             'forall(lambda x: implies(ub("miss", post.sid, x) and not ub("miss", other.sid, x), ufe("val", result.sid, x) == ufe("val", other.sid, x)))']),
        # ASSUMED: isna().any() is False only if no cell is missing
        'post.isna().any': dict(params={}, order=[], result='bool', ensures=['implies(not result, forall(lambda x: not ub("miss", post.sid, x)))']),
    },
    raises={'StopIteration': 'maybe', 'Exception': 'maybe'},
    n_loops=1,
    loops={0: dict(index='t', locals=dict(post='OvSeries'), invariant=[
        't + 1 <= len(old(containers))', _INV_M.format(n='t + 1').replace('containers', 'old(containers)'), _INV_V.format(n='t + 1').replace('containers', 'old(containers)')])},
    ensures=[_INV_M.format(n='len(old(containers))').replace('(containers', '(old(containers)').replace('post.sid', 'result.sid'),
             _INV_V.format(n='len(old(containers))').replace('(containers', '(old(containers)').replace('post.sid', 'result.sid')])
