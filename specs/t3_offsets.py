"""C03 / C08 / C14: block-wise generators that walk the blocks keeping a running COLUMN OFFSET (start/end, t_start/t_end) to cut the matching
columns out of a frame-wide array (values, Boolean targets, validity masks).  Contract (offset discipline): at the head of the iteration for
block t the offset equals the first column of block t (ghost prefix offsets of the directory invariant Dir), and where the slice is used it
spans exactly the columns of block t.  The array work of the bodies is over-approximated (`lenient`); the offset variables are protected."""
from . import contract

TB = 'static_frame/core/type_blocks.py'


def offset_contract(qualname, props, start, end, use_stmts, params=None, variants=None, extra_loops=None, n_loops=1, raises=None, loop=0, requires=(), protect=(), generator=True):
    at_use = f'assert {start} == at(self._offs, t) and {end} == at(self._offs, t + 1)'
    contract(TB, qualname,
        props=props,
        params=dict(dict(self='TypeBlocks'), **(params or {})), order=['self'], variants=variants,
        lenient=True, lenient_protect=[start, end] + list(protect),
        # whether a block holds an addressed cell is up to the caller's Boolean key: either outcome can be arranged for every block independently
        free_conditions=['not target.any()'],
        is_generator=generator,
        requires=['Dir(self)'] + list(requires),
        raises=raises or {},
        n_loops=n_loops,
        loops={**(extra_loops or {}),
               loop: dict(index='t', locals={start: 'int'}, invariant=[f'{start} == at(self._offs, t)'])},
        ghost_after={s: [at_use] for s in use_stmts})


# the slices that cut a row-wide 1-D array into per-block pieces: k-th slice = columns of block k
contract(TB, 'TypeBlocks._block_shape_slices',
    props=['C03', 'C06'],
    params=dict(self='TypeBlocks'), order=['self'],
    is_generator=True, yield_sort='slice',
    requires=['Dir(self)'],
    ghost_init=['j = 0'],
    n_loops=1,
    loops={0: dict(index='t', locals=dict(start='int', j='int'), ghost_mods=['j'], invariant=['start == at(self._offs, t)', 'j == t'])},
    at_yield=['j < len(self._blocks)', 'result.start == at(self._offs, j) and result.stop == at(self._offs, j + 1) and is_none(result.step)'],
    yield_update=['j = j + 1'],
    at_exit=['j == len(self._blocks)'])

offset_contract('TypeBlocks._assign_from_bloc_by_unit', ['C08', 'C03'], 't_start', 't_end',
                ['target = bloc_key[NULL_SLICE, target_slice]'])
offset_contract('TypeBlocks._assign_from_bloc_by_coordinate', ['C08', 'C03'], 't_start', 't_end',
                ['target = bloc_key[NULL_SLICE, target_slice]'], n_loops=3,
                extra_loops={1: dict(index='u', locals={}, invariant=[]), 2: dict(index='u', locals={}, invariant=[])})      # the two fill loops over np.nonzero: no offset state
offset_contract('TypeBlocks._assign_from_bloc_by_blocks', ['C08', 'C03'], 't_start', 't_end',
                ['target = bloc_key[NULL_SLICE, target_slice]'], n_loops=3,
                extra_loops={1: dict(index='u', locals={}, invariant=[]), 2: dict(index='u', locals={}, invariant=[])})      # draws from the value stack: get_block_match is under its own contract

# Frame.fillna(<Frame>) / assign by Boolean blocks: one Boolean target per block, the frame-wide value / validity arrays are cut by the running offset
_LEN = 't <= len(self._blocks) and t <= len(targets)'
contract(TB, 'TypeBlocks._assign_from_boolean_blocks_by_unit',
    props=['C14', 'C08', 'C03', 'C11'],
    params=dict(self='TypeBlocks', targets='list[arr]'), order=['self', 'targets', 'value', 'value_valid'],
    lenient=True, lenient_protect=['start', 'end', 'is_element'],
    free_conditions=['not target.any()'],      # the Boolean targets are the caller's: any pattern per block
    is_generator=True,
    requires=['Dir(self)'],
    raises={'RuntimeError': 'len(targets) != len(self._blocks)', 'AssertionError': 'maybe', 'Exception': 'maybe'},
    n_loops=1,
    loops={0: dict(index='t', locals=dict(start='int'), invariant=['implies(not is_element, start == at(self._offs, t))', _LEN])},
    ghost_after={'value_part = value[NULL_SLICE, value_slice][target]': ['assert start == at(self._offs, t) and end == at(self._offs, t + 1)']})

contract(TB, 'TypeBlocks._assign_from_boolean_blocks_by_blocks',
    props=['C14', 'C08', 'C03', 'C11'],
    params=dict(self='TypeBlocks', targets='list[arr]'), order=['self', 'targets', 'values'],
    lenient=True, lenient_protect=['start', 'end'],
    free_conditions=['not target.any()', 'not target_sub.any()', 'target_sub.all()'],      # the Boolean targets are the caller's: any pattern per block / column
    is_generator=True,
    # each Boolean target has the shape of its block
    requires=['Dir(self)', 'forall_in(0, len(targets), lambda k: implies(k < len(self._blocks), at(targets, k).ndim == at(self._blocks, k).ndim and at(targets, k).rows == at(self._blocks, k).rows and at(targets, k).cols == at(self._blocks, k).cols))'],
    raises={'RuntimeError': 'len(targets) != len(self._blocks)', 'AssertionError': 'maybe', 'Exception': 'maybe'},
    n_loops=2,
    loops={0: dict(index='t', locals=dict(start='int'), invariant=['start == at(self._offs, t)', _LEN]),
           1: dict(index='i', locals={}, invariant=[])},
    ghost_after={'values_for_block = values[start:end]': ['assert start == at(self._offs, t) and end == at(self._offs, t + 1)']})

# Frame.bloc[...] extraction: the Boolean key is cut per block by the running offset, coordinates are reported relative to it
offset_contract('TypeBlocks.extract_bloc', ['C04', 'C03'], 't_start', 't_end', ['target = bloc_key[NULL_SLICE, target_slice]'], n_loops=3, generator=False,
                extra_loops={1: dict(index='u', locals={}, invariant=[]), 2: dict(index='u', locals={}, invariant=[])}, raises={'Exception': 'maybe'})

# C15: axis reductions over a multi-block store write the per-block result into one output vector `out`; for axis 0 the running position `pos` decides
# which columns of the output a block's reduction lands in.  Contract (offset discipline): at the head of the iteration for block t, pos is the first
# column of block t; each of the three writes addresses exactly the columns of block t (a 1-D block and a block of size one are one column wide).
contract(TB, 'TypeBlocks.unified', property=True,
    props=['C15', 'C03'],
    params=dict(self='TypeBlocks'), order=['self'], result='bool',
    ensures=['result == (len(self._blocks) <= 1)'])

_AT_USE = 'assert axis == 0 and pos == at(self._offs, t) and end == at(self._offs, t + 1)'
contract(TB, 'TypeBlocks.ufunc_axis_skipna',
    props=['C15', 'C03'],
    params=dict(self='TypeBlocks', axis='int', skipna='bool', composable='bool', size_one_unity='bool', dtypes='list[dtype]'),
    order=['self'],
    lenient=True, lenient_protect=['pos', 'end', 'axis'],
    requires=['Dir(self)', 'RowDtypeHolds(self)'],
    raises={'RuntimeError': 'axis < 0 or axis > 1', 'Exception': 'maybe'},
    call_ghosts={'TypeBlocks._blocks_to_array': dict(offs='self._offs')},
    # ASSUMED (NumPy): astype returns a new array of the same shape
    calls={'ndarray.astype': dict(assumed=True, params=dict(dtype='dtype'), order=['dtype'], result='arr',
                                  ensures=['result.ndim == recv_.ndim', 'result.rows == recv_.rows', 'result.cols == recv_.cols', 'result.dtype == dtype', 'result.writeable', 'result.fresh'])},
    n_loops=2,
    loops={0: dict(index='u', locals={}, invariant=[]),          # the dtype preference loop: no offset state
           1: dict(index='t', locals=dict(pos='int'), invariant=['implies(axis == 0, pos == at(self._offs, t))'])},
    ghost_after={'out[pos] = b': [_AT_USE],
                 'out[pos] = func(array=b, axis=axis)': [_AT_USE],
                 'func(array=b, axis=axis, out=out[pos:end])': [_AT_USE]})

# C03 / C04: `.values`, row extraction and every consolidation assemble one array from the blocks: block t is copied to the columns
# [offs[t], offs[t+1]) of the output -- the same columns under which the directory lists it.  `offs` is the ghost prefix-width vector of `blocks`.
_COPY_AT = 'assert pos == at(offs, t) and end == at(offs, t + 1)'
contract(TB, 'TypeBlocks._blocks_to_array',
    props=['C03', 'C04', 'C15'],
    params=dict(blocks='list[arr]', shape='tuple[int,int]', row_dtype='opt[dtype]', row_multiple='bool'), order=[],
    ghost_params=dict(offs='list[int]'),
    lenient=True, lenient_protect=['pos', 'end'],
    requires=['len(offs) == len(blocks) + 1 and at(offs, 0) == 0',
              'forall_in(0, len(blocks), lambda k: at(offs, k + 1) == at(offs, k) + W(at(blocks, k)) and (at(blocks, k).ndim == 1 or at(blocks, k).ndim == 2))',
              # the output is allocated from `shape`: its column count is the total width of the blocks (a wider output would keep uninitialised columns)
              'implies(len(blocks) != 1, shape[1] == at(offs, len(blocks)))'],
    raises={'Exception': 'maybe'},
    n_loops=1,
    loops={0: dict(index='t', locals=dict(pos='int'), invariant=['pos == at(offs, t)'])},
    ghost_after={'array[pos:end] = block[:]': [_COPY_AT],
                 'array[:, pos] = block[:]': [_COPY_AT],
                 'array[:, pos:end] = block[:]': [_COPY_AT]})

# C08 / C07: astype with a per-column dtype specifier re-cuts every 2-D block into runs of columns that get the same dtype.  Contract (tiling): the yielded
# arrays, in order, cover every column of every block exactly once -- `cov` (ghost) counts the columns yielded so far; a run starts where the previous one
# ended (`group_start`), the column counter `iloc` that selects the dtype is the frame-wide position of the column under inspection.
contract(TB, 'TypeBlocks._astype_blocks_from_dtypes',
    props=['C08', 'C07', 'C03'],
    params=dict(self='TypeBlocks'), order=['self', 'dtypes'],
    lenient=True, lenient_protect=['iloc', 'group_start', 'pos', 'cov'],
    is_generator=True, yield_sort='arr',
    requires=['Dir(self)'],
    raises={'Exception': 'maybe'},
    calls={'ndarray.astype': dict(assumed=True, params={}, order=['dtype'], result='arr',
                                  ensures=['result.ndim == recv_.ndim', 'result.rows == recv_.rows', 'result.cols == recv_.cols', 'result.writeable', 'result.fresh'])},
    ghost_init=['cov = 0'],
    n_loops=2,
    loops={0: dict(index='t', locals=dict(iloc='int', cov='int'), ghost_mods=['cov'],
                   invariant=['iloc == at(self._offs, t)', 'cov == at(self._offs, t)']),
           1: dict(index='p', locals=dict(iloc='int', cov='int', group_start='int'), ghost_mods=['cov'],
                   invariant=['iloc == at(self._offs, t) + p', '0 <= group_start and group_start <= p', 'cov == at(self._offs, t) + group_start'])},
    at_yield=[],
    yield_update=['cov = cov + W(result)'],
    at_exit=['cov == at(self._offs, len(self._blocks))'])

# `.values` (and through it every whole-frame NumPy view): the blocks are assembled under the directory's own offsets
contract(TB, 'TypeBlocks.values', property=True,
    props=['C03', 'C04'],
    params=dict(self='TypeBlocks'), order=['self'],
    requires=['Dir(self)'],
    raises={'Exception': 'maybe'},
    call_ghosts={'TypeBlocks._blocks_to_array': dict(offs='self._offs')})

# column iteration (Frame.iter_array(axis=0), Frame.items, Series extraction of every column): the j-th array yielded is column j of the frame (column n-1-j
# when reversed) -- a view of the block the directory names, at the column-in-block the directory names.  Row iteration (axis 1) is outside this contract.
_COLJ = 'cond(reverse, len(self._index) - 1 - j, j)'
contract(TB, 'TypeBlocks.axis_values', key='TypeBlocks.axis_values[columns]',
    props=['C03', 'C04', 'C13'],
    params=dict(self='TypeBlocks', axis='int', reverse='bool'), order=['self', 'axis', 'reverse'], defaults=dict(axis='0', reverse='False'),
    is_generator=True, yield_sort='arr',
    requires=['Dir(self)', 'axis == 0'],
    ghost_init=['j = 0'],
    n_loops=3,
    loops={0: dict(index='u', locals={}, invariant=[]), 1: dict(index='u', locals={}, invariant=[]),      # row iteration: unreachable under axis == 0
           2: dict(index='t', locals=dict(j='int'), ghost_mods=['j'], invariant=['j == t'])},
    at_yield=['j < len(self._index)',
              f'same_array(result, at(self._blocks, at(self._index, {_COLJ})[0])) or (result.ndim == 1 and result.src == at(self._blocks, at(self._index, {_COLJ})[0]).src and result.off == at(self._blocks, at(self._index, {_COLJ})[0]).off + at(self._index, {_COLJ})[1])',
              f'implies(at(self._blocks, at(self._index, {_COLJ})[0]).ndim == 2, not same_array(result, at(self._blocks, at(self._index, {_COLJ})[0])) or W(result) == 1)'],
    yield_update=['j = j + 1'],
    at_exit=['j == len(self._index)'])

# Frame / Series extraction to an array: a single column is the view the directory names; otherwise the selected block slices are assembled under
# their own running widths (`columns` is the total width handed to the assembly, ghost `offs2` its prefix vector).
contract(TB, 'TypeBlocks._extract_array',
    props=['C04', 'C03', 'C13'],
    params=dict(self='TypeBlocks', row_key='opt[int]', column_key='opt[int]'), order=['self', 'row_key', 'column_key'], result='arr',
    variants=[dict(column_key='int'), dict(column_key='opt[slice]')],
    requires=['Dir(self)', 'is_none(row_key)'],      # whole columns (the row key is applied by NumPy indexing, outside the model)
    requires_variant={0: ['-len(self._index) <= column_key and column_key < len(self._index)']},
    raises={'Exception': 'maybe'},
    calls={'self._slice_blocks': dict(assumed=True, params={}, order=[], is_generator=True, yield_sort='arr',
                                      ensures=['forall_in(0, len(result), lambda k: at(result, k).ndim == 1 or at(result, k).ndim == 2)']),
           'resolve_dtype_iter': dict(assumed=True, params={}, order=['dtypes'], result='opt[dtype]', ensures=[])},
    call_ghosts={'TypeBlocks._blocks_to_array': dict(offs='offs2')},
    ghost_init=['offs2 = [0]'],
    ghost_after={'blocks.append(b)': ['offs2.append(columns)']},
    n_loops=1,
    loops={0: dict(index='t', locals=dict(blocks='list[arr]', rows='int', columns='int', offs2='list[int]'), ghost_mods=['offs2'],
                   invariant=['len(blocks) == t and len(offs2) == t + 1 and at(offs2, 0) == 0 and columns == at(offs2, t)',
                              'forall_in(0, len(blocks), lambda k: at(offs2, k + 1) == at(offs2, k) + W(at(blocks, k)) and (at(blocks, k).ndim == 1 or at(blocks, k).ndim == 2))'])},
    ensures_variant={0: ['cond(at(self._blocks, at(self._index, cond(column_key < 0, column_key + len(self._index), column_key))[0]).ndim == 1, '
                         'same_array(result, at(self._blocks, at(self._index, cond(column_key < 0, column_key + len(self._index), column_key))[0])), '
                         'result.ndim == 1 and result.src == at(self._blocks, at(self._index, cond(column_key < 0, column_key + len(self._index), column_key))[0]).src and '
                         'result.off == at(self._blocks, at(self._index, cond(column_key < 0, column_key + len(self._index), column_key))[0]).off + at(self._index, cond(column_key < 0, column_key + len(self._index), column_key))[1])']})

# C14: leading / trailing fills walk the blocks and yield, for every block, either the block itself or a filled copy of it.  Contract (block discipline): exactly one
# array per block, in block order (in reverse order for the trailing fill along axis 1, as the caller expects), each of the shape of its block; a copy that is
# written to is a new writeable buffer until it is frozen.  Which cells are filled is decided by the stand-in (exhaustive over small patterns).
_SAME_SHAPE = 'result.ndim == at(blocks, {k}).ndim and result.rows == at(blocks, {k}).rows and result.cols == at(blocks, {k}).cols'
_ASTYPE = dict(assumed=True, params={}, order=['dtype'], result='arr',
               ensures=['result.ndim == recv_.ndim', 'result.rows == recv_.rows', 'result.cols == recv_.cols', 'result.writeable', 'result.fresh'])
_KEEP = 'assigned.ndim == b.ndim and assigned.rows == b.rows and assigned.cols == b.cols'
for _name, _k in (('TypeBlocks._fillna_sided_axis_0', 'gy'), ('TypeBlocks._fillna_sided_axis_1', 'cond(sided_leading, gy, len(blocks) - 1 - gy)')):
    contract(TB, _name,
        props=['C14', 'C03'],
        params=dict(blocks='list[arr]', sided_leading='bool'), order=['blocks', 'value', 'sided_leading'],
        lenient=True, lenient_protect=['gy', 'b'],
        is_generator=True, yield_sort='arr',
        requires=['forall_in(0, len(blocks), lambda k: at(blocks, k).ndim == 1 or at(blocks, k).ndim == 2)'],
        raises={'RuntimeError': 'maybe', 'Exception': 'maybe'},
        calls={'ndarray.astype': _ASTYPE},
        ghost_init=['gy = 0'],
        n_loops=2,
        loops={0: dict(index='t', locals=dict(gy='int'), ghost_mods=['gy'], invariant=['gy == t']),
               1: dict(index='u', locals=dict(assigned='arr'), invariant=[_KEEP])},
        at_yield=['gy < len(blocks)', _SAME_SHAPE.format(k=_k)],
        yield_update=['gy = gy + 1'],
        at_exit=['gy == len(blocks)'])

# forward / backward fill along axis 0: the same block discipline (one array per block, block order, shape kept; the filled runs themselves come from
# `slices_from_targets`, which is under its own functional contract)
contract(TB, 'TypeBlocks._fillna_directional_axis_0',
    props=['C14', 'C03'],
    params=dict(blocks='list[arr]', directional_forward='bool', limit='int'), order=['blocks', 'directional_forward', 'limit'],
    lenient=True, lenient_protect=['gy', 'b'],
    is_generator=True, yield_sort='arr',
    requires=['forall_in(0, len(blocks), lambda k: at(blocks, k).ndim == 1 or at(blocks, k).ndim == 2)'],
    raises={'Exception': 'maybe'},
    # ASSUMED: the missing-value mask has the shape of the array it is computed from
    calls={'isna_array': dict(assumed=True, params=dict(array='arr'), order=['array'], result='arr',
                              ensures=['result.ndim == array.ndim', 'result.rows == array.rows', 'result.cols == array.cols'])},
    ghost_init=['gy = 0'],
    n_loops=3,
    loops={0: dict(index='t', locals=dict(gy='int'), ghost_mods=['gy'], invariant=['gy == t']),
           1: dict(index='u', locals=dict(assigned='arr'), invariant=[_KEEP]),
           2: dict(index='w', locals=dict(assigned='arr'), invariant=[_KEEP])},
    at_yield=['gy < len(blocks)', _SAME_SHAPE.format(k='gy')],
    yield_update=['gy = gy + 1'],
    at_exit=['gy == len(blocks)'])
