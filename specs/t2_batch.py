"""C19: batch.normalize_container -- "a Batch yields, for every label, frame.<operation>": a result that already is a Frame or a Series (of ANY class
derived from them: FrameGO, FrameHE, SeriesHE, ...) is passed on as it is; only other values are promoted to a one-element Series.
Contract for the container case (the parameter is an opaque value about which `isinstance(post, (Frame, Series))` holds)."""
from . import contract

BATCH = 'static_frame/core/batch.py'
contract(BATCH, 'normalize_container', key='normalize_container[container]',
    props=['C19'],
    params=dict(post='elem'), order=['post'], result='elem',
    calls={
        # the case under contract: the value is an instance of Frame or Series (possibly of a subclass)
        'isinstance': dict(params=dict(o='elem'), order=['o', 't'], result='bool', ensures=['result']),
        'Series.from_element': dict(params=dict(e='elem'), order=['e'], kwonly=['index'], result='elem', ensures=['result == ufe("promoted", e)', 'result != e']),
        'Series': dict(params=dict(e='elem'), order=['e'], result='elem', ensures=['result == ufe("series_of", e)', 'result != e']),
        'Frame': dict(params=dict(e='elem'), order=['e'], result='elem', ensures=['result == ufe("frame_of", e)', 'result != e']),
    },
    concrete_inputs='specs.t2_batch:concrete_inputs', requires_concrete=[], ensures_concrete=['result is post'],
    ensures=['result == post'])


def concrete_inputs(model):
    """the opaque value of the counter-model stands for any container instance: one of every class derived from Frame / Series"""
    import static_frame as sf
    f = sf.Frame.from_dict(dict(a=(1, 2), b=(3, 4)))
    s = sf.Series((1, 2, 3))
    return [dict(post=x) for x in (f, f.to_frame_go(), f.to_frame_he(), s, s.to_series_he())]
