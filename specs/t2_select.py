"""C04: Frame._extract -- a positional selection applies THE SAME row key to the data and to the row labels and THE SAME column key to the data and
to the column labels; an axis selected by one position collapses into a Series labelled by the other axis and named by the selected label
(opaque routing contract; the block-level selection itself is under the key-translation contracts of t1_slices.py)."""
from . import contract, RECORDS

FR = 'static_frame/core/frame.py'
RECORDS['SelBlocks'] = dict(oid='elem', _shape='tuple[int,int]', _blocks='list[elem]', values='elem')
RECORDS['SelIndex'] = dict(oid='elem', values='elem', depth='int')
RECORDS['SelFrame'] = dict(_blocks='elem', _index='SelIndex', _columns='SelIndex', _name='elem')

_B = 'ufe("extract", self._blocks, row_key, column_key)'
_I = 'ufe("extract_iloc", self._index.oid, row_key)'
_C = 'ufe("extract_iloc", self._columns.oid, column_key)'
_NR = 'cond(self._index.depth > 1, ufe("astuple", ufe("label_at", self._index.oid, row_key)), ufe("label_at", self._index.oid, row_key))'
_NC = 'cond(self._columns.depth > 1, ufe("astuple", ufe("label_at", self._columns.oid, column_key)), ufe("label_at", self._columns.oid, column_key))'
contract(FR, 'Frame._extract',
    props=['C04'],
    # both keys are positional keys other than None / slices (integers, lists, arrays): both axes are re-extracted
    params=dict(self='SelFrame', row_key='elem', column_key='elem'), order=['self', 'row_key', 'column_key'],
    ghost_params=dict(nmr='bool', nmc='bool', R='int', Cn='int'),      # row / column key is a single position; shape of the selected block store
    requires=['R >= 1 and Cn >= 1', 'implies(nmr, R == 1)', 'implies(nmc, Cn == 1)', 'not (nmr and nmc)'],      # non-empty selections; a cell selection (both single) returns the element itself
    result='elem',
    calls={
        # ASSUMED block-store selection (its column side is the proved key translation)
        'self._blocks._extract': dict(params=dict(row_key='elem', column_key='elem'), order=[], kwonly=['row_key', 'column_key'], result='SelBlocks',
                                      ensures=['result.oid == ufe("extract", self._blocks, row_key, column_key)', 'result._shape[0] == R and result._shape[1] == Cn',
                                               'len(result._blocks) >= 1 and at(result._blocks, 0) == ufe("block0", result.oid)']),
        'self._index._extract_iloc': dict(params=dict(k='elem'), order=['k'], result='elem', ensures=['result == ufe("extract_iloc", self._index.oid, k)']),
        'self._columns._extract_iloc': dict(params=dict(k='elem'), order=['k'], result='elem', ensures=['result == ufe("extract_iloc", self._columns.oid, k)']),
        'self._index.values.__getitem__': dict(params=dict(k='elem'), order=['k'], result='elem', ensures=['result == ufe("label_at", self._index.oid, k)']),
        'self._columns.values.__getitem__': dict(params=dict(k='elem'), order=['k'], result='elem', ensures=['result == ufe("label_at", self._columns.oid, k)']),
        'tuple': dict(params=dict(x='elem'), order=['x'], result='elem', ensures=['result == ufe("astuple", x)']),
        'self._extract_axis_not_multi': dict(params={}, order=['rk', 'ck'], result='tuple[bool,bool]', ensures=['result[0] == nmr and result[1] == nmc']),
        'column_1d_filter': dict(params=dict(a='elem'), order=['a'], result='elem', ensures=['result == ufe("as1d", a)']),
        'immutable_index_filter': dict(params=dict(i='elem'), order=['i'], result='elem', ensures=['result == i']),
        'blocks.values.__getitem__': dict(params=dict(k='int'), order=['k'], result='elem', ensures=['result == ufe("row0", blocks.oid)']),
        'Series': dict(params=dict(values='elem', index='elem', name='elem'), order=['values'], kwonly=['index', 'name'], result='elem',
                       ensures=['result == ufe("series", values, index, name)']),
        'self.__class__': dict(params=dict(data='SelBlocks', index='elem', columns='elem', name='elem'), order=['data'],
                               kwonly=['index', 'columns', 'name', 'own_data', 'own_index', 'own_columns'], result='elem',
                               ensures=['result == ufe("frame", data.oid, index, columns, name)']),
    },
    rec_classes={'SelBlocks': ['TypeBlocks']},
    ensures=[
        # both keys select several positions: a Frame over the selected labels of both axes, same keys for data and labels, name kept
        f'implies(not nmr and not nmc, result == ufe("frame", {_B}, {_I}, {_C}, self._name))',
        # one row position: a Series holding that row, labelled by the SELECTED COLUMN labels and named by the row label
        f'implies(nmr, result == ufe("series", ufe("row0", {_B}), {_C}, {_NR}))',
        # one column position: a Series holding that column, labelled by the SELECTED ROW labels and named by the column label
        f'implies(nmc, result == ufe("series", cond(R == 1, ufe("row0", {_B}), ufe("as1d", ufe("block0", {_B}))), {_I}, {_NC}))',
    ])
