"""C11: container_util._index_many_to_one (the worker behind index_many_concat / index_many_set: the labels of the concatenated / aligned axis of from_concat
and from_overlay) -- "the result's labels are the inputs' labels": the combined label array is re-wrapped by the FIRST input's index class only when EVERY
input is of that class (another class may hold labels the first class cannot represent: an IndexYear would cut a day to its year), and it carries the first
name only when every input carries that name.  Flag discipline over flat (1-D) indices; the combined array itself (array_processor) is opaque."""
from . import contract, RECORDS

CU = 'static_frame/core/container_util.py'
RECORDS['ImCtor'] = {'from_labels': 'elem'}
RECORDS['ImCls'] = {'cid': 'elem', 'STATIC': 'bool', 'from_labels': 'elem', '_IMMUTABLE_CONSTRUCTOR': 'ImCtor', '_MUTABLE_CONSTRUCTOR': 'ImCtor'}
RECORDS['ImIndex'] = {'values': 'elem', 'name': 'elem', '__class__': 'ImCls', 'ndim': 'int', 'depth': 'int'}
RECORDS['ImBuilt'] = {'ctor': 'elem', 'array': 'elem', 'name': 'opt[elem]'}

_CLS_ALL = 'forall_in(1, len(indices), lambda k: at(indices, k).__class__ == at(indices, 0).__class__)'
_NAME_ALL = 'forall_in(1, len(indices), lambda k: at(indices, k).name == at(indices, 0).name)'
_C0 = 'at(indices, 0).__class__'
contract(CU, '_index_many_to_one',
    props=['C11', 'C06'],
    params=dict(indices='list[ImIndex]', cls_default='ImCls', array_processor='elem'), order=['indices', 'cls_default', 'array_processor'],
    result='ImBuilt',
    requires=['len(indices) >= 1', 'at(indices, 0).ndim == 1', 'forall_in(0, len(indices), lambda k: at(indices, k).ndim == 1)'],
    calls={
        'array_processor': dict(params=dict(arrays='list[elem]'), order=['arrays'], result='elem', ensures=['True']),
        'constructor': dict(params=dict(array='elem', name='opt[elem]'), order=['array'], kwonly=['name'], result='ImBuilt',
                            ensures=['result.ctor == constructor and result.array == array and result.name == name']),
    },
    concrete_inputs='specs.t2_indexmany:concrete_inputs', witness_on_unknown=True, witness_always=True, requires_concrete=[],
    ensures_concrete=['ref_index_many(indices, cls_default, result)'],
    n_loops=2,
    loops={0: dict(index='t', locals=dict(arrays='list[elem]', name_aligned='bool', cls_aligned='bool', index_types_aligned='bool'), invariant=[
        'not index_types_aligned',
        'cls_aligned == forall_in(1, 1 + t, lambda k: at(indices, k).__class__ == at(indices, 0).__class__)',
        'name_aligned == forall_in(1, 1 + t, lambda k: at(indices, k).name == at(indices, 0).name)',
        'cls_first == at(indices, 0).__class__ and name_first == at(indices, 0).name',
    ]),
           # (the per-depth constructor loop of the hierarchical case: not reached for flat inputs)
           1: dict(index='u', invariant=['True'])},
    ensures=[
        # the first input's class wraps the result only when every input is of that class
        f'implies(not {_CLS_ALL}, result.ctor == cls_default.from_labels)',
        f'implies({_CLS_ALL} and cls_default.STATIC == {_C0}.STATIC, result.ctor == {_C0}.from_labels)',
        f'implies({_CLS_ALL} and cls_default.STATIC and not {_C0}.STATIC, result.ctor == {_C0}._IMMUTABLE_CONSTRUCTOR.from_labels)',
        f'implies({_CLS_ALL} and not cls_default.STATIC and {_C0}.STATIC, result.ctor == {_C0}._MUTABLE_CONSTRUCTOR.from_labels)',
        # the first name is kept only when every input carries it
        f'implies({_NAME_ALL}, result.name == at(indices, 0).name)',
        f'implies(not {_NAME_ALL}, is_none(result.name))',
    ])


def concrete_inputs(model):
    """pairs / triples of flat indices: same or different class x same or different name, the first class being one that cannot hold the labels of the others"""
    import static_frame as sf
    from static_frame.core.util import concat_resolved
    y = lambda n: sf.IndexYear(('2019', '2020'), name=n)
    d = lambda n: sf.IndexDate(('2021-05-03', '2022-01-01'), name=n)
    s_ = lambda n: sf.Index(('a', 'b'), name=n)
    out = []
    for combo in ((y('n'), d('n')), (y('y'), d('d')), (y('y'), y('z').relabel(lambda l: l + 10 if False else l) if False else sf.IndexYear(('2030', '2031'), name='z')),
                  (d('n'), d('n').relabel(lambda l: l) if False else sf.IndexDate(('2030-01-01',), name='n')), (y('y'), s_('s')), (s_('s'), y('y'), d('d')),
                  (y('y'), sf.IndexYear(('2040',), name='y'), d('d'))):
        for default in (sf.Index, sf.IndexGO):
            out.append(dict(indices=list(combo), cls_default=default, array_processor=concat_resolved))
    return out
