"""C09: the grow-only index itself.  IndexGO.append / extend were ASSUMED contracts in the FrameGO proofs (t3_growonly.py); here the real
methods are verified against the same statements over the concrete fields: labels == _labels_mutable.  All-or-nothing: every statement that
can raise precedes the first write to the label storage."""
from . import contract, RECORDS

INDEX = 'static_frame/core/index.py'
RECORDS['IndexGOImpl'] = dict(_labels_mutable='list[elem]', _map='opt[elem]', _labels_mutable_dtype='opt[dtype]', _positions_mutable_count='int', _recache='bool')

_UNCH = ('self._labels_mutable == old(self._labels_mutable) and self._positions_mutable_count == old(self._positions_mutable_count) '
         'and self._labels_mutable_dtype == old(self._labels_mutable_dtype) and self._recache == old(self._recache)')
contract(INDEX, '_IndexGOMixin.append', key='_IndexGOMixin.append[impl]', modifies_self=True,
    props=['C09', 'C02'],
    params=dict(self='IndexGOImpl', value='elem'), order=['self', 'value'], result='none',
    requires=['self._positions_mutable_count == len(self._labels_mutable)'],          # class invariant: one position per label
    calls={
        # ASSUMED (class invariant of Index, examined by the C02 stand-in): membership agrees with the label list
        'self.__contains__': dict(params=dict(v='elem'), order=['v'], result='bool', ensures=['result == Has(self._labels_mutable, v)']),
        # ASSUMED automap contracts: building / extending the map may reject the value (an equal key is held) and has no other effect on this object
        'AutoMap': dict(params={}, order=['it'], result='elem', raises={'Exception': 'maybe'}, ensures=['True']),
        'self._map.add': dict(params=dict(v='elem'), order=['v'], result='none', raises={'Exception': 'maybe'}, ensures=['True']),
        'isinstance': dict(params={}, order=['o', 't'], result='bool', ensures=['True']),
        'chain': dict(params={}, order=['a', 'b'], result='elem', ensures=['True']),
    },
    raises={'KeyError': 'Has(self._labels_mutable, value)', 'Exception': 'maybe'},
    # a rejected value leaves labels, count, dtype and cache flag as they were
    raise_ensures=[_UNCH],
    ensures=['len(self._labels_mutable) == old(len(self._labels_mutable)) + 1', 'at(self._labels_mutable, old(len(self._labels_mutable))) == value',
             'forall_in(0, old(len(self._labels_mutable)), lambda i: at(self._labels_mutable, i) == at(old(self._labels_mutable), i))',
             'self._positions_mutable_count == len(self._labels_mutable)', 'self._recache'])

_N0 = 'old(len(self._labels_mutable))'
_PREFIX = (f'forall_in(0, {_N0}, lambda i: at(self._labels_mutable, i) == at(old(self._labels_mutable), i)) and '
           f'forall_in({_N0}, len(self._labels_mutable), lambda i: at(self._labels_mutable, i) == at(values, i - {_N0}))')
contract(INDEX, '_IndexGOMixin.extend', key='_IndexGOMixin.extend[impl]',
    props=['C09', 'C02'],
    params=dict(self='IndexGOImpl', values='list[elem]'), order=['self', 'values'], result='none',
    requires=['self._positions_mutable_count == len(self._labels_mutable)'],
    call_alias={'_IndexGOMixin.append': '_IndexGOMixin.append[impl]'},
    raises={'KeyError': ('maybe', f'exists_in(0, len(values), lambda i: Has(old(self._labels_mutable), at(values, i)) or exists_in(0, i, lambda j: at(values, j) == at(values, i)))'),
            'Exception': 'maybe'},
    # NOT all-or-nothing (recorded finding for C09): a rejected extend keeps the values appended before the offending one -- but exactly a prefix
    raise_ensures=[f'len(self._labels_mutable) >= {_N0} and len(self._labels_mutable) < {_N0} + len(values)', _PREFIX,
                   'self._positions_mutable_count == len(self._labels_mutable)'],
    n_loops=1,
    loops={0: dict(index='t', locals=dict(self='IndexGOImpl'), invariant=[
        f'len(self._labels_mutable) == {_N0} + t', _PREFIX, 'self._positions_mutable_count == len(self._labels_mutable)'])},
    ensures=[f'len(self._labels_mutable) == {_N0} + len(values)', _PREFIX, 'self._positions_mutable_count == len(self._labels_mutable)'])
