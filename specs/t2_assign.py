"""C07 / C08 / C01: SeriesAssign.__call__ (Series.assign[key](value)) -- the result is a NEW read-only array whose dtype holds the container's dtype AND the
dtype of what is actually written into it (for a Series value: the array obtained AFTER aligning it to the targeted labels, which may have been widened
by the fill value); index and name are carried over; the container's own array is not the one written to.
The write itself (`array[key] = value`, NumPy fancy assignment) is a local call model whose PRECONDITION is the store-compatibility obligation:
the array is writeable and its dtype holds the dtype of the value written (NumPy casts silently otherwise)."""
from . import contract, RECORDS

SER = 'static_frame/core/series.py'
RECORDS['SaSeries'] = {'values': 'arr', 'dtype': 'dtype', '_index': 'elem', '_name': 'elem'}
RECORDS['SaAssign'] = {'container': 'SaSeries', 'key': 'elem'}
RECORDS['SaValue'] = {'values': 'arr', 'dtype': 'dtype'}

_COMMON_REQ = ['self.container.dtype == self.container.values.dtype', 'self.container.values.ndim == 1', 'not self.container.values.writeable']
_COPY = dict(params={}, order=[], result='arr',          # ASSUMED NumPy: copy() = new writeable array of the same shape and dtype
             ensures=['result.fresh and result.writeable and result.ndim == 1 and result.rows == self.container.values.rows and result.dtype == self.container.values.dtype',
                      'result.src != self.container.values.src'])
_ASTYPE = dict(params=dict(d='dtype'), order=['d'], result='arr',     # ASSUMED NumPy: astype(d) = new writeable array of dtype d
               ensures=['result.fresh and result.writeable and result.ndim == 1 and result.rows == self.container.values.rows and result.dtype == d',
                        'result.src != self.container.values.src'])
_CTOR = dict(params=dict(values='arr', index='elem', name='elem'), order=['values'], kwonly=['index', 'name'], result='SaSeries',
             ensures=['result.values == values and result._index == index and result._name == name and result.dtype == values.dtype'])
_ENS = [
    'not result.values.writeable and result.values.fresh',                   # a new, read-only array ...
    'result.values.src != self.container.values.src',                         # ... in a buffer of its own (not the container's)
    'result.values.rows == self.container.values.rows and result.values.ndim == 1',
    'holds(result.values.dtype, self.container.dtype)',                      # nothing already stored is narrowed
    'result._index == self.container._index and result._name == self.container._name',
]


def _calls(written_dtype, extra=None):
    c = {
        'resolve_dtype': None,        # placeholder: the registry contract (proved) is used
        'self.container.values.copy': _COPY,
        'self.container.values.astype': _ASTYPE,
        # the store: writeable target whose dtype holds what is written
        'array.__setitem__': dict(params={}, order=['k', 'v'], result='none', requires=['array.writeable', f'holds(array.dtype, {written_dtype})'], ensures=['True']),
        'self.container.__class__': _CTOR,
    }
    del c['resolve_dtype']
    c.update(extra or {})
    return c


# value is a Series: aligned to the targeted labels first (ASSUMED: _reindex_other_like_iloc returns a Series over some 1-D array -- its dtype is whatever
# the alignment with fill_value produced, NOT necessarily the dtype of the Series given)
contract(SER, 'SeriesAssign.__call__', key='SeriesAssign.__call__[series]',
    props=['C07', 'C08', 'C01'],
    params=dict(self='SaAssign', value='SaValue', fill_value='elem'), order=['self', 'value'], kwonly=['fill_value'],
    rec_classes={'SaValue': ['Series']},
    result='SaSeries',
    requires=_COMMON_REQ + ['value.dtype == value.values.dtype'],
    concrete_inputs='specs.t2_assign:concrete_inputs_series', witness_on_unknown=True, witness_always=True, requires_concrete=[], ensures_concrete=['ref_series_assign(self, value, fill_value, result)'],
    calls=_calls('value.dtype', {
        'isinstance': dict(params={}, order=['o', 't'], result='bool', ensures=['result']),
        'self.container._reindex_other_like_iloc': dict(params=dict(v='SaValue', k='elem', fill_value='elem'), order=['v', 'k'], kwonly=['fill_value'], result='SaValue',
                                                        ensures=['result.values.ndim == 1']),
    }),
    ensures=_ENS)

# value is an ndarray: written as it is
contract(SER, 'SeriesAssign.__call__', key='SeriesAssign.__call__[array]',
    props=['C07', 'C08', 'C01'],
    params=dict(self='SaAssign', value='arr', fill_value='elem'), order=['self', 'value'], kwonly=['fill_value'],
    result='SaSeries',
    requires=_COMMON_REQ,
    calls=_calls('value.dtype', {
        'isinstance': dict(params={}, order=['o', 't'], result='bool', ensures=['not result']),
    }),
    ensures=_ENS)


def concrete_inputs_series(model):
    """the counter-model only says that the aligned value's dtype is not held: real cases where aligning the value Series has to insert the fill value"""
    import numpy as np
    import static_frame as sf
    out = []
    for cont, val, fill in ((sf.Series([1, 2, 3], index=('a', 'b', 'c')), sf.Series([10], index=('c',)), 0.5),
                            (sf.Series(['x', 'y', 'z'], index=('a', 'b', 'c')), sf.Series(['w'], index=('c',)), 'longer-text'),
                            (sf.Series([True, False, True], index=('a', 'b', 'c')), sf.Series([False], index=('c',)), 7),
                            (sf.Series([1, 2, 3], index=('a', 'b', 'c')), sf.Series([10, 20], index=('b', 'c')), 0.5)):
        out.append(dict(self=cont.assign.loc[['b', 'c']], value=val, fill_value=fill))
    return out


# value is a single element (not a container, not a sized iterable): its dtype is dtype_from_element (assumed); the array must hold it
contract(SER, 'SeriesAssign.__call__', key='SeriesAssign.__call__[element]',
    props=['C07', 'C08', 'C01'],
    params=dict(self='SaAssign', value='elem', fill_value='elem'), order=['self', 'value'], kwonly=['fill_value'],
    result='SaSeries',
    requires=_COMMON_REQ,
    calls=_calls('ufd("dtype_of_element", value)', {
        'isinstance': dict(params={}, order=['o', 't'], result='bool', ensures=['not result']),
        'hasattr': dict(params={}, order=['o', 'n'], result='bool', ensures=['not result']),
    }),
    ensures=_ENS)
