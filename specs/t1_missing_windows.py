from . import contract

UTIL = 'static_frame/core/util.py'
CU = 'static_frame/core/container_util.py'

_S = 'result[0]'
contract(UTIL, 'slices_from_targets',
    props=['C14'],
    params=dict(target_index='list[int]', target_values='list[elem]', length='int', directional_forward='bool', limit='int'),
    order=['target_index', 'target_values', 'length', 'directional_forward', 'limit', 'slice_condition'],
    is_generator=True, yield_sort='tuple[slice,elem]',
    calls={'slice_condition': dict(params=dict(s='slice'), order=['s'], result='bool', ensures=[])},   # arbitrary predicate
    requires=[
        'length >= 0 and len(target_values) == len(target_index)',
        # positions of the non-missing anchor cells: strictly increasing, inside the axis
        'forall_in(0, len(target_index), lambda j: 0 <= at(target_index, j) and at(target_index, j) < length)',
        'forall(lambda a, b: implies(0 <= a and a < b and b < len(target_index), at(target_index, a) < at(target_index, b)))',
    ],
    n_loops=1,
    loops={0: dict(index='t', invariant=[])},
    at_yield=[
        f'is_none({_S}.step) and not is_none({_S}.start) and not is_none({_S}.stop)',
        # a non-empty run inside the axis ...
        f'0 <= {_S}.start and {_S}.start < {_S}.stop and {_S}.stop <= length',
        # ... filled with the value of ITS OWN anchor (nearest preceding / following non-missing cell)
        'result[1] == at(target_values, t)',
        f'implies(directional_forward, {_S}.start == at(target_index, t) + 1 and {_S}.stop <= cond(t + 1 < len(target_index), at(target_index, t + 1), length))',
        f'implies(not directional_forward, {_S}.stop == at(target_index, t) and {_S}.start >= cond(t > 0, at(target_index, t - 1) + 1, 0))',
        # at most `limit` consecutive cells, adjacent to the anchor
        f'implies(limit > 0, {_S}.stop - {_S}.start <= limit)',
        # never covers an anchor (non-missing) position
        f'forall_in(0, len(target_index), lambda j: not ({_S}.start <= at(target_index, j) and at(target_index, j) < {_S}.stop))',
    ],
    at_exit=[],
    concrete_defaults={'slice_condition': 'lambda s: True'},
    at_yield_concrete=[],
    at_exit_concrete=['yields == ref_slices_from_targets(target_index, target_values, length, directional_forward, limit, slice_condition)'])

_TOP = 'at(old(values_source), len(old(values_source)) - 1 - p)'       # p-th array from the top of the entry stack
contract(CU, 'get_block_match',
    props=['C08'],
    params=dict(width='int', values_source='list[arr]'), order=['width', 'values_source'],
    is_generator=True, yield_sort='arr',
    requires=['width >= 1',
              'forall_in(0, len(values_source), lambda k: (at(values_source, k).ndim == 1 or at(values_source, k).ndim == 2) and W(at(values_source, k)) >= 1)'],
    raises={'IndexError': True},          # stack exhausted: declared, not characterised
    ghost_init=['p = 0', 'got = 0', 'partial = 0'],
    n_loops=1,
    loops={0: dict(locals=dict(width_found='int', p='int', got='int', partial='int', v='arr', width_v='int', width_needed='int'),
                   ghost_mods=['p', 'got', 'partial'],
                   invariant=[
        'got == width_found and 0 <= got and got <= width and partial == 0',
        '0 <= p and p <= len(old(values_source)) and len(values_source) == len(old(values_source)) - p',
        'forall_in(0, len(values_source), lambda k: at(values_source, k) == at(old(values_source), k))',
    ])},
    # every yield hands out the leading columns of the next array on the stack, never more than still needed
    at_yield=[
        'p < len(old(values_source))',
        f'result.src == {_TOP}.src and result.off == {_TOP}.off and result.rows == {_TOP}.rows and result.dtype == {_TOP}.dtype',
        f'1 <= W(result) and W(result) <= W({_TOP}) and got + W(result) <= width',
        f'implies(W(result) < W({_TOP}), got + W(result) == width)',         # only the last array may be split
    ],
    yield_update=['partial = W(at(old(values_source), len(old(values_source)) - 1 - p)) - W(result)', 'got = got + W(result)', 'p = p + 1'],
    at_exit=[
        'got == width',                                                     # exactly `width` columns were drawn
        # the rest of a split array goes back on top; everything below is untouched
        'len(values_source) == len(old(values_source)) - p + cond(partial > 0, 1, 0)',
        'forall_in(0, len(old(values_source)) - p, lambda k: at(values_source, k) == at(old(values_source), k))',
        'implies(partial > 0, at(values_source, len(values_source) - 1).src == at(old(values_source), len(old(values_source)) - p).src'
        ' and at(values_source, len(values_source) - 1).off == at(old(values_source), len(old(values_source)) - p).off + W(at(old(values_source), len(old(values_source)) - p)) - partial'
        ' and W(at(values_source, len(values_source) - 1)) == partial)',
    ])
