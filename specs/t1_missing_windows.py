from . import contract

UTIL = 'static_frame/core/util.py'
CU = 'static_frame/core/container_util.py'

_S = 'result[0]'
contract(UTIL, 'slices_from_targets',
    props=['C14'],
    params=dict(target_index='list[int]', target_values='list[elem]', length='int', directional_forward='bool', limit='int'),
    order=['target_index', 'target_values', 'length', 'directional_forward', 'limit', 'slice_condition'],
    is_generator=True, yield_sort='tuple[slice,elem]',
    calls={'slice_condition': dict(params=dict(s='slice'), order=['s'], result='bool', ensures=[])},   # arbitrary predicate
    requires=[
        'length >= 0 and len(target_values) == len(target_index)',
        # positions of the non-missing anchor cells: strictly increasing, inside the axis
        'forall_in(0, len(target_index), lambda j: 0 <= at(target_index, j) and at(target_index, j) < length)',
        'forall(lambda a, b: implies(0 <= a and a < b and b < len(target_index), at(target_index, a) < at(target_index, b)))',
    ],
    n_loops=1,
    loops={0: dict(index='t', invariant=[])},
    at_yield=[
        f'is_none({_S}.step) and not is_none({_S}.start) and not is_none({_S}.stop)',
        # a non-empty run inside the axis ...
        f'0 <= {_S}.start and {_S}.start < {_S}.stop and {_S}.stop <= length',
        # ... filled with the value of ITS OWN anchor (nearest preceding / following non-missing cell)
        'result[1] == at(target_values, t)',
        f'implies(directional_forward, {_S}.start == at(target_index, t) + 1 and {_S}.stop <= cond(t + 1 < len(target_index), at(target_index, t + 1), length))',
        f'implies(not directional_forward, {_S}.stop == at(target_index, t) and {_S}.start >= cond(t > 0, at(target_index, t - 1) + 1, 0))',
        # at most `limit` consecutive cells, adjacent to the anchor
        f'implies(limit > 0, {_S}.stop - {_S}.start <= limit)',
        # never covers an anchor (non-missing) position
        f'forall_in(0, len(target_index), lambda j: not ({_S}.start <= at(target_index, j) and at(target_index, j) < {_S}.stop))',
    ],
    at_exit=[],
    concrete_defaults={'slice_condition': 'lambda s: True'},
    at_yield_concrete=[],
    at_exit_concrete=['yields == ref_slices_from_targets(target_index, target_values, length, directional_forward, limit, slice_condition)'])
