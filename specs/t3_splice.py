"""C08 / C03: the block-splice generators (_astype_blocks, _mask_blocks, _ufunc_blocks, _drop_blocks) walk the blocks and a
sorted stream of (block, slice) targets in lock-step.  Contract (cursor discipline): every target produced by the key
translation is consumed while ITS OWN block is the current block -- none is skipped, none is applied to another block.
The array operations of the bodies are irrelevant to this and are over-approximated (`lenient`)."""
from . import contract

TB = 'static_frame/core/type_blocks.py'

# the key translation `_key_to_block_slices` (retain_key_order=False) is under its own contract in t1_slices.py: proved for None / slice / integer-list keys;
# for a single integer and for Boolean-array keys the generators below rely on the same statement as an ASSUMPTION (listed in the evidence)

_P = 'it_pos(block_slices)'
_PEND = 'not is_none(target_block_idx)'


def _inv(cur, strict):
    """cursor invariant relative to the current block number `cur`; strict: consumed targets lie strictly before it (outer loop head)"""
    lt = '<' if strict else '<='
    return [
        f'0 <= {_P} and {_P} <= it_len(block_slices)',
        'is_none(target_block_idx) == is_none(target_slice)',
        f'implies({_PEND}, {_P} >= 1 and target_block_idx == it_at(block_slices, {_P} - 1)[0] and target_slice == it_at(block_slices, {_P} - 1)[1] and target_block_idx >= {cur})',
        f'forall_in(0, {_P} - cond({_PEND}, 1, 0), lambda k: it_at(block_slices, k)[0] {lt} {cur})',
        f'forall_in({_P}, it_len(block_slices), lambda k: it_at(block_slices, k)[0] >= {cur})',
        f'implies(not targets_remain, {_P} == it_len(block_slices) and is_none(target_block_idx))',
    ]


def splice_contract(qualname, props, extra_params=None, protect=(), extra_loops=None):
    contract(TB, qualname,
        props=props,
        params=dict(dict(self='TypeBlocks'), **(extra_params or {})), order=['self'],
        lenient=True, lenient_protect=['target_block_idx', 'target_slice', 'targets_remain', 'block_slices', 'block_idx'],
        is_generator=True,
        requires=['Dir(self)'],
        raises={'IndexError': True},
        n_loops=2 + len(extra_loops or {}),
        loops={
            **(extra_loops or {}),
            0: dict(index='t', locals=dict(target_block_idx='opt[int]', target_slice='opt[slice]', targets_remain='bool'),
                    invariant=_inv('t', True)),
            1: dict(locals=dict(target_block_idx='opt[int]', target_slice='opt[slice]', targets_remain='bool'),
                    invariant=['block_idx == t and t < len(self._blocks)'] + _inv('block_idx', False)),
        },
        at_exit=[f'{_P} == it_len(block_slices)', 'is_none(target_block_idx)'])


splice_contract('TypeBlocks._astype_blocks', ['C08', 'C03'])
splice_contract('TypeBlocks._mask_blocks', ['C08', 'C03'])
splice_contract('TypeBlocks._ufunc_blocks', ['C03', 'C15'])
splice_contract('TypeBlocks._drop_blocks', ['C08', 'C03'], extra_params=dict(row_key='opt[int]', column_key='opt[int]'),
                extra_loops={2: dict(index='u', locals=dict(part='arr'), invariant=[])})      # the row-deletion loop over the parts of one block: no cursor state
