"""C04 / C02: LocMap.map_slice_args turns a label slice into a position slice: start -> position, stop -> position + 1
(label slices INCLUDE their stop label), step unchanged, an absent end-point label raises instead of selecting other data."""
from . import contract, RECORDS

INDEX = 'static_frame/core/index.py'
RECORDS['LSlice'] = dict(start='opt[elem]', stop='opt[elem]', step='opt[int]')

_OFF = 'cond(is_none(offset), 0, offset)'
contract(INDEX, 'LocMap.map_slice_args',
    props=['C04', 'C02'],
    params=dict(key='LSlice', labels='opt[elem]', offset='opt[int]'), order=['label_to_pos', 'key', 'labels', 'offset'],
    is_generator=True, yield_sort='opt[int]',
    calls={'label_to_pos': dict(params=dict(label='elem'), order=['label'], result='opt[int]',      # the map's .get: None exactly for labels that are not held
                                ensures=['is_none(result) == (not ube("held", label))', 'implies(not is_none(result), result == ufi("pos", label))'])},
    raises={'LocInvalid': '(not is_none(key.start) and not ube("held", key.start)) or (not is_none(key.stop) and not ube("held", key.stop))'},
    ghost_init=['n = 0'],
    n_loops=1,
    loops={0: 'unroll'},
    at_yield=[
        'n < 3',
        # start: the position of the start label (shifted by the level offset)
        'implies(n == 0, is_none(result) == is_none(key.start))',
        f'implies(n == 0 and not is_none(key.start), result == ufi("pos", key.start) + {_OFF})',
        # stop: one past the position of the stop label -- the stop label is included
        'implies(n == 1, is_none(result) == is_none(key.stop))',
        f'implies(n == 1 and not is_none(key.stop), result == ufi("pos", key.stop) + {_OFF} + 1)',
        # step passes through
        'implies(n == 2, result == key.step)',
    ],
    yield_update=['n = n + 1'],
    at_exit=['n == 3'],
    concrete_inputs='specs.t2_locmap:concrete_inputs',
    requires_concrete=[],
    raises_concrete={'LocInvalid': '(key.start is not None and key.start not in _map) or (key.stop is not None and key.stop not in _map)'},
    at_yield_concrete=[],
    at_exit_concrete=['yields == ref_map_slice_args(_map, key, offset)'])


def concrete_inputs(model):
    """counter-model -> (dict.get of a 3-label map, slice of label strings, offset); every label token of the model is held"""
    key = model.get('key') or {}
    toks = [t for t in (key.get('start'), key.get('stop')) if t is not None]
    labels = []
    for t in ['l0', 'l1'] + [str(t) for t in toks]:
        if t not in labels:
            labels.append(t)
    mp = {l: i for i, l in enumerate(labels)}
    k = slice(None if key.get('start') is None else str(key['start']), None if key.get('stop') is None else str(key['stop']), key.get('step'))
    return dict(label_to_pos=mp.get, key=k, labels=None, offset=model.get('offset'), _map=mp)


# ---- LocMap.loc_to_iloc: a label (or a list of labels) is translated through the map, label by label, in key order, shifted by the level offset ----
# (opaque labels: an instance of none of the special-cased classes -- datetime64 keys, arrays and Boolean selections are outside this contract;
#  absent labels: the KeyError of the map look-up inside the comprehension is not modelled, the labels are required to be held)
contract(INDEX, 'LocMap.loc_to_iloc',
    props=['C04', 'C02'],
    params=dict(offset='opt[int]', partial_selection='bool'), order=[], kwonly=['label_to_pos', 'labels', 'positions', 'key', 'offset', 'partial_selection'],
    defaults=dict(offset='None', partial_selection='False'),
    variants=[dict(key='list[elem]'), dict(key='elem')],
    requires=['not partial_selection'],
    requires_variant={0: ['forall_in(0, len(key), lambda i: ube("held", at(key, i)))'], 1: ['ube("held", key)']},
    calls={'label_to_pos.__getitem__': dict(params=dict(k='elem'), order=['k'], result='int', result_expr='ufi("pos", k)')},
    ensures_variant={0: ['len(result) == len(key)', f'forall_in(0, len(key), lambda i: at(result, i) == ufi("pos", at(key, i)) + {_OFF})'],
                     1: [f'result == ufi("pos", key) + {_OFF}']},
    ensures=[])


# ---- LocMap.bound_offset_slice: a slice inside ONE level of a hierarchy never reaches into its siblings ------------------------------
# the level owns the positions [offset, offset + size); explicit bounds come from map_slice_args (already shifted by offset)
contract(INDEX, 'LocMap.bound_offset_slice',
    props=['C04', 'C05'],
    params=dict(key='slice', offset='int', size='int'), order=['key', 'offset', 'size'], result='slice',
    ghost_params=dict(N='int'),          # length of the whole axis
    requires=['offset >= 0 and size >= 1 and offset + size <= N',
              'is_none(key.step) or key.step != 0',
              # explicit bounds lie inside the level: a start is a position of the level, a stop is one past a position of the level
              'is_none(key.start) or (offset <= key.start and key.start < offset + size)',
              'is_none(key.stop) or (offset < key.stop and key.stop <= offset + size)'],
    ensures=[
        'result.step == key.step',
        # every position the result selects on the whole axis belongs to this level
        'forall(lambda p: implies(0 <= p and p < N and in_slice(p, result, N), offset <= p and p < offset + size))',
        # an open start begins at the level's own first (forward) / last (backward) position
        'implies(is_none(key.start) and (is_none(key.step) or key.step > 0) and (is_none(key.stop) or key.stop > offset), in_slice(offset, result, N))',
        'implies(is_none(key.start) and not is_none(key.step) and key.step < 0 and (is_none(key.stop) or key.stop < offset + size - 1), in_slice(offset + size - 1, result, N))',
    ])
