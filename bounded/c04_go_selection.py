"""C04 / C02 bounded stand-in: selection on a grow-only container AFTER growth (no cache-refreshing read in between)
equals selection on the static container built from the same final labels.  Contract: for every key kind,
go.loc[key] == static.loc[key] (labels, values, or the same exception class family).  Added after a seeded change
(stale label cache used by scalar coarser-resolution datetime keys) was missed by the static-container stand-ins."""
from __future__ import annotations
import datetime
import itertools
import numpy as np
from .common import Report


def _canon(x):
    import static_frame as sf
    if isinstance(x, sf.Frame):
        return ('F', tuple(map(str, x.index.values.tolist())), tuple(map(str, x.columns.values.tolist())), tuple(map(repr, x.values.ravel().tolist())))
    if isinstance(x, sf.Series):
        return ('S', tuple(map(str, x.index.values.tolist())), tuple(map(repr, x.values.tolist())))
    if isinstance(x, sf.Index):
        return ('I', tuple(map(str, x.values.tolist())))
    if isinstance(x, np.ndarray):
        return ('A', tuple(map(repr, x.tolist())))
    return ('E', repr(x))


def _try(f):
    try:
        return _canon(f())
    except LookupError as e:
        return ('exc', 'LookupError')
    except Exception as e:
        return ('exc', type(e).__name__)


def families():
    """(name, index GO class name, static class name, initial labels, appended labels, keys)"""
    D = np.datetime64
    days1 = ['2020-01-30', '2020-01-31']
    days2 = ['2020-02-01', '2020-02-02', '2021-03-05']
    dkeys = ['2020-02', '2020-01', '2020', '2021', D('2020-02'), D('2020'), D('2021-03'), '2020-02-01', D('2020-02-02'), datetime.date(2020, 2, 1),
             ['2020-02-01', '2020-01-30'], slice('2020-01-31', '2020-02-01'), slice('2020-02', None), slice(None, '2020-01'), ['2021-03-05']]
    yield ('date', 'IndexDateGO', 'IndexDate', days1, days2, dkeys)
    ym1, ym2 = ['2020-01', '2020-02'], ['2021-01', '2021-02']
    yield ('yearmonth', 'IndexYearMonthGO', 'IndexYearMonth', ym1, ym2, ['2021', '2020', D('2021'), '2021-02', ['2021-01', '2020-01'], slice('2020-02', '2021-01'), slice('2021', None)])
    sec1, sec2 = ['2020-01-01T00:00:01', '2020-01-01T00:00:02'], ['2020-01-02T00:00:00', '2020-01-02T10:00:00']
    yield ('second', 'IndexSecondGO', 'IndexSecond', sec1, sec2, ['2020-01-02', '2020-01', D('2020-01-02'), D('2020-01-02T10'), '2020-01-02T10:00:00', slice('2020-01-02', None)])
    yield ('str', 'IndexGO', 'Index', ['a', 'b'], ['c', 'd', 'e'], ['c', 'e', 'a', ['d', 'a'], ['e'], slice('b', 'd'), slice('c', None), slice(None, 'c'), 'zz', ['a', 'zz']])
    yield ('int', 'IndexGO', 'Index', [10, 20], [30, 5, 40], [30, 5, 10, [40, 10], slice(20, 5), slice(30, None), 99, [5, 99]])
    yield ('auto', 'IndexGO-auto', 'Index', [0, 1], [2, 3, 'x'], [2, 3, 'x', 0, [3, 0], ['x', 1], slice(1, 3), 7])


def cases():
    for fam in families():
        name, go_cls, st_cls, init, extra, keys = fam
        for n_app in range(1, len(extra) + 1):
            for warm in (False, True):          # warm: caches were materialised BEFORE the growth
                for how in ('append', 'extend'):
                    for ki, key in enumerate(keys):
                        for container in ('index', 'series', 'frame_cols', 'frame_getitem', 'loc_to_iloc') + (('iter_label', 'iter_label_items') if ki == 0 else ()):
                            yield (name, go_cls, st_cls, init, extra[:n_app], warm, how, ki, key, container)


def _build(go_cls, st_cls, init, extra, warm, how):
    import static_frame as sf
    if go_cls == 'IndexGO-auto':
        go = sf.FrameGO(np.arange(2 * len(init)).reshape(2, len(init))).columns      # auto-integer grow-only columns
        go = sf.IndexGO(go) if False else go
    else:
        go = getattr(sf, go_cls)(init)
    if warm:
        go.values, go.positions, len(go)
    if how == 'append':
        for l in extra:
            go.append(l)
    else:
        go.extend(list(extra))
    st = getattr(sf, st_cls)(list(init) + list(extra))
    return go, st


def _frames(go_cls, st_cls, init, extra, warm, how):
    import static_frame as sf
    n0, n1 = len(init), len(init) + len(extra)
    if go_cls == 'IndexGO-auto':
        fg = sf.FrameGO(np.arange(2 * n0).reshape(2, n0))
    else:
        fg = sf.FrameGO(np.arange(2 * n0).reshape(2, n0), columns=getattr(sf, go_cls)(init))
    if warm:
        fg.columns.values, fg.values
    for j, l in enumerate(extra):
        if how == 'append':
            fg[l] = (100 + j, 200 + j)
        else:
            fg.extend(sf.Series((100 + j, 200 + j), name=l))
    data = np.arange(2 * n0).reshape(2, n0).tolist()
    rows = [data[0] + [100 + j for j in range(len(extra))], data[1] + [200 + j for j in range(len(extra))]]
    fs = sf.Frame.from_records(rows, columns=getattr(sf, st_cls)(list(init) + list(extra)))
    return fg, fs


def run(repo, task):
    import static_frame as sf
    rep = Report('C04-go-selection', task,
                 rule='grow-only index / FrameGO columns of 6 label families (3 datetime resolutions, str, int, auto-integer) x 1..3 appended labels x '
                      'cache warm/cold x append/extend x every key (scalar, coarser-resolution datetime, list, slice, absent) x 4 selection routes + the public loc_to_iloc and the label iterators as first read; '
                      'non-trivial when the static reference returns data or a lookup error',
                 bound='<= 5 labels, <= 15 keys per family')
    for (name, go_cls, st_cls, init, extra, warm, how, ki, key, container) in rep.shard(cases()):
        rp = dict(family=name, n_app=len(extra), warm=warm, how=how, ki=ki, container=container)
        try:
            if container in ('index', 'series', 'loc_to_iloc', 'iter_label', 'iter_label_items'):
                go, st = _build(go_cls, st_cls, init, extra, warm, how)
                if container == 'loc_to_iloc':          # the public label -> position translation as the FIRST read after the growth
                    a, b = _try(lambda: np.asarray(go.loc_to_iloc(key)) if not isinstance(go.loc_to_iloc(key), slice) else repr(go.loc_to_iloc(key))), \
                           _try(lambda: np.asarray(st.loc_to_iloc(key)) if not isinstance(st.loc_to_iloc(key), slice) else repr(st.loc_to_iloc(key)))
                elif container == 'iter_label':
                    a, b = _try(lambda: list(map(str, go.iter_label()))), _try(lambda: list(map(str, st.iter_label())))
                elif container == 'iter_label_items':
                    a, b = _try(lambda: [(int(p), str(l)) for p, l in go._iter_label_items()]), _try(lambda: [(int(p), str(l)) for p, l in st._iter_label_items()])
                elif container == 'index':
                    a, b = _try(lambda: go.loc[key]), _try(lambda: st.loc[key])
                else:
                    vals = list(range(len(st)))
                    # a Series cannot hold a GO index: derive a static copy of the grown index first (conversion must see all labels)
                    a, b = _try(lambda: sf.Series(vals, index=go).loc[key]), _try(lambda: sf.Series(vals, index=st).loc[key])
            else:
                fg, fs = _frames(go_cls, st_cls, init, extra, warm, how)
                if container == 'frame_cols':
                    a, b = _try(lambda: fg.loc[:, key]), _try(lambda: fs.loc[:, key])
                else:
                    a, b = _try(lambda: fg[key]), _try(lambda: fs[key])
        except Exception:
            rep.error(f'building {rp}')
            continue
        kkind = 'slice' if isinstance(key, slice) else 'list' if isinstance(key, list) else ('dt64' if isinstance(key, np.datetime64) else type(key).__name__)
        rep.count(distinct_key=(name, len(extra), warm, how, ki, container) if b[0] != 'exc' or b[1] == 'LookupError' else None,
                  sample=dict(rp, key=repr(key), static=str(b)[:120]))
        if b[0] == 'exc' and b[1] != 'LookupError':
            continue          # the static container itself does not support this key: nothing to compare
        if a[0] == 'exc' and b[0] == 'exc':
            continue          # both refuse the key; which exception class is raised for an absent label is checked by the C04-loc stand-in
        rep.check(a == b, f'C04:go-after-growth:{name}:{container}:{kkind}',
                  f'{container} selection with key {key!r} on a grow-only {go_cls} after {how} of {list(extra)!r} (cache {"warm" if warm else "cold"}) gives {str(a)[:160]} '
                  f'but the static container with the same labels gives {str(b)[:160]}', rp)
    return rep.done()


def run_frozen_derivations(repo, task):
    """a STATIC container derived from a grow-only one before the growth keeps answering exactly as it did: membership, label look-up, length and
    labels are those of the moment of derivation (C01: no later call changes what is observable through it; C02: label <-> position bijection)"""
    import static_frame as sf
    rep = Report('C04-go-frozen-derivations', task,
                 rule='6 label families x cache warm/cold x {Index(go), immutable_index_filter via Series/Frame index, FrameGO.to_frame().columns, IndexHierarchy(go) with the family as outer level} '
                      'x append/extend of 1..3 labels to the SOURCE afterwards; probes: every appended label and every original label',
                 bound='<= 5 labels per family')
    cases_ = []
    for fam in families():
        name, go_cls, st_cls, init, extra, _ = fam
        for n_app in range(1, len(extra) + 1):
            for warm in (False, True):
                for how in ('append', 'extend'):
                    for route in ('index', 'series-index', 'frame-columns', 'hierarchy'):
                        cases_.append((name, go_cls, st_cls, init, extra[:n_app], warm, how, route))
    for (name, go_cls, st_cls, init, extra, warm, how, route) in rep.shard(cases_):
        rp = dict(frozen=True, family=name, n_app=len(extra), warm=warm, how=how, route=route)
        try:
            if route == 'hierarchy':
                if go_cls == 'IndexGO-auto':
                    continue
                src = sf.IndexHierarchyGO.from_labels([(l, 0) for l in init], index_constructors=(getattr(sf, go_cls), sf.IndexGO))
                grow = [(l, 0) for l in extra]
                held = [(l, 0) for l in init]
            elif go_cls == 'IndexGO-auto':
                fg0 = sf.FrameGO(np.arange(2 * len(init)).reshape(2, len(init)))
                src = fg0.columns
                grow, held = list(extra), list(init)
            else:
                src = getattr(sf, go_cls)(init)
                grow, held = list(extra), list(init)
            if warm:
                src.values, len(src)
            if route == 'index':
                derived = sf.Index(src) if route != 'hierarchy' and not name in ('date', 'yearmonth', 'second') else getattr(sf, st_cls)(src)
            elif route == 'series-index':
                derived = sf.Series(np.arange(len(held)), index=src).index
            elif route == 'frame-columns':
                derived = sf.FrameGO(np.arange(2 * len(held)).reshape(2, len(held)), columns=src).to_frame().columns
            else:
                derived = sf.IndexHierarchy(src)
            before = (_try(lambda: len(derived)), _try(lambda: _canon(list(derived))), [_try(lambda l=l: derived.loc_to_iloc(l)) for l in held])
            if how == 'append':
                for l in grow:
                    src.append(l)
            else:
                src.extend(sf.IndexHierarchy.from_labels(grow) if route == 'hierarchy' else list(grow))
            after = (_try(lambda: len(derived)), _try(lambda: _canon(list(derived))), [_try(lambda l=l: derived.loc_to_iloc(l)) for l in held])
            member = [(l, _try(lambda l=l: l in derived), _try(lambda l=l: derived.loc_to_iloc(l))) for l in grow]
        except Exception:
            rep.error(f'frozen-derivation harness {rp}')
            continue
        rep.count(distinct_key=(name, len(extra), warm, how, route), sample=rp)
        rep.check(before == after, f'C04:frozen-derivation:{route}:changed-by-growth-of-its-source',
                  f'a static {route} derived from a grow-only {go_cls} changed when the source was grown by {grow!r}: {str(before)[:160]} -> {str(after)[:160]}', rp)
        bad = [(l, m, p) for l, m, p in member if m != ('E', 'False') or p[0] != 'exc']
        rep.check(not bad, f'C04:frozen-derivation:{route}:accepts-labels-added-to-its-source',
                  f'a static {route} derived from a grow-only {go_cls} before {how} of {grow!r} now answers for labels it never held (label, `in`, loc_to_iloc): {str(bad)[:240]}', rp)
    return rep.done()


def replay(repo, rp):
    if rp.get('frozen'):
        r = run_frozen_derivations(repo, dict(tier='quick', shard=0, nshards=1, only=rp))
        hit = [f for f in r['failures'] if all(f.get('replay', {}).get(k) == rp.get(k) for k in ('family', 'n_app', 'warm', 'how', 'route'))]
        return dict(outcome='fail' if hit else 'pass', detail=[f['what'][:300] for f in hit])
    for (name, go_cls, st_cls, init, extra, warm, how, ki, key, container) in cases():
        if (name, len(extra), warm, how, ki, container) == (rp['family'], rp['n_app'], rp['warm'], rp['how'], rp['ki'], rp['container']):
            import static_frame as sf
            if container in ('index', 'series'):
                go, st = _build(go_cls, st_cls, init, extra, warm, how)
                if container == 'index':
                    a, b = _try(lambda: go.loc[key]), _try(lambda: st.loc[key])
                else:
                    vals = list(range(len(st)))
                    a, b = _try(lambda: sf.Series(vals, index=go).loc[key]), _try(lambda: sf.Series(vals, index=st).loc[key])
            else:
                fg, fs = _frames(go_cls, st_cls, init, extra, warm, how)
                a, b = (_try(lambda: fg.loc[:, key]), _try(lambda: fs.loc[:, key])) if container == 'frame_cols' else (_try(lambda: fg[key]), _try(lambda: fs[key]))
            return dict(outcome='pass' if a == b else 'fail', grow_only=str(a)[:300], static=str(b)[:300], key=repr(key))
    return dict(outcome='pass', note='case not found')
