"""C06 bounded stand-in: index set algebra and label alignment of binary operators.

Contract (run-time, real package), reference model taken from the property statement:

* set algebra  (`run_setops`):  for indices A, B (Index / IndexGO / datetime indices / IndexHierarchy; int, str,
  float, mixed-object, tuple, datetime64 labels) over every ordered arrangement of every sub-set of a 4-label
  universe:  labels(A.union(B)) == set(A) | set(B),  intersection == &,  difference == -,  every label once;
  when A and B hold the same labels in the same order, union and intersection keep exactly that order.
* alignment  (`run_binop`):  `a op b` against a dict-based reference: result labels on every aligned axis are the
  union (each once), the non-aligned axis is untouched, a cell holds op(a, b) where both operands have the
  label(s) and the missing-value marker elsewhere; permuting the labels (with their values) of either operand
  leaves the label->value mapping unchanged; operands with equal indices keep the order and the dtype NumPy gives
  for the un-filled columns.
* re-indexing  (`run_reindex`):  the step both operands go through before the element-wise operator:
  Series.reindex / Frame.reindex(index and/or columns): result labels == requested labels in order, a cell holds the
  source cell where the source has the label(s) and the fill value elsewhere.

Not failed unless task['strict'] (arguable readings, see the final report): a comparison operator yields op(x, NaN)
(False / True) instead of a missing-value marker where only one operand has the label; `bool & bool` / `str + str`
between unaligned operands raise because the NaN fill cannot be combined; two Frames in different block layouts
give a wider per-column dtype (whole-frame .values fallback) although their indices are equal.

Only exceptions of the operation under test are observations; harness faults go to rep.error."""
from __future__ import annotations
import itertools
import operator as _op
import warnings
import numpy as np
from .common import Report, layouts_dtype_safe, frame_from

PID = 'C06'

# =============================================================================================
# shared helpers

def _is_missing(v):
    if v is None:
        return True
    if isinstance(v, (float, np.floating)):
        return v != v
    if isinstance(v, (np.datetime64, np.timedelta64)):
        return bool(np.isnat(v))
    return False


NAN_TOKEN = 'NaN-label'


def labels_of(idx):
    """canonical python labels of an index (tuples for hierarchies)"""
    if getattr(idx, 'depth', 1) > 1:
        return [tuple(r) for r in idx.values.tolist()]
    v = idx.values
    if v.ndim == 2:
        return [tuple(r) for r in v.tolist()]
    if v.dtype.kind == 'f':
        return [NAN_TOKEN if x != x else x for x in v.tolist()]
    return v.tolist() if v.dtype.kind != 'O' else list(v)


def _hashable_set(labels):
    return set(labels)


# ---------------------------------------------------------------------------------------------
# label pools: name -> (universe, constructor)

def _pools():
    import static_frame as sf
    IH = sf.IndexHierarchy
    return {
        'int': ([3, 1, 2, -5], lambda ls: sf.Index(ls, dtype=np.int64)),
        'intGO': ([3, 1, 2, -5], lambda ls: sf.IndexGO(ls, dtype=np.int64)),
        'float': ([1.5, -2.0, 3.0, 0.25], lambda ls: sf.Index(ls, dtype=np.float64)),
        'str': (['b', 'a', 'cc', ''], lambda ls: sf.Index(ls, dtype='<U2')),
        # the same labels held with a narrower / wider array dtype (identical operands as far as labels go)
        'int32': ([3, 1, 2, -5], lambda ls: sf.Index(ls, dtype=np.int32)),
        'strU1': (['b', 'a', 'c', 'd'], lambda ls: sf.Index(ls, dtype='<U1')),
        'strU3': (['b', 'a', 'c', 'd'], lambda ls: sf.Index(ls, dtype='<U3')),
        'obj': ([2, 'a', None, 1.5], lambda ls: sf.Index(ls, dtype=object)),
        'objstr': (['b', 'a', 'cc', 'd'], lambda ls: sf.Index(ls, dtype=object)),
        'tuple': ([(1, 'a'), (2, 'b'), (1, 'b'), (0, 'z')], lambda ls: sf.Index(ls) if ls else sf.Index((), dtype=object)),
        'bool': ([True, False], lambda ls: sf.Index(ls, dtype=bool)),
        'date': (['2020-03-01', '2020-01-15', '2020-02-29', '2019-12-31'], lambda ls: sf.IndexDate(ls)),
        'month': (['2020-03', '2020-01', '2021-02', '2019-12'], lambda ls: sf.IndexYearMonth(ls)),
        'second': (['2020-03-01T00:00:01', '2020-01-15T10:00:00', '2020-01-15T09:59:59', '1969-12-31T23:59:59'], lambda ls: sf.IndexSecond(ls)),
        'dt64': (['2020-03-01', '2020-01-15', '2020-02-29', '2019-12-31'], lambda ls: sf.Index(np.array(ls, dtype='datetime64[D]'))),
        'ih2': ([('b', 1), ('a', 2), ('a', 1), ('c', 1)], lambda ls: IH.from_labels(ls, depth_reference=2)),
        'ih2GO': ([('b', 1), ('a', 2), ('a', 1), ('c', 1)], lambda ls: sf.IndexHierarchyGO.from_labels(ls, depth_reference=2)),
        'ih2i': ([(1, 1), (1, 2), (2, 1), (0, 5)], lambda ls: IH.from_labels(ls, depth_reference=2)),
        # the same kind of labels held as a float64 table (against ih2i's int64 table: equal element width, different dtype)
        'ih2f': ([(1, 1.0), (1, 2.0), (2, 1.0), (0, 5.5)], lambda ls: IH.from_labels(ls, depth_reference=2)),
        # one missing label on one side only (NaN is a label like any other for the set algebra; it is canonicalised to one token)
        'floatnan': ([1.5, float('nan'), 3.0, 0.25], lambda ls: sf.Index(ls, dtype=np.float64)),
        'ih3': ([('a', 1, 'x'), ('a', 1, 'y'), ('b', 2, 'x'), ('a', 2, 'x')], lambda ls: IH.from_labels(ls, depth_reference=3)),
        'ihdate': ([('a', '2020-01-02'), ('a', '2020-01-01'), ('b', '2020-01-01'), ('c', '2021-05-05')],
                   lambda ls: IH.from_labels(ls, depth_reference=2, index_constructors=(sf.Index, sf.IndexDate))),
    }


# pool pairs enumerated by run_setops: (left pool, right pool)
SET_PAIRS_QUICK = [('int', 'int'), ('str', 'str'), ('obj', 'obj'), ('tuple', 'tuple'), ('date', 'date'), ('ih2', 'ih2'),
                   ('int', 'float'), ('float', 'int'), ('int', 'str'), ('str', 'obj'), ('obj', 'int'), ('intGO', 'int'),
                   ('bool', 'bool'), ('float', 'float'), ('objstr', 'str'), ('second', 'second'), ('ih2i', 'ih2i'), ('ih3', 'ih3'),
                   ('month', 'month'), ('dt64', 'dt64'), ('dt64', 'date'), ('ih2GO', 'ih2'), ('ihdate', 'ihdate'),
                   ('int32', 'int'), ('int', 'int32'), ('strU1', 'strU3'), ('strU3', 'strU1'), ('str', 'objstr'),
                   ('ih2i', 'ih2f'), ('ih2f', 'ih2i'), ('float', 'floatnan'), ('floatnan', 'float')]
SET_PAIRS_THOROUGH_ONLY = {('month', 'month'), ('second', 'second'), ('ih2GO', 'ih2'), ('float', 'int'), ('dt64', 'dt64')}
SET_FUNCS = ('union', 'intersection', 'difference')


def _arrangements(n, kmax):
    """every ordered arrangement of every sub-set with <= kmax members of range(n)"""
    for k in range(0, min(n, kmax) + 1):
        for p in itertools.permutations(range(n), k):
            yield p


def _set_expected(func, la, lb):
    sa, sb = set(la), set(lb)
    return {'union': sa | sb, 'intersection': sa & sb, 'difference': sa - sb}[func]


def _mk_other(form, pool_b, lb_positions, pools):
    """the right operand in the requested form; returns (operand, canonical labels)"""
    uni, ctor = pools[pool_b]
    idx = ctor([uni[i] for i in lb_positions])
    labs = labels_of(idx)
    if form == 'index':
        return idx, labs
    if form == 'array':
        return idx.values, labs
    if form == 'list':
        # python labels; datetime pools pass NumPy datetime64 scalars (datetime.date objects in a plain list are not index labels)
        return (list(idx.values) if idx.values.dtype.kind == 'M' else list(labs)), labs
    raise ValueError(form)


def _pool_class(pa, pb):
    """coarse operand class used in failure keys (the pool pair itself is in the replay data)"""
    def one(x):
        return 'hierarchy' if x.startswith('ih') else 'datetime' if x in ('date', 'month', 'second', 'dt64') else 'index'
    a, b = one(pa), one(pb)
    if a != b:
        return f'{a}-{b}'
    if a == 'index' and pa.replace('GO', '') != pb.replace('GO', ''):
        return 'index-mixed-dtype'
    return a


def check_set_case(p):
    """p: dict(pa, pb, A, B, func, form).  Returns (failures, nontrivial) ; failures = [(key, what)]"""
    pools = _pools()
    out = []
    ua, ctor_a = pools[p['pa']]
    try:
        a = ctor_a([ua[i] for i in p['A']])
        la = labels_of(a)
        other, lb = _mk_other(p['form'], p['pb'], p['B'], pools)
    except Exception as e:
        if type(e).__name__ == 'ErrorInitIndex' and (p['pa'].startswith('ih') or p['pb'].startswith('ih')):
            return None, False      # precondition: this label order is not a valid tree form, the operand cannot be built
        raise
    func = p['func']
    area = f"{PID}:set:{_pool_class(p['pa'], p['pb'])}:{func}"
    exp = _set_expected(func, la, lb)
    try:
        with warnings.catch_warnings():
            warnings.simplefilter('ignore')
            r = getattr(a, func)(other)
        got = labels_of(r)
    except Exception as e:
        return [(f'{area}:raises-{type(e).__name__}', f'{func} of {la} and {lb} ({p["form"]}) raises {e!r}')], False
    try:
        gs = set(got)
    except TypeError as e:
        return [(f'{area}:unhashable-labels', f'{func} result labels not hashable: {got!r}')], False
    if len(got) != len(gs):
        out.append((f'{area}:duplicate-labels', f'{func} of {la} and {lb}: labels repeated in {got}'))
    if gs != exp:
        out.append((f'{area}:wrong-labels', f'{func} of {la} and {lb}: got {got}, set algebra prescribes {sorted(exp, key=repr)}'))
    if p['form'] == 'index' and la == lb and func in ('union', 'intersection') and got != la:
        out.append((f'{area}:identical-order-lost', f'{func} of identical operands {la}: order changed to {got}'))
    return out, bool(la or lb)


def check_set_multi(p):
    """variadic union / intersection: p = dict(pa, A, others=[...positions], func)"""
    pools = _pools()
    ua, ctor = pools[p['pa']]
    try:
        a = ctor([ua[i] for i in p['A']])
        la = labels_of(a)
        others = [ctor([ua[i] for i in B]) for B in p['others']]
    except Exception as e:
        if type(e).__name__ == 'ErrorInitIndex' and p['pa'].startswith('ih'):
            return None, False
        raise
    lbs = [labels_of(o) for o in others]
    func = p['func']
    area = f"{PID}:set:{_pool_class(p['pa'], p['pa'])}:{func}-variadic"
    exp = set(la)
    for lb in lbs:
        exp = (exp | set(lb)) if func == 'union' else (exp & set(lb))
    try:
        with warnings.catch_warnings():
            warnings.simplefilter('ignore')
            got = labels_of(getattr(a, func)(*others))
    except Exception as e:
        return [(f'{area}:raises-{type(e).__name__}', f'{func} of {la} with {lbs} raises {e!r}')], False
    out = []
    if len(got) != len(set(got)):
        out.append((f'{area}:duplicate-labels', f'{func} of {la} with {lbs}: labels repeated in {got}'))
    if set(got) != exp:
        out.append((f'{area}:wrong-labels', f'{func} of {la} with {lbs}: got {got}, expected {sorted(exp, key=repr)}'))
    if all(lb == la for lb in lbs) and got != la:
        out.append((f'{area}:identical-order-lost', f'{func} of identical operands {la}: order changed to {got}'))
    return out, True


def _set_cases(tier):
    kmax = 3 if tier == 'quick' else 4
    pools = _pools()
    for pa, pb in SET_PAIRS_QUICK:
        if tier == 'quick' and (pa, pb) in SET_PAIRS_THOROUGH_ONLY:
            continue
        na, nb = len(pools[pa][0]), len(pools[pb][0])
        hier = pa.startswith('ih')
        k = kmax if (not hier or tier != 'quick') else 3
        for A in _arrangements(na, k):
            yield ('pair', pa, pb, A, min(nb, k))
    for pa in ('int', 'str', 'ih2', 'date', 'obj'):
        for A in _arrangements(4, 2 if tier == 'quick' else 3):
            yield ('multi', pa, None, A, 2 if tier == 'quick' else 3)


def run_setops(repo, task):
    rep = Report('C06-setops', task,
                 rule='every ordered arrangement of every sub-set (<= 3 labels quick, <= 4 thorough) of a 4-label universe for both operands, '
                      'x {union, intersection, difference} x right operand given as index (all pools) or as ndarray / list (same-pool pairs); '
                      'variadic union/intersection with 2 further operands; identical labels held with different array dtypes (int32/int64, <U1/<U3, <U2/object) on either side; non-trivial = at least one operand non-empty',
                 bound='<= 4 labels per operand; label kinds int64, float64, <U2, mixed object, object str, tuple, bool, datetime64[D|M|s], '
                       'IndexHierarchy depth 2 (str/int, int/int, str/date) and 3, IndexGO / IndexHierarchyGO left operands')
    tier = task.get('tier', 'quick')
    for (mode, pa, pb, A, kb) in rep.shard(_set_cases(tier)):
        try:
            if mode == 'pair':
                pools = _pools()
                nb = len(pools[pb][0])
                forms = ('index', 'array', 'list') if pa == pb and (tier != 'quick' or pa in ('int', 'str', 'obj', 'date', 'ih2', 'tuple')) else ('index',)
                for B in _arrangements(nb, kb):
                    for form in forms:
                        if form != 'index' and pa.startswith('ih') and not B:
                            continue  # an empty plain list/array carries no depth: not an index operand (stated scope restriction)
                        for func in SET_FUNCS:
                            p = dict(area='set', pa=pa, pb=pb, A=list(A), B=list(B), func=func, form=form)
                            fails, nt = check_set_case(p)
                            if fails is None:
                                continue
                            rep.count(distinct_key=('set', pa, pb, A, B, func, form) if nt else None, sample=p)
                            for key, what in fails:
                                rep.fail(key, what, p)
            else:
                for B in _arrangements(4, kb):
                    for C in _arrangements(4, kb):
                        for func in ('union', 'intersection'):
                            p = dict(area='setmulti', pa=pa, A=list(A), others=[list(B), list(C)], func=func)
                            fails, nt = check_set_multi(p)
                            if fails is None:
                                continue
                            rep.count(distinct_key=('setmulti', pa, A, B, C, func), sample=p)
                            for key, what in fails:
                                rep.fail(key, what, p)
        except Exception:
            rep.error(f'setops harness {mode} {pa} {pb} {A}')
    return rep.done()


# =============================================================================================
# binary operators

def _swap(f):
    return lambda x, y: f(y, x)


# name -> (python callable on cells (a_cell, b_cell), how to invoke on containers, category)
ARITH = ('add', 'sub', 'mul', 'truediv', 'floordiv', 'mod', 'pow')
CMP = ('lt', 'le', 'eq', 'ne', 'gt', 'ge')
LOGIC = ('and', 'or', 'xor')
REFL = ('radd', 'rsub', 'rmul', 'rtruediv', 'rfloordiv')      # the reflected forms the package defines
_PY = dict(add=_op.add, sub=_op.sub, mul=_op.mul, truediv=_op.truediv, floordiv=_op.floordiv, mod=_op.mod, pow=_op.pow,
           lt=_op.lt, le=_op.le, eq=_op.eq, ne=_op.ne, gt=_op.gt, ge=_op.ge)
_PY['and'] = _op.and_
_PY['or'] = _op.or_
_PY['xor'] = _op.xor
for _r in REFL:
    _PY[_r] = _swap(_PY[_r[1:]])


def cell_fn(opname):
    return _PY[opname]


def apply_op(opname, left, right):
    """invoke the operator on the real containers.  Reflected names call the reflected dunder of `left`
    (this is what Python does for  right op left  when right does not implement the operator)."""
    if opname in REFL:
        return getattr(left, f'__{opname}__')(right)
    return _PY[opname](left, right)


UNI = {
    'str': ['a', 'b', 'c', 'd'],
    'int': [10, -3, 7, 0],
    'obj': [1, 'a', None, 2.5],
    'date': ['2020-01-01', '2020-01-02', '2019-06-30', '2021-12-31'],
    'ih2': [('a', 1), ('a', 2), ('b', 1), ('b', 2)],
}


def mk_index(pool, positions):
    import static_frame as sf
    labs = [UNI[pool][i] for i in positions]
    if pool == 'str':
        return sf.Index(labs, dtype='<U1')
    if pool == 'int':
        return sf.Index(labs, dtype=np.int64)
    if pool == 'obj':
        return sf.Index(labs, dtype=object)
    if pool == 'date':
        return sf.IndexDate(labs)
    if pool == 'ih2':
        return sf.IndexHierarchy.from_labels(labs, depth_reference=2)
    raise ValueError(pool)


_DT = dict(i=np.int64, f=np.float64, b=bool, U='<U2', O=object)


def val(side, kind, r, c):
    """value stored at universe row r / column c of operand `side`; chosen so that every mis-pairing changes the result,
    no divisor is 0 and integer powers stay far below 2**53"""
    if kind == 'i':
        return (2 + r + 4 * c) if side == 'a' else (1 + (2 * r + 3 * c) % 7)
    if kind == 'f':
        return (0.5 + r - 1.25 * c) if side == 'a' else (1.5 + 0.5 * r + c)
    if kind == 'b':
        return bool((r + c) % 2) if side == 'a' else bool((r // 2 + c) % 2)
    if kind == 'U':
        s = 'abcd'[r] + 'wxyz'[c]
        return s if (side == 'a' or (r + c) % 2) else s[::-1]
    if kind == 'O':
        pool = [None, 'x', 3, 2.5]
        return pool[(r + c) % 4] if side == 'a' else pool[(r + 2 * c + (r == 1)) % 4]
    raise ValueError(kind)


def col_array(side, kind, rows, c):
    a = np.empty(len(rows), dtype=_DT[kind])
    for i, r in enumerate(rows):
        a[i] = val(side, kind, r, c)
    return a


# dtype plans: kinds per universe column for operand a and b, kind of a Series operand, operators exercised
PLANS = {
    'int': dict(a='iiii', b='iiii', s='i', ops=ARITH + CMP + REFL),
    'mix': dict(a='ifif', b='ffii', s='f', ops=('add', 'sub', 'truediv', 'floordiv', 'pow', 'lt', 'eq', 'ge', 'rsub', 'rtruediv')),
    'bool': dict(a='bbbb', b='bbbb', s='b', ops=LOGIC + CMP + ('add', 'mul')),
    'ibf': dict(a='ifbi', b='ifbf', s='i', ops=('add', 'mul', 'sub', 'lt', 'eq', 'ne', 'radd')),
    'str': dict(a='UUUU', b='UUUU', s='U', ops=('add', 'radd', 'eq', 'ne', 'lt', 'ge')),
    'objeq': dict(a='iUfO', b='iUOO', s='O', ops=('eq', 'ne')),
}

SCALARS = {'i': 3, 'f': 2.5, 'b': True, 'U': 'q', 'O': 3}


class _Unsupported(Exception):
    pass


def _pyval(x):
    return x.item() if isinstance(x, np.generic) else x


def candidates(opname, x, y):
    """acceptable cell values for op(x, y): NumPy-scalar semantics and plain Python semantics (they differ for bool
    arithmetic once a missing-value fill has turned a bool column into an object column).  Returns (values, numpy_ok)."""
    fn = cell_fn(opname)
    out, np_ok = [], True
    with warnings.catch_warnings():
        warnings.simplefilter('ignore')
        with np.errstate(all='ignore'):
            try:
                out.append(fn(x, y))
            except Exception:
                np_ok = False
            try:
                v = fn(_pyval(x), _pyval(y))
                if not isinstance(v, complex):
                    out.append(v)
            except Exception:
                pass
            try:    # ints that met a NaN fill elsewhere in their column are computed as floats
                if isinstance(x, (int, np.integer)) and isinstance(y, (int, np.integer)) and not isinstance(x, (bool, np.bool_)) and not isinstance(y, (bool, np.bool_)):
                    out.append(fn(np.float64(x), np.float64(y)))
            except Exception:
                pass
    return out, np_ok


def loose_eq(real, cand):
    if _is_missing(real) or _is_missing(cand):
        return _is_missing(real) and _is_missing(cand)
    if isinstance(real, str) != isinstance(cand, str):
        return False
    try:
        if isinstance(real, (float, np.floating)) or isinstance(cand, (float, np.floating)):
            return bool(real == cand) or bool(np.isclose(float(real), float(cand), rtol=1e-12, atol=0.0))     # array pow vs scalar pow differ by 1 ulp
        return bool(real == cand)
    except Exception:
        return False


def _fill_candidates(opname, x, side_missing):
    """non-strict reading for comparison operators: the package compares against the NaN fill"""
    fn = cell_fn(opname)
    try:
        with np.errstate(all='ignore'):
            return [fn(np.nan, x) if side_missing == 'a' else fn(x, np.nan)]
    except Exception:
        return []


# ---------------------------------------------------------------------------------------------
# building operands and references

def _frame(side, plan_kinds, rows, cols, layout, lp, cp):
    arrays = [col_array(side, plan_kinds[c], rows, c) for c in cols]
    lay = tuple(tuple(x) for x in layout) if layout is not None else tuple((1, True) for _ in cols)
    f = frame_from(arrays, lay, index=mk_index(lp, rows), column_labels=mk_index(cp, cols), name=side)
    cells = {(r, c): arrays[j][i] for j, c in enumerate(cols) for i, r in enumerate(rows)}
    return f, cells, arrays


def _series(side, kind, positions, lp, axis):
    import static_frame as sf
    arr = np.empty(len(positions), dtype=_DT[kind])
    for i, q in enumerate(positions):
        arr[i] = val(side, kind, q, 0) if axis == 'r' else val(side, kind, 0, q)
    s = sf.Series(arr, index=mk_index(lp, positions), name=side)
    return s, {q: arr[i] for i, q in enumerate(positions)}, arr


def _result_cells(r, lp, cp):
    """(row labels, column labels, {(rl, cl): value}, per-column dtypes) of a Frame result; Series: column label None"""
    import static_frame as sf
    if isinstance(r, sf.Frame):
        rl, cl = labels_of(r.index), labels_of(r.columns)
        cols = list(r.iter_array(axis=0))
        cells = {}
        for j, c in enumerate(cl):
            col = cols[j]
            for i, row in enumerate(rl):
                cells[(row, c)] = col[i]
        return rl, cl, cells, [a.dtype for a in cols], r.shape
    if isinstance(r, sf.Series):
        rl = labels_of(r.index)
        v = r.values
        return rl, [None], {(row, None): v[i] for i, row in enumerate(rl)}, [v.dtype], (len(v), 1)
    raise TypeError(f'result is {type(r).__name__}')


_LAB_CACHE = {}


def _lab(pool, q):
    """canonical python label for universe position q (as labels_of reports it)"""
    k = (pool, q)
    if k not in _LAB_CACHE:
        _LAB_CACHE[k] = labels_of(mk_index(pool, [q]))[0]
    return _LAB_CACHE[k]


def build_case(p):
    """returns dict(left, right, rows_a, rows_b, cols_a, cols_b, get_a, get_b, align_rows, align_cols, exp_rows0, exp_cols0, direct)"""
    kind, plan = p['kind'], PLANS[p['plan']]
    lp, cp = p['lp'], p.get('cp', 'str')
    ra, rb, ca, cb = p['ra'], p['rb'], p['ca'], p['cb']
    R = lambda q: _lab(lp, q)
    C = lambda q: _lab(cp, q)
    d = dict(lp=lp, cp=cp)
    if kind == 'SS':
        a, ca_, arr_a = _series('a', plan['a'][0], ra, lp, 'r')
        b, cb_, arr_b = _series('b', plan['b'][0], rb, lp, 'r')
        d.update(left=a, right=b, A={(R(q), None): v for q, v in ca_.items()}, B={(R(q), None): v for q, v in cb_.items()},
                 rows_a=[R(q) for q in ra], rows_b=[R(q) for q in rb], cols_a=[None], cols_b=[None], arrays_a=[arr_a], arrays_b=[arr_b], bcast=None)
    elif kind == 'FF':
        a, cells_a, arrs_a = _frame('a', plan['a'], ra, ca, p.get('la'), lp, cp)
        b, cells_b, arrs_b = _frame('b', plan['b'], rb, cb, p.get('lb'), lp, cp)
        d.update(left=a, right=b, A={(R(r), C(c)): v for (r, c), v in cells_a.items()}, B={(R(r), C(c)): v for (r, c), v in cells_b.items()},
                 rows_a=[R(q) for q in ra], rows_b=[R(q) for q in rb], cols_a=[C(q) for q in ca], cols_b=[C(q) for q in cb],
                 arrays_a=arrs_a, arrays_b=arrs_b, bcast=None)
    elif kind in ('FS0', 'FS1'):
        a, cells_a, arrs_a = _frame('a', plan['a'], ra, ca, p.get('la'), lp, cp)
        if kind == 'FS0':       # series index is aligned with the frame's columns
            s, sc, arr_s = _series('b', plan['s'], cb, cp, 'c')
            d.update(left=a, right=s, rows_b=None, cols_b=[C(q) for q in cb], B={C(q): v for q, v in sc.items()}, bcast='cols')
        else:                   # via_T: series index is aligned with the frame's index
            s, sc, arr_s = _series('b', plan['s'], rb, lp, 'r')
            d.update(left=a.via_T, right=s, rows_b=[R(q) for q in rb], cols_b=None, B={R(q): v for q, v in sc.items()}, bcast='rows')
        d.update(A={(R(r), C(c)): v for (r, c), v in cells_a.items()}, rows_a=[R(q) for q in ra], cols_a=[C(q) for q in ca],
                 arrays_a=arrs_a, arrays_b=[arr_s])
    else:
        raise ValueError(kind)
    return d


def reference(p, d, opname):
    """expected rows / cols (as sets, plus exact order where the property fixes it) and per-cell candidate lists"""
    cmp_op = opname in CMP
    rows_a, cols_a = d['rows_a'], d['cols_a']
    rows_b, cols_b = d['rows_b'], d['cols_b']
    A, B, bc = d['A'], d['B'], d['bcast']
    exp_rows = list(rows_a) + [r for r in (rows_b or []) if r not in set(rows_a)]
    exp_cols = list(cols_a) + [c for c in (cols_b or []) if c not in set(cols_a)]
    order_rows = rows_a if (rows_b is None or rows_b == rows_a) else None     # exact order required
    order_cols = cols_a if (cols_b is None or cols_b == cols_a) else None
    cells, shared, np_unsupported, fill_raises = {}, 0, False, False
    for r in exp_rows:
        for c in exp_cols:
            x = A.get((r, c), _MISS)
            if bc is None:
                y = B.get((r, c), _MISS)
            elif bc == 'cols':
                y = B.get(c, _MISS)
            else:
                y = B.get(r, _MISS)
            if x is not _MISS and y is not _MISS:
                cs, np_ok = candidates(opname, x, y)
                shared += 1
                if not np_ok:
                    np_unsupported = True
                cells[(r, c)] = ('val', cs, (x, y))
            else:
                extra = []
                if x is _MISS and y is _MISS:
                    if cmp_op:
                        extra = _fill_candidates(opname, np.nan, 'a')
                else:
                    known, side = (y, 'a') if x is _MISS else (x, 'b')
                    fc = _fill_candidates(opname, known, side)
                    if not fc:
                        fill_raises = True
                    if cmp_op:
                        extra = fc
                cells[(r, c)] = ('missing', extra, (None if x is _MISS else x, None if y is _MISS else y))
    return dict(rows=exp_rows, cols=exp_cols, order_rows=order_rows, order_cols=order_cols, cells=cells, shared=shared,
                np_unsupported=np_unsupported, fill_raises=fill_raises,
                aligned=(order_rows is not None and order_cols is not None))


_MISS = object()


def expected_dtypes(d, opname):
    """dtype NumPy gives per column when no fill is needed (only called when every aligned axis has equal labels)"""
    fn = cell_fn(opname)
    out = []
    with warnings.catch_warnings():
        warnings.simplefilter('ignore')
        with np.errstate(all='ignore'):
            for j, ca in enumerate(d['arrays_a']):
                try:
                    if d['bcast'] is None:
                        other = d['arrays_b'][j]
                    elif d['bcast'] == 'cols':
                        other = d['arrays_b'][0][j]
                    else:
                        other = d['arrays_b'][0]
                    out.append(np.asarray(fn(ca, other)).dtype)
                except Exception:
                    out.append(None)
    return out


def check_binop_case(p, strict=False):
    """run one `left op right`; returns (failures [(key, what)], mapping or None, nontrivial)"""
    opname = p['op']
    kind = p['kind']
    area = f'{PID}:binop:{kind}'
    try:
        d = build_case(p)
    except Exception as e:
        if type(e).__name__ == 'ErrorInitIndex' and str(p['lp']).startswith('ih'):
            return None, None, False        # precondition: this label order is not a valid tree form
        raise
    ref = reference(p, d, opname)
    empty = '' if all(len(x) for x in _aligned_axes(p)) else ':empty-operand'
    try:
        with warnings.catch_warnings():
            warnings.simplefilter('ignore')
            with np.errstate(all='ignore'):
                r = apply_op(opname, d['left'], d['right'])
    except Exception as e:
        if ref['np_unsupported'] or dtype_unsupported(d, opname):
            return [], None, False           # NumPy cannot combine these dtypes: outside the quantifier
        if not ref['aligned'] and (ref['fill_raises'] or fill_unsupported(d, opname)):
            # the operator is undefined between a value and the NaN fill (bool & NaN, str + NaN): arguable, failed only when strict
            if strict:
                return [(f'{area}:unaligned-{_opclass(opname)}-raises', f'{_desc(p)}: raises {e!r} although NumPy can combine the operand dtypes on the shared labels')], ('raises',), True
            return [], None, False
        if empty:
            return [(_empty_key(p, e), f'{_desc(p)}: raises {e!r}')], ('raises',), True
        return [(f'{area}:{_opclass(opname)}:raises-{type(e).__name__}', f'{_desc(p)}: raises {e!r}')], ('raises',), True
    try:
        rl, cl, cells, dts, shape = _result_cells(r, d['lp'], d['cp'])
    except TypeError as e:
        return [(f'{area}:result-type', f'{_desc(p)}: {e}')], None, True
    fails = []
    # labels
    for axis, got, exp, order in (('rows', rl, ref['rows'], ref['order_rows']), ('cols', cl, ref['cols'], ref['order_cols'])):
        if len(got) != len(set(got)):
            fails.append((f'{area}:{axis}-duplicated', f'{_desc(p)}: result {axis} {got} repeat a label'))
        if set(got) != set(exp):
            fails.append((f'{area}:{axis}-not-union', f'{_desc(p)}: result {axis} {got}, union is {exp}'))
        elif order is not None and got != order:
            fails.append((f'{area}:{axis}-order-not-kept', f'{_desc(p)}: equal/unaligned-axis labels {order} came back as {got}'))
    if shape != (len(rl), len(cl)):
        fails.append((f'{area}:shape', f'{_desc(p)}: shape {shape} vs labels {len(rl)}x{len(cl)}'))
    # cells
    bad_val = bad_missing = None
    for key, (tag, cands, src) in ref['cells'].items():
        if key not in cells:
            continue
        real = cells[key]
        if tag == 'val':
            if cands and not any(loose_eq(real, c) for c in cands):
                bad_val = bad_val or (key, real, cands, src)
        else:
            if not _is_missing(real):
                if strict or not any(loose_eq(real, c) for c in cands):
                    bad_missing = bad_missing or (key, real, src)
    if bad_val:
        key, real, cands, src = bad_val
        fails.append((f'{area}:{_opclass(opname)}:wrong-value', f'{_desc(p)}: cell {key} holds {real!r}, op{src} is {cands[0]!r}'))
    if bad_missing:
        key, real, src = bad_missing
        fails.append((f'{area}:{_opclass(opname)}:value-where-label-missing', f'{_desc(p)}: cell {key} (operands {src}) holds {real!r}, expected the missing-value marker'))
    # dtype kept when nothing had to be filled
    if ref['aligned'] and not fails and (strict or p.get('la') == p.get('lb') or kind != 'FF'):
        # (for two Frames in different block layouts the package falls back to whole-frame .values, which widens
        #  the per-column dtype; values stay equal -- arguable, only failed when strict)
        exp_dt = expected_dtypes(d, opname)
        if len(cl) == len(exp_dt):
            for j, (got_dt, e_dt) in enumerate(zip(dts, exp_dt)):
                if e_dt is not None and e_dt.kind in 'biuf' and got_dt != e_dt:
                    fails.append((f'{area}:{_opclass(opname)}:dtype-changed-on-equal-index',
                                  f'{_desc(p)}: column {cl[j]} has dtype {got_dt}, NumPy gives {e_dt} for the un-filled operands'))
                    break
    def both_bool(k):
        src = ref['cells'].get(k, (None, None, (None, None)))[2]
        return all(isinstance(z, (bool, np.bool_)) for z in src)
    # bool (+|*) bool is True under NumPy and 2 / 1 under Python (object columns after a fill or a whole-frame .values fallback):
    # compared by truth value unless strict
    lax = (not strict) and opname in ARITH + REFL
    mapping = tuple(sorted(((repr(k), _canon(bool(v)) if (lax and both_bool(k) and not _is_missing(v)) else _canon(v)) for k, v in cells.items())))
    return fails, mapping, ref['shared'] > 0 or len(cells) > 0


def _empty_key(p, e):
    """defect class of an exception met with an operand that is empty on some axis"""
    k = p['kind']
    if k != 'SS':
        cols = set(p['ca']) | set(p['cb'] if k in ('FF', 'FS0') else ())
        if not cols:
            return f'{PID}:binop:zero-column-frame:raises'     # any operator on a Frame with rows but no columns
    if k == 'FF' and any(bool(r) != bool(c) for r, c in ((p['ra'], p['ca']), (p['rb'], p['cb']))):
        return f'{PID}:binop:FF:operand-empty-on-one-axis:raises'      # re-indexing on both axes with one axis sharing no label
    return f'{PID}:binop:{k}:empty-operand:raises-{type(e).__name__}'


def _aligned_axes(p):
    k = p['kind']
    if k == 'SS':
        return [p['ra'], p['rb']]
    if k == 'FF':
        return [p['ra'], p['rb'], p['ca'], p['cb']]
    if k == 'FS0':
        return [p['ca'], p['cb'], p['ra']]
    return [p['ra'], p['rb'], p['ca']]


def dtype_unsupported(d, opname):
    """True when NumPy refuses the operator for the dtypes of some pair of columns that share a label (decided on
    zero-length slices, so it also works for operands without rows)"""
    fn = cell_fn(opname)
    A, B = d['arrays_a'], d['arrays_b']
    if d['bcast'] is None and d['cols_a'] != [None]:
        pairs = [(A[i], B[d['cols_b'].index(c)]) for i, c in enumerate(d['cols_a']) if c in d['cols_b']]
    elif d['bcast'] is None:
        pairs = [(A[0], B[0])]
    else:
        pairs = [(a, B[0]) for a in A]
    with warnings.catch_warnings():
        warnings.simplefilter('ignore')
        for x, y in pairs:
            try:
                fn(x[:0], y[:0])
            except Exception:
                return True
    return False


def fill_unsupported(d, opname):
    """True when NumPy refuses the operator between the float64 NaN fill and the dtype of some operand column
    (decided on zero-length arrays: also works for operands without rows)"""
    fn = cell_fn(opname)
    nanfill = np.empty(0, dtype=np.float64)
    with warnings.catch_warnings():
        warnings.simplefilter('ignore')
        for z in list(d['arrays_a']) + list(d['arrays_b']):
            for args in ((nanfill, z[:0]), (z[:0], nanfill)):
                try:
                    fn(*args)
                except Exception:
                    return True
    return False


def _canon(v):
    if _is_missing(v):
        return 'MISSING'
    if isinstance(v, (bool, np.bool_, int, float, np.integer, np.floating)):
        return ('n', round(float(v), 9))      # True == 1: bool arithmetic on filled (object) columns follows Python, on bool columns NumPy
    return ('o', repr(_pyval(v)))


def _opclass(opname):
    return 'arith' if opname in ARITH else 'cmp' if opname in CMP else 'logic' if opname in LOGIC else 'reflected'


def _desc(p):
    s = f"{p['kind']} {p['op']} plan={p['plan']} labels={p['lp']} rows {p['ra']}|{p['rb']} cols {p['ca']}|{p['cb']}"
    if p.get('la') is not None or p.get('lb') is not None:
        s += f" layouts {p.get('la')}|{p.get('lb')}"
    return s


# ---------------------------------------------------------------------------------------------
# scalars and unlabelled arrays

def check_plain_case(p):
    """container op scalar / scalar op container / container op ndarray: labels untouched, values positional.
    p: dict(kind in Sk, Fk, SA, FA0, FA1, FA2; plan, lp, ra, ca, la, op)"""
    import static_frame as sf
    kind, plan, opname = p['kind'], PLANS[p['plan']], p['op']
    area = f'{PID}:binop:{kind}'
    lp, cp = p['lp'], 'str'
    ra, ca = p['ra'], p['ca']
    fn = cell_fn(opname)
    try:
        if kind in ('Sk', 'SA'):
            left, cells_a, arr = _series('a', plan['a'][0], ra, lp, 'r')
            arrays = [arr]
            rows, cols = labels_of(left.index), [None]
        else:
            left, _, arrays = _frame('a', plan['a'], ra, ca, p.get('la'), lp, cp)
            rows, cols = labels_of(left.index), labels_of(left.columns)
    except Exception as e:
        if type(e).__name__ == 'ErrorInitIndex' and str(lp).startswith('ih'):
            return None, False
        raise
    nr, nc = len(ra), len(arrays)
    skind = plan['s']
    if kind in ('Sk', 'Fk'):
        other = SCALARS[skind]
        get = lambda i, j: other
        right = other
    elif kind == 'SA':
        right = np.array([val('b', skind, q, 1) for q in ra], dtype=_DT[skind])
        get = lambda i, j: right[i]
    elif kind == 'FA0':     # 1-D array applied to every row (one entry per column)
        right = np.array([val('b', skind, 1, q) for q in ca], dtype=_DT[skind])
        get = lambda i, j: right[j]
    elif kind == 'FA1':     # via_T: 1-D array applied to every column (one entry per row)
        right = np.array([val('b', skind, q, 1) for q in ra], dtype=_DT[skind])
        get = lambda i, j: right[i]
        left = left.via_T
    elif kind == 'FA2':
        right = np.empty((nr, nc), dtype=_DT[skind])
        for i, r in enumerate(ra):
            for j, c in enumerate(ca):
                right[i, j] = val('b', skind, r, c)
        get = lambda i, j: right[i, j]
    else:
        raise ValueError(kind)
    exp, np_unsupported = {}, False
    for j in range(nc):
        for i in range(nr):
            cs, ok = candidates(opname, arrays[j][i], get(i, j))
            np_unsupported = np_unsupported or not ok
            exp[(i, j)] = (cs, (arrays[j][i], get(i, j)))
    try:
        with warnings.catch_warnings():
            warnings.simplefilter('ignore')
            with np.errstate(all='ignore'):
                r = apply_op(opname, left, right)
    except Exception as e:
        if np_unsupported:
            return [], False
        if nr == 0 or nc == 0:
            return [(_empty_key(p, e), f'{_desc(p)}: raises {e!r}')], True
        return [(f'{area}:{_opclass(opname)}:raises-{type(e).__name__}', f'{_desc(p)}: raises {e!r}')], True
    try:
        rl, cl, cells, dts, shape = _result_cells(r, lp, cp)
    except TypeError as e:
        return [(f'{area}:result-type', f'{_desc(p)}: {e}')], True
    fails = []
    if rl != rows or cl != cols:
        fails.append((f'{area}:labels-changed', f'{_desc(p)}: labels {rows}x{cols} came back as {rl}x{cl}'))
        return fails, True
    for (i, j), (cs, src) in exp.items():
        real = cells[(rows[i], cols[j])]
        if cs and not any(loose_eq(real, c) for c in cs):
            fails.append((f'{area}:{_opclass(opname)}:wrong-value', f'{_desc(p)}: cell ({rows[i]},{cols[j]}) holds {real!r}, op{src} is {cs[0]!r}'))
            break
    return fails, nr * nc > 0


# ---------------------------------------------------------------------------------------------
# enumeration

# label-set relations on one axis: (positions of a, positions of b) in canonical order
REL_QUICK = {
    'equal': ((0, 1, 2), (0, 1, 2)),
    'overlap': ((0, 1, 2), (1, 2, 3)),
    'disjoint': ((0, 1), (2, 3)),
    'superset': ((0, 1, 2), (1,)),
    'subset': ((2,), (0, 1, 2)),
    'emptyL': ((), (0, 1)),
    'emptyR': ((0, 1), ()),
    'emptyLR': ((), ()),
}
REL_THOROUGH = dict(REL_QUICK, equal4=((0, 1, 2, 3), (0, 1, 2, 3)), overlap4=((0, 1, 2, 3), (3, 2, 1)), single=((1,), (1,)))


def _perms(t, tier):
    """orderings of a label tuple: identity first"""
    t = tuple(t)
    if tier != 'quick':
        allp = list(dict.fromkeys(itertools.permutations(t)))
        return allp if len(allp) <= 6 else allp[::3]
    out = [t, t[::-1], t[1:] + t[:1]]
    return list(dict.fromkeys(out))


def _arr_pairs(a, b, tier):
    """(ordering of a, ordering of b): quick = every ordering of a with b canonical + a canonical with every ordering of b + both reversed"""
    pa, pb = _perms(a, tier), _perms(b, tier)
    if tier != 'quick':
        return [(x, y) for x in pa for y in pb]
    out = [(x, pb[0]) for x in pa] + [(pa[0], y) for y in pb[1:]] + [(pa[-1], pb[-1]), (pa[1 % len(pa)], pb[1 % len(pb)])]
    return list(dict.fromkeys(out))


def _layouts_for(plan_kinds, cols, tier, full):
    arrays = [np.empty(0, dtype=_DT[plan_kinds[c]]) for c in cols]
    lays = [tuple(l) for l in layouts_dtype_safe(arrays)]
    if not lays:
        return [()]
    if full:
        return lays
    # the two extreme layouts: every column its own 1-D block / maximal consolidation (first and last enumerated differ in that way)
    all1d = tuple((1, True) for _ in cols)
    widest = max(lays, key=lambda l: (-(len(l)), sum(w for w, _ in l if w > 1)))
    return list(dict.fromkeys([all1d, widest]))


def _binop_cases(tier):
    rel = REL_QUICK if tier == 'quick' else REL_THOROUGH
    lpools = ('str', 'int', 'ih2', 'date', 'obj')
    # Series x Series
    for lp in lpools:
        for plan in PLANS:
            for rn, (a, b) in rel.items():
                yield dict(kind='SS', lp=lp, plan=plan, rel_r=rn, rel_c=None, a=a, b=b)
    # Frame x Frame: row relation x column relation
    for lp in ('str', 'ih2') if tier == 'quick' else ('str', 'ih2', 'obj'):
        for plan in PLANS:
            for rn, (ra, rb) in rel.items():
                for cn, (ca, cb) in rel.items():
                    if tier != 'quick' and cn in ('equal4', 'overlap4', 'single') and rn not in ('equal', 'overlap', 'equal4'):
                        continue
                    if tier == 'quick' and cn in ('superset', 'emptyR', 'emptyLR'):
                        continue
                    if tier == 'quick' and lp != 'str' and (rn not in ('equal', 'overlap', 'subset') or cn not in ('equal', 'overlap') or plan in ('str', 'objeq', 'ibf')):
                        continue
                    yield dict(kind='FF', lp=lp, plan=plan, rel_r=rn, rel_c=cn, ra=ra, rb=rb, ca=ca, cb=cb)
    # Frame x Series on both axes
    for kind in ('FS0', 'FS1'):
        for lp in ('str', 'ih2') if tier == 'quick' else lpools:
            for plan in PLANS:
                for rn, (a, b) in rel.items():
                    yield dict(kind=kind, lp=lp, plan=plan, rel_r=rn, rel_c=None, a=a, b=b)
    # scalars and arrays
    for kind in ('Sk', 'Fk', 'SA', 'FA0', 'FA1', 'FA2'):
        for lp in ('str', 'ih2'):
            if tier == 'quick' and lp == 'ih2' and kind in ('FA0', 'FA1', 'FA2'):
                continue
            for plan in PLANS:
                yield dict(kind=kind, lp=lp, plan=plan, rel_r=None, rel_c=None)


LAYOUT_OPS = ('add', 'lt', 'and', 'rsub')     # operators run under every layout; all others under the two extreme layouts


def _expand(case, tier):
    """all concrete parameter dicts of one outer case, grouped: yields (group key, [p, ...]); the members of one group are the
    same label->value associations under different label orders / layouts, so their result mappings must coincide"""
    kind, plan = case['kind'], case['plan']
    ops = PLANS[plan]['ops']
    lp = case['lp']
    if kind == 'SS':
        for opname in ops:
            yield (opname,), [dict(area='binop', kind='SS', lp=lp, plan=plan, ra=list(x), rb=list(y), ca=[0], cb=[0], op=opname)
                              for x, y in _arr_pairs(case['a'], case['b'], tier)]
    elif kind == 'FF':
        ka, kb = PLANS[plan]['a'], PLANS[plan]['b']
        for opname in ops:
            full = opname in LAYOUT_OPS
            group = []
            rows = _arr_pairs(case['ra'], case['rb'], tier)
            cols = _arr_pairs(case['ca'], case['cb'], tier)
            # label orders under the default layout: row orders x canonical columns, canonical rows x column orders, both permuted
            # (thorough differs by `rows` / `cols` holding every ordering of each side instead of three)
            orders = [(r, cols[0]) for r in rows] + [(rows[0], c) for c in cols[1:]] + [(rows[-1], cols[-1]), (rows[len(rows) // 2], cols[len(cols) // 2])]
            for (x, y), (u, v) in dict.fromkeys(orders):
                group.append(dict(area='binop', kind='FF', lp=lp, plan=plan, ra=list(x), rb=list(y), ca=list(u), cb=list(v), op=opname, la=None, lb=None))
            # layouts: canonical label order (thorough: + one permuted order), every layout of a with default b and vice versa
            for (x, y), (u, v) in ((rows[0], cols[0]),) if tier == 'quick' else ((rows[0], cols[0]), (rows[-1], cols[-1])):
                la_all = _layouts_for(ka, u, tier, full)
                lb_all = _layouts_for(kb, v, tier, full)
                pairs = [(l, lb_all[0]) for l in la_all] + [(la_all[0], l) for l in lb_all[1:]] + [(la_all[-1], lb_all[-1])]
                if tier != 'quick' and full:
                    pairs = [(l, m) for l in la_all for m in lb_all]
                for la, lb in dict.fromkeys(pairs):
                    group.append(dict(area='binop', kind='FF', lp=lp, plan=plan, ra=list(x), rb=list(y), ca=list(u), cb=list(v), op=opname,
                                      la=[list(t) for t in la], lb=[list(t) for t in lb]))
            yield (opname,), group
    elif kind in ('FS0', 'FS1'):
        ka = PLANS[plan]['a']
        for opname in ops:
            full = opname in LAYOUT_OPS
            # label sets of the axis that is NOT aligned (each with its orderings: same group = same association)
            other_sets = [[(0, 1, 2), (2, 0, 1)]] if tier == 'quick' else [[(0, 1, 2), (2, 0, 1), (1, 2, 0)], [(1, 0), (0, 1)], [()]]
            for oi, orders in enumerate(other_sets):
                group = []
                for k, o in enumerate(orders):
                    ap = _arr_pairs(case['a'], case['b'], tier)
                    for pi, (x, y) in enumerate(ap if k == 0 else ap[:3]):
                        ra, ca = (o, x) if kind == 'FS0' else (x, o)
                        lays = _layouts_for(ka, ca, tier, full and k == 0 and (tier == 'quick' or pi == 0))
                        for la in lays:
                            group.append(dict(area='binop', kind=kind, lp=lp, plan=plan, ra=list(ra), rb=list(y) if kind == 'FS1' else [], ca=list(ca),
                                              cb=list(y) if kind == 'FS0' else [], op=opname, la=[list(t) for t in la], lb=None))
                yield (opname, oi), group
    else:
        shapes = [((0, 1, 2), (0, 1, 2)), ((2, 0), (1, 3, 0, 2)), ((1,), (2,)), ((), (0, 1)), ((0, 1), ())]
        if kind in ('Sk', 'SA'):
            shapes = [((0, 1, 2), (0,)), ((3, 1, 0, 2), (0,)), ((), (0,)), ((2,), (0,))]
        for opname in ops:
            group = []
            for ra, ca in shapes:
                lays = [None] if kind in ('Sk', 'SA') else _layouts_for(PLANS[plan]['a'], ca, tier, True)
                for la in lays:
                    group.append(dict(area='plain', kind=kind, lp=lp, plan=plan, ra=list(ra), rb=[], ca=list(ca), cb=[], op=opname,
                                      la=[list(t) for t in la] if la is not None else None))
            yield (opname,), group


def run_binop(repo, task):
    tier = task.get('tier', 'quick')
    strict = bool(task.get('strict'))
    rep = Report('C06-binop', task,
                 rule='operand kinds {Series x Series, Frame x Frame, Frame x Series (columns), Frame.via_T x Series (index), container x scalar, '
                      'scalar x container, container x 1-D/2-D ndarray} x label-set relation per aligned axis {equal, overlap, disjoint, superset, subset, '
                      'empty left/right/both} x label orders (quick: identity/reversed/rotated per side; thorough: all permutations) x dtype plans '
                      '{int, int/float mix, bool, int/float/bool, str, object-eq} x operators {+ - * / // % **, < <= == != > >=, & | ^, '
                      'radd rsub rmul rtruediv rfloordiv} x block layouts (every dtype-safe layout for + < & rsub, the two extreme layouts otherwise); '
                      'non-trivial = result has >= 1 cell and NumPy can combine the dtypes',
                 bound='<= 4 labels per axis, <= 4x4 cells, label kinds {str, int, mixed object, date, hierarchy depth 2}, values int64/float64/bool/<U2/object')
    for case in rep.shard(_binop_cases(tier)):
        try:
            for gkey, group in _expand(case, tier):
                base = None
                for p in group:
                    if p['area'] == 'plain':
                        fails, nt = check_plain_case(p)
                        mapping = None
                        if fails is None:
                            continue
                    else:
                        fails, mapping, nt = check_binop_case(p, strict)
                        if fails is None:
                            continue
                    dk = (p['kind'], p['lp'], p['plan'], tuple(p['ra']), tuple(p['rb']), tuple(p['ca']), tuple(p['cb']), p['op'], repr(p.get('la')), repr(p.get('lb')))
                    rep.count(distinct_key=dk if nt else None, sample=p)
                    for key, what in fails:
                        rep.fail(key, what, dict(p, strict=strict) if strict else p)
                    if mapping is not None and not fails:
                        if base is None:
                            base = (p, mapping)
                        elif mapping != base[1]:
                            same_labels = (p['ra'], p['rb'], p['ca'], p['cb']) == (base[0]['ra'], base[0]['rb'], base[0]['ca'], base[0]['cb'])
                            k = 'layout-changes-result' if same_labels else 'permutation-changes-mapping'
                            rep.fail(f"{PID}:binop:{p['kind']}:{_opclass(p['op'])}:{k}",
                                     f'{_desc(p)} gives a different label->value mapping than {_desc(base[0])}: {_diff(mapping, base[1])}',
                                     dict(area='binop-pair', first=base[0], second=p))
        except Exception:
            rep.error(f'binop harness {case}')
    return rep.done()


def _diff(m1, m2):
    d1, d2 = dict(m1), dict(m2)
    for k in d1:
        if d1[k] != d2.get(k):
            return f'cell {k}: {d1[k]} vs {d2.get(k)}'
    return 'different cell sets'


# =============================================================================================
# reindex (the step both operands go through before the element-wise operator)

def check_reindex_case(p):
    """p: dict(kind in RF (Frame) / RS (Series), lp, plan, ra, ca (source), rb, cb (destination; None = axis not given), la, fill)
    reference: result labels == destination labels in order; cell = source cell where the source has the label(s), fill value elsewhere"""
    kind, plan = p['kind'], PLANS[p['plan']]
    lp, cp = p['lp'], 'str'
    ra, ca, rb, cb = p['ra'], p['ca'], p['rb'], p['cb']
    has_fill = 'fill' in p and p['fill'] is not None
    kw = dict(fill_value=p['fill']) if has_fill else {}
    try:
        if kind == 'RS':
            src, cells, _ = _series('a', plan['a'][0], ra, lp, 'r')
            A = {(_lab(lp, q), None): v for q, v in cells.items()}
            exp_rows, exp_cols = [_lab(lp, q) for q in rb], [None]
            args = dict(index=mk_index(lp, rb))
        else:
            src, cells, _ = _frame('a', plan['a'], ra, ca, p.get('la'), lp, cp)
            A = {(_lab(lp, r), _lab(cp, c)): v for (r, c), v in cells.items()}
            exp_rows = [_lab(lp, q) for q in (rb if rb is not None else ra)]
            exp_cols = [_lab(cp, q) for q in (cb if cb is not None else ca)]
            args = {}
            if rb is not None:
                args['index'] = mk_index(lp, rb)
            if cb is not None:
                args['columns'] = mk_index(cp, cb)
    except Exception as e:
        if type(e).__name__ == 'ErrorInitIndex' and str(lp).startswith('ih'):
            return None, False
        raise
    def common(src_pos, dst_pos):
        if dst_pos is None:
            return 'same'
        n = len(set(src_pos) & set(dst_pos))
        return 'none' if n == 0 else 'all' if n == len(dst_pos) else 'some'
    rel = (common(ra, rb), common(ca, cb) if kind == 'RF' else 'same')
    if kind == 'RF' and 'none' in rel and rel != ('none', 'none') and rb is not None and cb is not None:
        cls = 'one-axis-without-common-labels'
    else:
        cls = f'rows-{rel[0]}-cols-{rel[1]}'
    area = f'{PID}:reindex:{"Frame" if kind == "RF" else "Series"}:{cls}'
    one_axis = cls == 'one-axis-without-common-labels'
    desc = f'{kind}.reindex plan={p["plan"]} labels={lp} source rows {ra} cols {ca} -> rows {rb} cols {cb} layout {p.get("la")} fill {p.get("fill")!r}'
    try:
        with warnings.catch_warnings():
            warnings.simplefilter('ignore')
            r = src.reindex(**args, **kw)
    except Exception as e:
        return [(area if one_axis else f'{area}:raises', f'{desc}: raises {e!r}')], True
    rl, cl, got, dts, shape = _result_cells(r, lp, cp)
    fails = []
    if rl != exp_rows or cl != exp_cols:
        return [(f'{area}:labels', f'{desc}: labels {rl} x {cl}, requested {exp_rows} x {exp_cols}')], True
    for rlab in exp_rows:
        for clab in exp_cols:
            real = got[(rlab, clab)]
            if (rlab, clab) in A:
                if not loose_eq(real, A[(rlab, clab)]):
                    fails.append((f'{area}:wrong-value', f'{desc}: cell ({rlab},{clab}) holds {real!r}, source holds {A[(rlab, clab)]!r}'))
                    return fails, True
            else:
                ok = loose_eq(real, p['fill']) if has_fill else _is_missing(real)
                if not ok:
                    fails.append((area if one_axis else f'{area}:value-where-label-missing', f'{desc}: cell ({rlab},{clab}) is not in the source but holds {real!r}'))
                    return fails, True
    return fails, len(exp_rows) * len(exp_cols) > 0


def _reindex_cases(tier):
    rel = REL_QUICK if tier == 'quick' else REL_THOROUGH
    for lp in ('str', 'int', 'ih2', 'date', 'obj'):
        for plan in ('int', 'mix', 'bool', 'str', 'objeq'):
            for rn, (ra, rb) in rel.items():
                yield dict(kind='RS', lp=lp, plan=plan, ra=ra, rb=rb, ca=(0,), cb=None)
                if lp in ('obj', 'date') and tier == 'quick':
                    continue
                for cn, (ca, cb) in list(rel.items()) + [('absent', ((0, 1, 2), None))]:
                    yield dict(kind='RF', lp=lp, plan=plan, ra=ra, rb=rb, ca=ca, cb=cb)
                yield dict(kind='RF', lp=lp, plan=plan, ra=(0, 1, 2), rb=None, ca=ra, cb=rb)


def run_reindex(repo, task):
    tier = task.get('tier', 'quick')
    rep = Report('C06-reindex', task,
                 rule='Series.reindex(index) and Frame.reindex(index and/or columns) for every source/destination label-set relation per axis '
                      '{equal, overlap, disjoint, superset, subset, empty source/destination/both} x destination orders x fill value {default NaN, -1} '
                      'x dtype plans x every dtype-safe block layout; non-trivial = result has >= 1 cell',
                 bound='<= 4 labels per axis, label kinds {str, int, mixed object, date, hierarchy depth 2}, values int64/float64/bool/<U2/object')
    for case in rep.shard(_reindex_cases(tier)):
        try:
            ka = PLANS[case['plan']]['a']
            dst_rows = [None] if case['rb'] is None else _perms(case['rb'], tier)
            dst_cols = [None] if case['cb'] is None else _perms(case['cb'], tier)
            src_orders = [(case['ra'], case['ca']), (tuple(case['ra'])[::-1], tuple(case['ca'])[::-1])]
            for (ra, ca) in dict.fromkeys(src_orders):
                lays = [None] if case['kind'] == 'RS' else _layouts_for(ka, ca, tier, tier != 'quick' or (ra, ca) == src_orders[0])
                for li, la in enumerate(lays):
                    for rb in dst_rows:
                        for cb in dst_cols:
                            for fill in ((None, -1) if (tier != 'quick' or li == 0) else (None,)):
                                p = dict(area='reindex', kind=case['kind'], lp=case['lp'], plan=case['plan'], ra=list(ra), ca=list(ca),
                                         rb=None if rb is None else list(rb), cb=None if cb is None else list(cb),
                                         la=None if la is None else [list(t) for t in la], fill=fill)
                                fails, nt = check_reindex_case(p)
                                if fails is None:
                                    continue
                                rep.count(distinct_key=repr(sorted(p.items())) if nt else None, sample=p)
                                for key, what in fails:
                                    rep.fail(key, what, p)
        except Exception:
            rep.error(f'reindex harness {case}')
    return rep.done()


# =============================================================================================
# combined entry + replay

def run(repo, task):
    """all three sub-areas in one report (register either this or run_setops / run_binop / run_reindex separately)"""
    parts = [run_setops(repo, task), run_binop(repo, task), run_reindex(repo, task)]
    out = dict(parts[0])
    out['name'] = 'C06-setops+binop+reindex'
    out['evaluations'] = sum(p['evaluations'] for p in parts)
    out['distinct'] = sum(p['distinct'] for p in parts)
    out['rule'] = ' || '.join(p['rule'] for p in parts)
    out['bound'] = ' || '.join(p['bound'] for p in parts)
    out['samples'] = [x for p in parts for x in p['samples'][:1]]
    out['failures'] = [f for p in parts for f in p['failures']]
    out['wall_s'] = round(sum(p['wall_s'] for p in parts), 2)
    if any(p['status'] != 'ok' for p in parts):
        out['status'] = 'checker-fault'
        out['detail'] = '\n'.join(p.get('detail', '') for p in parts).strip()
    return out


def replay(repo, rp):
    area = rp.get('area')
    try:
        if area == 'set':
            fails, _ = check_set_case(rp)
        elif area == 'setmulti':
            fails, _ = check_set_multi(rp)
        elif area == 'binop':
            fails, _, _ = check_binop_case(rp, bool(rp.get('strict')))
        elif area == 'plain':
            fails, _ = check_plain_case(rp)
        elif area == 'reindex':
            fails, _ = check_reindex_case(rp)
        elif area == 'binop-pair':
            f1, m1, _ = check_binop_case(rp['first'])
            f2, m2, _ = check_binop_case(rp['second'])
            fails = (f1 or []) + (f2 or []) + ([('mapping', _diff(m1, m2))] if (m1 is not None and m2 is not None and m1 != m2) else [])
        else:
            return dict(outcome='pass', note=f'unknown replay area {area!r}')
    except Exception as e:
        return dict(outcome='fail', raised=repr(e))
    if fails is None:
        return dict(outcome='pass', note='precondition not met: operand cannot be constructed')
    return dict(outcome='fail' if fails else 'pass', failures=[dict(key=k, what=w) for k, w in fails])
