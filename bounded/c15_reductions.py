"""C15 bounded stand-in: axis reductions equal the independent per-column / per-row computation.

Contract evaluated at run time on the real package.  For a Frame F built from source column arrays under every dtype-safe
block layout, every reduction  op in {sum, prod, min, max, mean, median, std, var (ddof 0/1), all, any, cumsum, cumprod,
loc_min, loc_max, iloc_min, iloc_max},  axis in {0, 1},  skipna in {True, False}:

  labels     : the result is labelled by the other axis (cumulative ops keep both label sets and the shape);
  per-vector : result[label] equals op applied to the column (axis 0) / row (axis 1) taken as an independent 1-D vector,
               (a) with NumPy itself as the oracle on that vector (np.<op> on the non-missing cells when skipna, on all
                   cells otherwise; Python semantics for object / str vectors), where NumPy defines a value, and
               (b) with Series(vector).<op>(skipna) -- "the same function applied independently";
  missing    : with skipna the missing cells are ignored (follows from (a));  without skipna a vector holding a missing cell
               gives a missing result or the call raises -- never a plain number / bool;
  layouts    : value-equal results (or an exception in every layout) for all block layouts of the same columns;
  exceptions : if the frame call raises, at least one vector is one on which the per-vector computation is undefined,
               raises, or holds a missing cell without skipna.
Series reductions are checked against the same NumPy oracle.
Floating-point results are compared with rtol 1e-9 (summation order inside NumPy may differ between a 2-D and a 1-D call).
"""
from __future__ import annotations
import itertools
import warnings
import numpy as np
from .common import Report, layouts_dtype_safe, frame_from, _cell

PID = 'C15'
D = np.datetime64


class Rep(Report):
    """Report whose failures carry their own key in the replay data; `cap` bounds the number of distinct keys kept"""
    cap = 80

    def check(self, cond, key, what, replay=None):
        if cond:
            return True
        if key not in self.failures and len(self.failures) < self.cap:
            self.failures[key] = dict(key=key, what=what, replay=dict(replay or {}, key=key, task=self.name))
        return False


# ---------------------------------------------------------------------------------------------
# source columns

def col(kind, j, r):
    if kind == 'i':
        return (np.array([3, -2, 5], dtype=np.int64) + j)[:r]
    if kind == 'u':
        return (np.array([200, 100, 7], dtype=np.uint8) + np.uint8(j))[:r]
    if kind == 'f':
        return (np.array([1.5, -2.0, 0.25]) + j)[:r]
    if kind == 'F':
        return (np.array([1.5, np.nan, -2.0]) + j)[:r]
    if kind == 'G':
        return (np.array([np.nan, 0.5, 4.0]) - j)[:r]
    if kind == 'C':
        return (np.array([1.5 + 2j, -2.0 + 0.5j, 0.25 - 1j], dtype=np.complex128) + j)[:r]
    if kind == 'A':
        return np.array([np.nan, np.nan, np.nan])[:r]
    if kind == 'b':
        return np.array([True, False, True] if j % 2 == 0 else [False, True, True], dtype=bool)[:r]
    if kind == 'O':
        a = np.empty(3, dtype=object)
        a[:] = [2 + j, None, 3.5 + j]
        return a[:r]
    if kind == 'P':
        a = np.empty(3, dtype=object)
        a[:] = [2 + j, 7 - j, 3.5 + j]
        return a[:r]
    if kind == 'U':
        return np.array([f'b{j}', '', f'cc{j}'], dtype='<U3')[:r]
    if kind == 'M':
        return (np.array(['2020-01-02', '2020-01-01', '2021-05-05'], dtype='datetime64[D]') + np.timedelta64(j, 'D'))[:r]
    if kind == 'N':
        return (np.array(['2020-01-02', 'NaT', '2020-01-01'], dtype='datetime64[D]') + np.timedelta64(j, 'D'))[:r]
    if kind == 'T':
        return (np.array([3, 0, 5], dtype='timedelta64[D]') + np.timedelta64(j, 'D'))[:r]
    if kind == 'Z':
        return (np.array([3, 'NaT', 0], dtype='timedelta64[D]') + np.timedelta64(j, 'D'))[:r]
    raise ValueError(kind)


KINDS = ('i', 'f', 'F', 'b', 'O', 'U', 'P', 'M', 'N', 'A', 'u', 'G')


def frame_cases(tier):
    q = tier == 'quick'
    for kind in KINDS:
        for r in (0, 1, 2, 3):
            yield ((kind,), r)
    for r in (1, 2, 3):   # 0 columns
        yield ((), r)
    for kinds in itertools.product(KINDS, repeat=2):
        for r in (0, 1, 2, 3):
            yield (kinds, r)
    small = ('i', 'f', 'F', 'b', 'O', 'U') if q else ('i', 'f', 'F', 'b', 'O', 'U', 'N', 'u')
    for kinds in itertools.product(small, repeat=3):
        for r in ((2, 3) if q else (1, 2, 3)):
            yield (kinds, r)
    for kinds in (('i', 'i', 'f', 'F'), ('b', 'b', 'i', 'O'), ('F', 'F', 'F', 'F'), ('i', 'u', 'u', 'b'), ('U', 'U', 'P', 'P'), ('M', 'N', 'N', 'i'),
                  ('f', 'G', 'G', 'A'), ('O', 'O', 'F', 'i')):
        for r in ((3,) if q else (2, 3)):
            yield (kinds, r)
    # complex columns: only in all-numeric frames of >= 2 rows (complex next to non-numeric columns and the 0/1-row shapes add nothing but the
    # degenerate-shape and object-row classes already covered without complex numbers)
    for kinds in (('C',), ('C', 'C'), ('C', 'f'), ('f', 'C'), ('i', 'C'), ('C', 'F'), ('C', 'f', 'C'), ('C', 'f', 'C', 'i'), ('C', 'C', 'f', 'f')):
        for r in (2, 3):
            yield (kinds, r)


    # timedelta64 columns (with and without NaT): only the missing-cell clause is judged for them (oracle: UNSPEC otherwise)
    for kinds in (('T',), ('Z',), ('Z', 'Z'), ('T', 'Z'), ('Z', 'T')):
        for r in (2, 3):
            yield (kinds, r)


def series_cases(tier):
    for kind in KINDS + ('T', 'Z'):
        for j in (0, 1):
            for r in (0, 1, 2, 3):
                yield ('S', kind, j, r)


# ---------------------------------------------------------------------------------------------
# values

def is_missing(x):
    if x is None:
        return True
    if isinstance(x, (float, np.floating, complex, np.complexfloating)):
        return x != x
    if isinstance(x, (np.datetime64, np.timedelta64)):
        return bool(np.isnat(x))
    return False


def _numlike(x):
    if isinstance(x, np.timedelta64):        # (a subclass of np.signedinteger)
        return False
    return isinstance(x, (bool, np.bool_, int, float, complex, np.integer, np.floating, np.complexfloating)) and not is_missing(x)


def veq(a, b):
    """value equality: missing == missing; numbers (bools included) by value with rtol 1e-9; no type demands"""
    ma, mb = is_missing(a), is_missing(b)
    if ma or mb:
        return ma and mb
    if _numlike(a) and _numlike(b):
        fa, fb = complex(a), complex(b)
        return fa == fb or abs(fa - fb) <= 1e-9 * max(abs(fa), abs(fb))
    if _numlike(a) != _numlike(b):
        return False
    try:
        if isinstance(a, (np.datetime64,)) or isinstance(b, (np.datetime64,)):
            return np.datetime64(a, 'D') == np.datetime64(b, 'D')
        return bool(a == b)
    except Exception:
        return False


def vclass(v):
    """coarse class of a vector (names the defect class in failure keys)"""
    if len(v) == 0:
        return 'empty'
    miss = any(is_missing(x) for x in v)
    k = v.dtype.kind
    if k == 'c':
        base = 'complex'
    elif k in 'biuf':
        base = 'bool' if k == 'b' else 'num'
    elif k == 'M':
        base = 'date'
    elif k == 'm':
        base = 'duration'
    elif k == 'U':
        base = 'str'
    else:
        cells = [x for x in v if not is_missing(x)]
        if all(_numlike(x) for x in cells):
            base = 'obj-num'
        elif all(isinstance(x, str) for x in cells):
            base = 'obj-str'
        else:
            base = 'obj-mixed'
    return base + ('+missing' if miss else '')


def row_vector(cols, i):
    """row i as an independent 1-D array: the common dtype if all columns agree, a promoted numeric dtype for int/float
    mixes, otherwise object (cells kept as they are)"""
    dts = {c.dtype for c in cols}
    cells = [c[i] for c in cols]
    if len(dts) == 1:
        return np.array(cells, dtype=cols[0].dtype)
    if all(c.dtype.kind in 'iufc' for c in cols):
        return np.array(cells, dtype=np.result_type(*[c.dtype for c in cols]))
    a = np.empty(len(cells), dtype=object)
    for k, x in enumerate(cells):
        a[k] = x.item() if isinstance(x, np.generic) and not isinstance(x, (np.datetime64,)) else x
    return a


# ---------------------------------------------------------------------------------------------
# operations and per-vector oracles

UNDEF = ('undef',)        # NumPy / Python define no value for this op on this vector
UNSPEC = ('unspec',)      # defined, but the value for this degenerate input is not fixed by the property (empty after skipping, ...)
MISSING = ('missing',)    # a missing cell without skipna: the result must be missing or the call must raise
IDENT_OR_MISSING = ('ident-or-missing',)


def op_defined_for_kind(op, kind):
    if kind in 'biufO':
        return True
    if kind == 'U':
        return op in ('sum', 'min', 'max', 'all', 'any', 'iloc_min', 'iloc_max', 'loc_min', 'loc_max')
    if kind == 'M':
        return op in ('min', 'max', 'iloc_min', 'iloc_max', 'loc_min', 'loc_max')
    return False


def _rejectable(e):
    """may the call raise on a vector with this expectation?"""
    if e in (UNDEF, MISSING, UNSPEC):
        return True
    return e[0] == 'val' and isinstance(e[1], list) and any(x is MISSING for x in e[1])


def _nm(v):
    return [x for x in v if not is_missing(x)]


def _is_complex(x):
    return isinstance(x, (complex, np.complexfloating))


def _as_float(cells):
    if any(_is_complex(x) for x in cells):
        return np.array([complex(x) for x in cells], dtype=np.complex128)
    return np.array([float(x) for x in cells], dtype=np.float64)


def oracle(op, v, skipna, ddof=0):
    """-> ('val', x) | UNDEF | UNSPEC | MISSING   for the reducing operations"""
    k = v.dtype.kind
    has_missing = any(is_missing(x) for x in v)
    if has_missing and not skipna:
        return MISSING
    if k == 'm':
        return UNSPEC      # durations: the property's reference values are stated for numbers, strings and dates; only the missing-cell clause above is judged
    cells = _nm(v)
    numeric = k in 'biufc' or (k == 'O' and all(_numlike(x) for x in cells))
    allstr = k == 'U' or (k == 'O' and len(cells) > 0 and all(isinstance(x, str) for x in cells))
    if k == 'c' and op not in ('sum', 'prod', 'mean', 'median', 'all', 'any'):
        return UNSPEC      # complex numbers are not ordered and their spread is not pinned down by the property: only sum/prod/mean/median/all/any are judged
    if len(cells) == 0 and k not in 'biufc':
        return UNSPEC if k in 'OU' else (UNDEF if op not in ('min', 'max') else UNSPEC)   # nothing left to reduce in an untyped / non-numeric vector
    with warnings.catch_warnings():
        warnings.simplefilter('ignore')
        with np.errstate(all='ignore'):
            if op in ('all', 'any'):
                if k == 'M':
                    return UNDEF
                if numeric or allstr or len(cells) == 0:
                    fn = all if op == 'all' else any
                    return ('val', fn(bool(x) for x in cells))
                return UNDEF
            if numeric:
                if k in 'biu' and op in ('sum', 'prod', 'min', 'max'):
                    w = np.array(cells, dtype=v.dtype) if len(cells) else np.array([], dtype=v.dtype)
                else:
                    w = _as_float(cells)
                if op == 'sum':
                    return ('val', np.sum(w))
                if op == 'prod':
                    return ('val', np.prod(w))
                if len(w) == 0:
                    return UNSPEC
                if op in ('min', 'max'):
                    return ('val', getattr(np, op)(w))
                w = _as_float(cells)
                if op == 'mean':
                    return ('val', np.mean(w))
                if op == 'median':
                    return ('val', np.median(w))
                if op in ('std', 'var'):
                    if len(w) - ddof <= 0:
                        return UNSPEC
                    return ('val', getattr(np, op)(w, ddof=ddof))
                return UNDEF
            if allstr:
                if op == 'sum':
                    return ('val', ''.join(cells))
                if op in ('min', 'max'):
                    return ('val', (min if op == 'min' else max)(cells))
                return UNDEF
            if k == 'M':
                if op in ('min', 'max'):
                    if not cells:
                        return UNSPEC
                    return ('val', (min if op == 'min' else max)(cells))
                return UNDEF
            if len(cells) == 0 and op in ('min', 'max', 'mean', 'median', 'std', 'var'):
                return UNSPEC
            return UNDEF


def oracle_arg(op, v, skipna):
    """iloc_min / iloc_max: -> ('val', position) | MISSING | UNSPEC | UNDEF"""
    k = v.dtype.kind
    has_missing = any(is_missing(x) for x in v)
    cells = _nm(v)
    numeric = k in 'biuf' or (k == 'O' and all(_numlike(x) for x in cells))
    if k == 'c' or any(_is_complex(x) for x in cells):
        return UNSPEC
    if not numeric and k != 'M' and not (k == 'U' or all(isinstance(x, str) for x in cells)):
        return UNDEF
    if len(v) == 0:
        return UNSPEC
    if has_missing and not skipna:
        return MISSING
    if not cells:
        return UNSPEC
    best, pos = None, None
    for p, x in enumerate(v):
        if is_missing(x):
            continue
        if best is None or (x < best if op.endswith('min') else x > best):
            best, pos = x, p
    return ('val', pos)


def oracle_cum(op, v, skipna):
    """cumsum / cumprod: -> ('val', [cells]) with MISSING markers, or UNDEF"""
    k = v.dtype.kind
    cells = _nm(v)
    numeric = k in 'biufc' or (k == 'O' and all(_numlike(x) for x in cells))
    if not numeric:
        return UNDEF
    float = complex if (k == 'c' or any(_is_complex(x) for x in cells)) else __builtins__['float'] if isinstance(__builtins__, dict) else __builtins__.float
    out, acc, dead, seen = [], (0 if op == 'cumsum' else 1), False, False
    for x in v:
        if is_missing(x):
            if skipna:
                out.append(acc if seen else IDENT_OR_MISSING)   # nothing accumulated yet: the identity element or a missing cell
                continue
            dead = True
        if dead:
            out.append(MISSING)
            continue
        acc = acc + float(x) if op == 'cumsum' else acc * float(x)
        seen = True
        out.append(acc)
    return ('val', out)


REDUCERS = [('sum', {}), ('prod', {}), ('min', {}), ('max', {}), ('mean', {}), ('median', {}),
            ('std', {'ddof': 0}), ('std', {'ddof': 1}), ('var', {'ddof': 0}), ('var', {'ddof': 1}), ('all', {}), ('any', {})]
ARGS = ['iloc_min', 'iloc_max', 'loc_min', 'loc_max']
CUMS = ['cumsum', 'cumprod']
FAMILY = dict(sum='sum-prod', prod='sum-prod', min='min-max', max='min-max', mean='mean-median', median='mean-median', std='std-var', var='std-var',
              all='all-any', any='all-any', cumsum='cumulative', cumprod='cumulative', iloc_min='arg', iloc_max='arg', loc_min='arg', loc_max='arg')


def call(fn):
    """run the operation under test -> ('exc', class name, text) | ('ok', result)"""
    with warnings.catch_warnings():
        warnings.simplefilter('ignore')
        with np.errstate(all='ignore'):
            try:
                return ('ok', fn())
            except Exception as e:
                return ('exc', type(e).__name__, repr(e)[:160])


def _labs(index):
    out = []
    for v in index.values.tolist():
        out.append(tuple(v) if isinstance(v, list) else v)
    return out


def norm_result(res):
    """Series -> ('series', labels, cells);  Frame -> ('frame', index labels, column labels, per-column cells);  scalar -> ('scalar', x)"""
    import static_frame as sf
    if res[0] == 'exc':
        return res
    x = res[1]
    if isinstance(x, sf.Series):
        return ('series', _labs(x.index), list(x.values))
    if isinstance(x, sf.Frame):
        return ('frame', _labs(x.index), _labs(x.columns), [list(a) for a in x.iter_array(axis=0)])
    return ('scalar', x)


def results_equal(a, b):
    if a[0] != b[0]:
        return False
    if a[0] == 'exc':
        return True   # class compared separately
    if a[0] == 'series':
        return a[1] == b[1] and len(a[2]) == len(b[2]) and all(veq(x, y) for x, y in zip(a[2], b[2]))
    if a[0] == 'frame':
        return a[1] == b[1] and a[2] == b[2] and len(a[3]) == len(b[3]) and all(len(p) == len(q) and all(veq(x, y) for x, y in zip(p, q)) for p, q in zip(a[3], b[3]))
    return veq(a[1], b[1])


def series_vec(v, op, skipna, kw, labels=None):
    """the same function applied to the vector as an independent Series (labelled like the reduced axis)"""
    import static_frame as sf
    def fn():
        s = sf.Series(v, index=labels if labels is not None and len(labels) == len(v) else None)
        if op in ARGS:
            return getattr(s, op)(skipna=skipna)
        return getattr(s, op)(skipna=skipna, **kw)
    return call(fn)


# ---------------------------------------------------------------------------------------------

def _short(x):
    return repr(x)[:220]


def eval_frame_case(rep, case, tier='quick'):
    import static_frame as sf
    kinds, r = case
    kinds = tuple(kinds)
    m = len(kinds)
    cols = [col(k, j, r) for j, k in enumerate(kinds)]
    clabels = [f'c{j}' for j in range(m)]
    index = [f'r{i}' for i in range(r)]
    lays = list(layouts_dtype_safe(cols))
    if tier == 'quick' and len(lays) > 12:
        lays = lays[::2]
    frames = [(lay, frame_from(cols, lay, index=index, column_labels=clabels)) for lay in lays]
    vectors = {0: (clabels, cols), 1: (index, [row_vector(cols, i) for i in range(r)] if m else [np.array([], dtype=np.float64) for _ in range(r)])}
    base_rp = dict(case=[list(kinds), r])
    shape = 'zero-columns' if m == 0 else 'zero-rows' if r == 0 else 'one-row' if r == 1 else None
    ops = [(op, kw) for op, kw in REDUCERS] + [(op, {}) for op in ARGS] + [(op, {}) for op in CUMS]
    for (op, kw), axis, skipna in itertools.product(ops, (0, 1), (True, False)):
        # 0-sized shapes fail alike for every operation: key them by shape; one-row frames run the per-operation size_one_unity shortcut
        fam = shape if shape in ('zero-columns', 'zero-rows') else (f'one-row:{FAMILY[op]}' if shape else FAMILY[op])
        if 'C' in kinds:
            # frames holding a complex column are a class of their own: all-numeric columns (complex row dtype) or mixed with non-numeric columns (object row dtype)
            fam += '+complex-column:' + ('numeric-frame' if all(c.dtype.kind in 'biufc' for c in cols) else 'mixed-frame')
        if 'T' in kinds or 'Z' in kinds:
            fam += '+duration-column'      # frames holding a timedelta64 column: a class of their own
        tag = f'{op}' + (f'[ddof={kw["ddof"]}]' if 'ddof' in kw else '')
        rp = dict(base_rp, op=op, kw=kw, axis=axis, skipna=skipna)
        outs = []
        for lay, f in frames:
            if op in ARGS:
                res = call(lambda: getattr(f, op)(skipna=skipna, axis=axis))
            else:
                res = call(lambda: getattr(f, op)(axis=axis, skipna=skipna, **kw))
            outs.append((lay, norm_result(res)))
        labels, vecs = vectors[axis]
        other_labels = vectors[1 - axis][0]
        nontrivial = len(vecs) > 0 and any(len(v) for v in vecs)
        rep.count(distinct_key=(kinds, r, tag, axis, skipna) if nontrivial else None,
                  sample=dict(rp, layouts=len(frames), result=_short(outs[0][1])))
            # ---- layout independence
        first = outs[0]
        for lay, o in outs[1:]:
            if (o[0] == 'exc') != (first[1][0] == 'exc'):
                rep.fail(f'{PID}:layout:{fam}:axis{axis}:raises-in-one-layout-only', f'{tag}(axis={axis}, skipna={skipna}) on kinds {kinds} rows {r}: layout {first[0]} -> {_short(first[1])}; layout {lay} -> {_short(o)}',
                         dict(rp, layout_a=[list(x) for x in first[0]], layout_b=[list(x) for x in lay]))
            elif o[0] == 'exc':
                rep.check(o[1] == first[1][1], f'{PID}:layout:{fam}:axis{axis}:exception-class-differs', f'{tag}(axis={axis}, skipna={skipna}) on kinds {kinds} rows {r}: layout {first[0]} raises {first[1][1]}, layout {lay} raises {o[1]}',
                          dict(rp, layout_a=[list(x) for x in first[0]], layout_b=[list(x) for x in lay]))
            else:
                rep.check(results_equal(first[1], o), f'{PID}:layout:{fam}:axis{axis}:value-differs', f'{tag}(axis={axis}, skipna={skipna}) on kinds {kinds} rows {r}: layout {first[0]} -> {_short(first[1])}; layout {lay} -> {_short(o)}',
                          dict(rp, layout_a=[list(x) for x in first[0]], layout_b=[list(x) for x in lay]))
        # ---- per-vector oracles (computed once per case/op)
        if op in CUMS:
            exp = [oracle_cum(op, v, skipna) for v in vecs]
        elif op in ARGS:
            exp = [oracle_arg(op, v, skipna) for v in vecs]
            if op.startswith('loc_'):
                exp = [('val', other_labels[e[1]]) if e[0] == 'val' else e for e in exp]
        else:
            exp = [oracle(op, v, skipna, kw.get('ddof', 0)) for v in vecs]
        ser = [None] * len(vecs)       # Series(vector).op(skipna)                      -- "the same function, independently"
        ser_nm = [None] * len(vecs)    # Series(vector without its missing cells).op()  -- "missing cells are ignored"

        def ser_of(vi):
            if ser[vi] is None:
                ser[vi] = norm_result(series_vec(vecs[vi], op, skipna, kw, other_labels))
            return ser[vi]

        def ser_nm_of(vi):
            if ser_nm[vi] is None:
                v = vecs[vi]
                keep = [p for p, x in enumerate(v) if not is_missing(x)]
                w = v[keep] if len(keep) else v[:0]
                ser_nm[vi] = norm_result(series_vec(w, op, True, kw, [other_labels[p] for p in keep]))
            return ser_nm[vi]

        for lay, o in outs:
            rpl = dict(rp, layout=[list(x) for x in lay])
            if o[0] == 'exc':
                # a raise is justified by at least one vector on which the per-vector computation is undefined / raises / meets a missing cell
                justified = any(_rejectable(e) for e in exp)
                if not justified:
                    justified = any(ser_of(vi)[0] == 'exc' for vi in range(len(vecs)))
                if not justified and not vecs and axis == 1:
                    # nothing to reduce (0 rows): still fine to reject an operation that no column's type supports
                    justified = any(not op_defined_for_kind(op, c.dtype.kind) for c in cols)
                rep.check(justified, f'{PID}:frame:{fam}:axis{axis}:raises-where-every-vector-is-defined:{o[1]}',
                          f'{tag}(axis={axis}, skipna={skipna}) on kinds {kinds} rows {r} layout {lay} raises {o[2]} although the per-vector computation gives {[e[-1] for e in exp]!r:.200}', rpl)
                continue
            if op in CUMS:
                if o[0] != 'frame':
                    rep.fail(f'{PID}:frame:{fam}:not-a-frame', f'{tag} returns {_short(o)}', rpl)
                    continue
                rep.check(o[1] == index and o[2] == clabels, f'{PID}:frame:{fam}:axis{axis}:labels-or-shape-changed', f'{tag}(axis={axis}) on kinds {kinds} rows {r}: labels {o[1]} x {o[2]} != {index} x {clabels}', rpl)
                if o[1] != index or o[2] != clabels:
                    continue
                for vi, (lab, v, e) in enumerate(zip(labels, vecs, exp)):
                    got = o[3][vi] if axis == 0 else [o[3][j][vi] for j in range(m)]
                    _check_cum(rep, tag, fam, axis, skipna, kinds, r, lay, lab, v, e, got, rpl)
                continue
            if o[0] != 'series':
                rep.fail(f'{PID}:frame:{fam}:not-a-series', f'{tag} returns {_short(o)}', rpl)
                continue
            if not rep.check(o[1] == labels, f'{PID}:frame:{fam}:axis{axis}:result-labels', f'{tag}(axis={axis}) on kinds {kinds} rows {r} layout {lay}: result labelled {o[1]}, expected {labels}', rpl):
                continue
            for vi, (lab, v, e, got) in enumerate(zip(labels, vecs, exp, o[2])):
                vc = vclass(v)
                where = f'{tag}(axis={axis}, skipna={skipna}) on kinds {kinds} rows {r} layout {lay}: [{lab!r}] = {got!r}; vector {v.tolist()!r:.120} ({v.dtype})'
                if isinstance(got, np.ndarray):
                    rep.fail(f'{PID}:frame:{fam}:axis{axis}:result-cell-is-an-array', where, rpl)
                    continue
                if e is MISSING:
                    rep.check(is_missing(got), f'{PID}:frame:{fam}:axis{axis}:{vc}:missing-cell-treated-as-value-without-skipna', where + ' holds a missing cell and skipna=False', rpl)
                    continue
                if e[0] == 'val':
                    rep.check(veq(got, e[1]), f'{PID}:frame:{fam}:axis{axis}:{vc}:differs-from-per-vector', where + f'; NumPy on the independent vector gives {e[1]!r}', rpl)
                # (b) the same function on the vector as an independent Series
                sv = ser_of(vi)
                if sv[0] == 'scalar' and not isinstance(sv[1], np.ndarray) and e is not UNSPEC:
                    rep.check(veq(got, sv[1]), f'{PID}:frame:{fam}:axis{axis}:{vc}:differs-from-per-vector', where + f'; Series(vector).{tag}(skipna={skipna}) gives {sv[1]!r}', rpl)
                # (c) skipna ignores the missing cells: same result as on the vector without them
                if skipna and vc.endswith('+missing') and e[0] != 'val':
                    sn = ser_nm_of(vi)
                    if sn[0] == 'scalar' and e is not UNSPEC and not op.startswith('iloc'):
                        rep.check(veq(got, sn[1]), f'{PID}:frame:{fam}:axis{axis}:{vc}:skipna-missing-cells-not-ignored', where + f'; on the vector without its missing cells Series.{tag} gives {sn[1]!r}', rpl)


def _check_cum(rep, tag, fam, axis, skipna, kinds, r, lay, lab, v, e, got, rpl):
    vc = vclass(v)
    where = f'{tag}(axis={axis}, skipna={skipna}) on kinds {kinds} rows {r} layout {lay}: [{lab!r}] = {got!r}; vector {v.tolist()!r:.120} ({v.dtype})'
    if e is UNDEF:
        return
    if len(got) != len(e[1]):
        rep.fail(f'{PID}:frame:{fam}:axis{axis}:labels-or-shape-changed', where, rpl)
        return
    ident = 0 if 'cumsum' in tag else 1
    for g, x in zip(got, e[1]):
        if x is MISSING:
            rep.check(is_missing(g), f'{PID}:frame:{fam}:axis{axis}:{vc}:missing-cell-treated-as-value-without-skipna', where + ': a cell at/after a missing cell is not missing', rpl)
        elif x is IDENT_OR_MISSING:
            rep.check(is_missing(g) or veq(g, ident), f'{PID}:frame:{fam}:axis{axis}:{vc}:differs-from-per-vector', where + ': a leading missing cell is neither skipped (identity) nor missing', rpl)
        else:
            rep.check(veq(g, x), f'{PID}:frame:{fam}:axis{axis}:{vc}:differs-from-per-vector', where + f'; expected running values {e[1]!r:.120}', rpl)


def eval_series_case(rep, case, tier='quick'):
    import static_frame as sf
    _, kind, j, r = case
    v = col(kind, j, r)
    index = [f'r{i}' for i in range(r)]
    s = sf.Series(v, index=index)
    vc = vclass(v)
    ops = [(op, kw) for op, kw in REDUCERS] + [(op, {}) for op in ARGS] + [(op, {}) for op in CUMS]
    for (op, kw), skipna in itertools.product(ops, (True, False)):
        fam = FAMILY[op]
        tag = f'{op}' + (f'[ddof={kw["ddof"]}]' if 'ddof' in kw else '')
        rp = dict(case=list(case), op=op, kw=kw, skipna=skipna)
        if op in ARGS:
            res = norm_result(call(lambda: getattr(s, op)(skipna=skipna)))
            e = oracle_arg(op, v, skipna)
            if op.startswith('loc_') and e[0] == 'val':
                e = ('val', index[e[1]])
        elif op in CUMS:
            res = norm_result(call(lambda: getattr(s, op)(skipna=skipna)))
            e = oracle_cum(op, v, skipna)
        else:
            res = norm_result(call(lambda: getattr(s, op)(skipna=skipna, **kw)))
            e = oracle(op, v, skipna, kw.get('ddof', 0))
        rep.count(distinct_key=('S', kind, j, r, tag, skipna) if r else None, sample=dict(rp, result=_short(res)))
        where = f'Series({v.tolist()!r:.120}, dtype {v.dtype}).{tag}(skipna={skipna}) -> {_short(res)}'
        if res[0] == 'exc':
            rep.check(_rejectable(e), f'{PID}:series:{fam}:{vc}:raises-where-defined:{res[1]}', where + f'; NumPy on the vector gives {e!r:.120}', rp)
            continue
        if op in CUMS:
            if e is UNDEF:
                continue
            if res[0] != 'series' or res[1] != index:
                rep.fail(f'{PID}:series:{fam}:labels-or-shape-changed', where, rp)
                continue
            for g, x in zip(res[2], e[1]):
                if x is MISSING:
                    rep.check(is_missing(g), f'{PID}:series:{fam}:{vc}:missing-cell-treated-as-value-without-skipna', where, rp)
                elif x is IDENT_OR_MISSING:
                    rep.check(is_missing(g) or veq(g, 0 if op == 'cumsum' else 1), f'{PID}:series:{fam}:{vc}:differs-from-numpy', where, rp)
                else:
                    rep.check(veq(g, x), f'{PID}:series:{fam}:{vc}:differs-from-numpy', where + f'; expected {e[1]!r:.120}', rp)
            continue
        got = res[1] if res[0] == 'scalar' else res
        if e is MISSING:
            rep.check(res[0] == 'scalar' and is_missing(got), f'{PID}:series:{fam}:{vc}:missing-cell-treated-as-value-without-skipna', where, rp)
        elif e[0] == 'val':
            rep.check(res[0] == 'scalar' and veq(got, e[1]), f'{PID}:series:{fam}:{vc}:differs-from-numpy', where + f'; NumPy on the vector gives {e[1]!r}', rp)


# ---------------------------------------------------------------------------------------------

def _interleave(cases):
    cases = list(cases)
    n = len(cases)
    stride = 7919
    while n and np.gcd(stride, n) != 1:
        stride += 2
    return [cases[(i * stride) % n] for i in range(n)] if n else []


def _eval(rep, case, tier):
    if case[0] == 'S':
        eval_series_case(rep, case, tier)
    else:
        eval_frame_case(rep, case, tier)


RULE = ('every assignment of column kinds {int64, uint8, float64, float64+NaN (2 patterns), all-NaN, bool, object numbers, object numbers+None, str (with ""), '
        'datetime64[D], datetime64[D]+NaT} to 1 and 2 columns, of 6 (thorough 8) kinds to 3 columns, 8 selected 4-column mixes, and the 0-column frame; rows 0..3; '
        'x every dtype-safe block layout (1-D / 2-D blocks) x {sum, prod, min, max, mean, median, std, var (ddof 0, 1), all, any, iloc/loc_min/max, cumsum, cumprod} '
        'x axis {0, 1} x skipna {True, False};  Series: every kind x rows 0..3 x the same operations.  Non-trivial: at least one non-empty vector is reduced.')
BOUND = 'columns <= 4, rows <= 3, 12 column kinds, 18 operations, ddof in {0, 1}'


def _run(repo, task, which, name):
    tier = task.get('tier', 'quick')
    rep = Rep(name, task, rule=RULE + ' Added: complex128 columns in all-numeric frames of >= 2 rows (sum/prod/mean/median/all/any judged per vector; layout independence for every reduction).', bound=BOUND, budget_s=38 if tier == 'quick' else 580)
    cases = []
    if 'frame' in which:
        cases += list(frame_cases(tier))
    if 'series' in which:
        cases += list(series_cases(tier))
    for case in rep.shard(_interleave(cases)):
        try:
            _eval(rep, case, tier)
        except Exception:
            rep.error(f'harness fault in case {case!r}')
    return rep.done()


def run(repo, task):
    return _run(repo, task, ('frame', 'series'), 'C15-reductions')


def run_frame(repo, task):
    return _run(repo, task, ('frame',), 'C15-frame-reductions')


def run_series(repo, task):
    return _run(repo, task, ('series',), 'C15-series-reductions')


def replay(repo, rp):
    """re-run the recorded case (all operations of that case) and report whether the same failure key shows up again"""
    case = rp['case']
    case = tuple(case) if case and case[0] == 'S' else (tuple(case[0]), case[1])
    rep = Rep('C15-replay', dict(tier='thorough'), rule='', bound='')
    rep.cap = 10 ** 6
    try:
        _eval(rep, case, 'thorough')
    except Exception as e:
        return dict(outcome='pass', note=f'harness fault during replay: {e!r}')
    want = rp.get('key')
    # the replay report may be truncated at 25 keys: look for the wanted key first
    hit = (want in rep.failures) if want else bool(rep.failures)
    return dict(outcome='fail' if hit else 'pass', failing_keys=sorted(rep.failures)[:25], what=(rep.failures.get(want) or {}).get('what') if want else None)
