"""Per-function bounded stand-ins: enumerate a small input scope, run the REAL function under the
concrete side of its contract.  Labelled bounded; never counted as proved."""
from __future__ import annotations
import itertools
from pyvc.replay import run_contract
from pyvc.cspec import decode

ENUMS = {}


def enum(key, bound):
    def deco(f):
        ENUMS[key] = (f, bound)
        return f
    return deco


def _opt(rng):
    return [None] + list(rng)


@enum('slice_to_ascending_slice', 'all slices with start, stop in [-7,7] U {None}, step in [-4,4]\\{0} U {None}, size 0..6')
def _e_asc():
    for size in range(0, 7):
        for a in _opt(range(-7, 8)):
            for b in _opt(range(-7, 8)):
                for c in _opt([x for x in range(-4, 5) if x]):
                    yield dict(key=slice(a, b, c), size=size)


@enum('slice_to_inclusive_slice', 'start, stop in [-3,3] U {None}, step in {None,1,2,-1}, offset in [-2,2]')
def _e_incl():
    for a in _opt(range(-3, 4)):
        for b in _opt(range(-3, 4)):
            for c in (None, 1, 2, -1):
                for off in range(-2, 3):
                    yield dict(key=slice(a, b, c), offset=off)


@enum('TypeBlocks._cols_to_slice', 'every ascending/descending unit-step run inside [0, W), W <= 6')
def _e_cols():
    for W in range(1, 7):
        for lo in range(W):
            for hi in range(lo, W):
                run = list(range(lo, hi + 1))
                yield dict(indices=run, d=1, W=W)
                if len(run) > 1:
                    yield dict(indices=run[::-1], d=-1, W=W)
                else:
                    yield dict(indices=run, d=-1, W=W)


@enum('slices_from_targets', 'every strictly increasing anchor list inside an axis of length <= 5, both directions, limit 0..3, 3 slice predicates')
def _e_sft():
    for length in range(0, 6):
        for mask in range(1 << length):
            idx = [i for i in range(length) if mask >> i & 1]
            vals = [f'v{i}' for i in idx]
            for fwd in (True, False):
                for limit in range(0, 4):
                    for cond in (lambda s: True, lambda s: s.start % 2 == 0, lambda s: False):
                        yield dict(target_index=idx, target_values=vals, length=length, directional_forward=fwd, limit=limit, slice_condition=cond)


def run_for(key, contract, limit=None):
    if key not in ENUMS:
        return None
    gen, bound = ENUMS[key]
    n = 0
    nt = 0
    failures = []
    samples = []
    for inputs in gen():
        r = run_contract(contract, inputs)
        n += 1
        if r['outcome'] in ('pass', 'fail'):
            nt += 1
        if r['outcome'] == 'fail' and len(failures) < 5:
            failures.append(dict(inputs={k: repr(v) for k, v in inputs.items()}, failed=r.get('failed'), raw=_enc(inputs)))
        elif r['outcome'] == 'spec-error' and len(failures) < 5:
            failures.append(dict(inputs={k: repr(v) for k, v in inputs.items()}, failed=['spec-error: ' + str(r.get('detail'))], raw=_enc(inputs), spec_error=True))
        if len(samples) < 2 and r['outcome'] == 'pass':
            samples.append(dict(function=key, inputs={k: repr(v) for k, v in inputs.items()}, result=r.get('result')))
        if limit and n >= limit:
            break
    return dict(evaluations=n, distinct=nt, bound=bound, failures=failures, samples=samples)


def _enc(v):
    if isinstance(v, dict):
        return {k: _enc(x) for k, x in v.items()}
    if isinstance(v, slice):
        return ['slice', v.start, v.stop, v.step]
    if isinstance(v, tuple):
        return ['tuple', [_enc(x) for x in v]]
    if isinstance(v, list):
        return ['list', [_enc(x) for x in v]]
    return v


def replay(key, failure):
    from specs import load_all
    C, _ = load_all()
    inputs = {k: decode(v) for k, v in failure['raw'].items()}
    r = run_contract(C[key], inputs)
    r['inputs'] = {k: repr(v) for k, v in inputs.items()}
    return r


@enum('key_to_ascending_key', 'all slices with start, stop in [-7,7] U {None}, step in [-4,4]\\{0} U {None}, size 0..6')
def _e_k2a():
    yield from _e_asc()


@enum('Bus._store_reader', '0..5 labels x max_persist in {None,1..6} on a stub Store/ConfigMap recording the config used per label')
def _e_store_reader():
    from specs.t2_bus import concrete_inputs
    for n in range(0, 6):
        for mp in [None, 1, 2, 3, 4, 5, 6]:
            yield concrete_inputs(dict(labels=[f'L{i}' for i in range(n)], max_persist=mp))


@enum('axis_window_items', 'Series of 0..4 rows x size 1..3 x step 0..2 x start_shift, label_shift in [-2,2] x size_increment in [-1,1] x window_sized')
def _e_windows():
    from specs.t2_windows import concrete_inputs
    for n in range(0, 5):
        for size in (1, 2, 3):
            for step in (0, 1, 2):
                for ss in (-2, -1, 0, 1, 2):
                    for ls in (-2, -1, 0, 1, 2):
                        for inc in (-1, 0, 1):
                            for ws in (True, False):
                                yield concrete_inputs(dict(source={'_index': {'_len': n}}, size=size, axis=0, step=step, window_sized=ws,
                                                           label_shift=ls, start_shift=ss, size_increment=inc))


@enum('LocMap.map_slice_args', 'label slices over 4 held labels + 1 absent label (start, stop in labels U {None, absent}), step in {None,1,2,-1}, offset in {None,0,3}')
def _e_mapslice():
    labels = ['a', 'b', 'c', 'd']
    mp = {l: i for i, l in enumerate(labels)}
    for a in [None] + labels + ['zz']:
        for b in [None] + labels + ['zz']:
            for c in (None, 1, 2, -1):
                for off in (None, 0, 3):
                    yield dict(label_to_pos=mp.get, key=slice(a, b, c), labels=None, offset=off, _map=mp)
