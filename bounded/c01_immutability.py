"""C01 bounded stand-in: immutability of static containers.

Run-time contract on the REAL package, evaluated per (container, public operation) pair:
  (a) frame condition: the deep value+flag state of every live input container (the subject, an equal twin,
      a small partially-aligned operand) is identical before and after the call, also when the call raises;
  (b) every ndarray reachable from the result (containers, bare arrays, arrays yielded by iterators, arrays
      inside tuples/lists/dicts) has flags.writeable == False;
  (c) a container built from a caller-held writeable array does not change when the caller writes to that array;
  (d) pickle / deepcopy / copy round trips reproduce the content and keep every array read-only.
The public interface is enumerated mechanically (dir() without underscored names) and completed by argument
tables for members that need arguments, plus operators, ufuncs, dunder protocol calls and mutation attempts.
"""
from __future__ import annotations
import copy
import io
import itertools
import pickle
import numpy as np
from .common import Report, layouts_dtype_safe, blocks_for, snapshot, reachable_arrays, arr_snap

NAN = float('nan')

# ---------------------------------------------------------------------------------------------
# subjects

VALS = {
    'i': lambda: np.array([4, -2, 1], dtype=np.int64),
    'f': lambda: np.array([1.5, NAN, -2.0], dtype=np.float64),
    'b': lambda: np.array([True, False, True], dtype=bool),
    'U': lambda: np.array(['b', 'aa', ''], dtype='<U2'),
    'O': lambda: np.array([None, 'x', 3], dtype=object),
    'M': lambda: np.array(['2020-01-31', 'NaT', '2019-03-05'], dtype='datetime64[D]'),
    'm': lambda: np.array([3, 'NaT', -1], dtype='timedelta64[D]'),
    'c': lambda: np.array([1 + 2j, 0j, -1j], dtype=np.complex128),  # no complex NaN: common._cell does not canonicalise it
    'S': lambda: np.array([b'b', b'aa', b''], dtype='S2'),
    'u': lambda: np.array([4, 0, 255], dtype=np.uint8),
}
# values usable as unique labels
UVALS = dict(VALS)
UVALS['f'] = lambda: np.array([1.5, 0.25, -2.0], dtype=np.float64)
UVALS['O'] = lambda: np.array([None, 'x', 3], dtype=object)
UVALS['M'] = lambda: np.array(['2020-01-31', '2018-07-09', '2019-03-05'], dtype='datetime64[D]')
UVALS['U'] = lambda: np.array(['b', 'aa', 'c'], dtype='<U2')


def col(kind, rows):
    return VALS[kind]()[:rows].copy()


def make_index(variant, n, columns=False):
    import static_frame as sf
    if variant == 'auto':
        return None
    if variant == 'str':
        base = ['c1', 'c0', 'c2', 'c3'] if columns else ['r1', 'r0', 'r2', 'r3']
        return base[:n]
    if variant == 'int':
        return sf.Index([20, 10, 30, 40][:n])
    if variant == 'hier':
        labels = [('x', 2), ('x', 1), ('y', 1), ('y', 2)][:n]
        return sf.IndexHierarchy.from_labels(labels, depth_reference=2, name=('h0', 'h1'))
    if variant == 'date':
        return sf.IndexDate(['2020-02-01', '2020-01-01', '2021-01-01', '2021-06-01'][:n])
    raise ValueError(variant)


def build(spec):
    """subject container from a JSON-able spec"""
    import static_frame as sf
    from static_frame.core.type_blocks import TypeBlocks
    fam, rows = spec['fam'], spec['rows']
    cls = getattr(sf, spec['cls'])
    name = spec.get('name')
    name = tuple(name) if isinstance(name, list) else name  # JSON round trip of a replay record
    if fam == 'Frame':
        kinds = spec['kinds']
        cols = [col(k, rows) for k in kinds]
        lay = tuple(tuple(x) for x in spec['layout'])
        tb = TypeBlocks.from_blocks(blocks_for(cols, lay), shape_reference=(rows, 0))
        return cls(tb, index=make_index(spec['index'], rows), columns=make_index(spec['columns'], len(kinds), True), name=name, own_data=True)
    if fam == 'Series':
        return cls(col(spec['kinds'], rows), index=make_index(spec['index'], rows), name=name)
    if fam == 'Index':
        return cls(UVALS[spec['kinds']]()[:rows].copy(), name=name)
    if fam == 'IH':
        kinds = spec['kinds']
        if rows == 0:
            return cls.from_labels((), depth_reference=len(kinds), name=name)
        if spec.get('product'):
            return cls.from_product(*[UVALS[k]()[:2].tolist() if k != 'M' else sf.IndexDate(UVALS[k]()[:2]) for k in kinds], name=name)
        levels = [UVALS[k]()[:rows] for k in kinds]
        outer = [levels[0][0] if i < 2 else levels[0][1] for i in range(rows)]
        labels = [tuple([outer[i]] + [lv[i] for lv in levels[1:]]) for i in range(rows)]
        ctors = [sf.IndexDate if k == 'M' else sf.Index for k in kinds]
        return cls.from_labels(labels, name=name, index_constructors=ctors)
    raise ValueError(fam)


def _fspec(cls, kinds, rows, lay, index='str', columns='str', name='nm'):
    return dict(fam='Frame', cls=cls, kinds=kinds, rows=rows, layout=[[w, int(o)] for w, o in lay], index=index, columns=columns, name=name)


def _lays(kinds, rows):
    return list(layouts_dtype_safe([col(k, rows) for k in kinds]))


def subjects(tier):
    """interleaved so that consecutive subjects (= consecutive shards) have comparable cost"""
    thorough = tier != 'quick'
    frames, series, indices = [], [], []
    idx_cycle = itertools.cycle(['str', 'hier', 'auto', 'date', 'int'])
    col_cycle = itertools.cycle(['str', 'str', 'hier', 'auto'])
    # one column: every kind, 0 and 3 rows, both layouts
    for k in ('ifbUOM' + ('mcSu' if thorough else '')):
        for rows in (0, 3):
            for lay in _lays(k, rows):
                frames.append(_fspec('Frame', k, rows, lay, index=next(idx_cycle), columns=next(col_cycle)))
    pairs = ['ii', 'ff', 'if', 'fO', 'UU', 'bM', 'OO'] if not thorough else [''.join(p) for p in itertools.product('ifbUOM', repeat=2)]
    for kinds in pairs:
        ls = _lays(kinds, 3)
        if not thorough and kinds not in ('if', 'ff'):
            ls = [ls[0], ls[-1]]
        for lay in ls:
            frames.append(_fspec('Frame', kinds, 3, lay, index=next(idx_cycle), columns=next(col_cycle)))
    triples = ['iif', 'fUO', 'fff', 'bif'] if not thorough else ['iif', 'fUO', 'fff', 'bif', 'OOO', 'MiM', 'UfU', 'ibb', 'fOf', 'iii', 'Mff']
    for kinds in triples:
        ls = _lays(kinds, 3)
        if not thorough:
            ls = ls[::3]
        for lay in ls:
            frames.append(_fspec('Frame', kinds, 3, lay, index=next(idx_cycle), columns=next(col_cycle)))
    if thorough:
        for kinds in ('iiff', 'fOUb', 'ffff'):
            for lay in _lays(kinds, 2)[::3]:
                frames.append(_fspec('Frame', kinds, 2, lay, index=next(idx_cycle), columns=next(col_cycle)))
    # 0-sized shapes
    for lay in _lays('if', 0):
        frames.append(_fspec('Frame', 'if', 0, lay, index=next(idx_cycle), columns='str'))
    frames.append(_fspec('Frame', '', 3, (), index='str', columns='str'))
    frames.append(_fspec('Frame', '', 0, (), index='auto', columns='auto'))
    # HE and GO classes
    for cls in ('FrameHE', 'FrameGO'):
        for kinds in ('if', 'fO', 'UU') if not thorough else ('if', 'fO', 'UU', 'bM', 'iif'):
            ls = _lays(kinds, 3)
            for lay in (ls[0], ls[-1]):
                frames.append(_fspec(cls, kinds, 3, lay, index=next(idx_cycle), columns='str'))
    for k in ('ifbUOM' + ('mcSu' if thorough else '')):
        for rows in (0, 3):
            for iv in ('str', 'auto', 'hier', 'date') if (rows == 3 or thorough) else ('str', 'hier'):
                series.append(dict(fam='Series', cls='Series', kinds=k, rows=rows, index=iv, name='nm'))
        series.append(dict(fam='Series', cls='SeriesHE', kinds=k, rows=3, index='str', name=('n', 1)))
    for k in 'ifUOMb':
        for rows in (0, 3) if k != 'b' else (0, 2):
            indices.append(dict(fam='Index', cls='Index', kinds=k, rows=rows, name='nm'))
    indices.append(dict(fam='Index', cls='IndexDate', kinds='M', rows=3, name='nm'))
    indices.append(dict(fam='Index', cls='IndexDate', kinds='M', rows=0, name=None))
    indices.append(dict(fam='Index', cls='IndexYearMonth', kinds='M', rows=3, name='nm'))
    indices.append(dict(fam='Index', cls='IndexGO', kinds='U', rows=3, name='nm'))
    indices.append(dict(fam='Index', cls='IndexGO', kinds='i', rows=3, name=None))
    for kinds, rows in (('Ui', 3), ('iM', 3), ('UiU', 3), ('Ui', 0), ('OU', 3), ('if', 3)):
        indices.append(dict(fam='IH', cls='IndexHierarchy', kinds=kinds, rows=rows, name='nm'))
    indices.append(dict(fam='IH', cls='IndexHierarchy', kinds='Ui', rows=4, product=1, name=('a', 'b')))
    indices.append(dict(fam='IH', cls='IndexHierarchyGO', kinds='Ui', rows=3, name='nm'))
    # interleave: frames are the most expensive; spread series/indices between them
    out, si, ii = [], iter(series), iter(indices)
    for f in frames:
        out.append(f)
        for it in (si, ii):
            x = next(it, None)
            if x is not None:
                out.append(x)
    out.extend(si)
    out.extend(ii)
    return out


# ---------------------------------------------------------------------------------------------
# state and result walking

def snap(c):
    """bounded.common.snapshot, except that hierarchical labels go through arr_snap so that NaN/NaT labels compare equal to
    themselves (common.snapshot keeps raw tuples for IndexHierarchy)"""
    import static_frame as sf
    if isinstance(c, sf.IndexHierarchy):
        return ('IH', type(c).__name__, c.name, arr_snap(c.values), c.depth, tuple(str(d) for d in c.dtypes.values))
    if isinstance(c, sf.Frame) and (c.index.depth > 1 or c.columns.depth > 1):
        base = snapshot(c.relabel(index=sf.IndexAutoFactory if c.index.depth > 1 else None, columns=sf.IndexAutoFactory if c.columns.depth > 1 else None))
        return (base, snap(c.index), snap(c.columns))
    if isinstance(c, sf.Series) and c.index.depth > 1:
        return ('Series', type(c).__name__, c.name, snap(c.index), arr_snap(c.values))
    return snapshot(c)


def state(c):
    """deep value + flag state"""
    from static_frame.core.type_blocks import TypeBlocks
    from static_frame.core.array_go import ArrayGO
    if isinstance(c, TypeBlocks):
        return ('TB', c.shape, tuple(arr_snap(b) for b in c._blocks), tuple(bool(b.flags.writeable) for b in c._blocks))
    if isinstance(c, ArrayGO):
        v = c.values
        return ('ArrayGO', arr_snap(v), bool(v.flags.writeable))
    return (snap(c), tuple(bool(a.flags.writeable) for a in reachable_arrays(c)))


def content(c):
    """state without the class names (for HE/GO conversions and round trips keep the class separately)"""
    return state(c)


ITER_CAP = 48


def named_arrays(c):
    """(path, ndarray) for every array obtainable from a container; `path` names the innermost container family and
    the attribute, so that one root cause maps to one failure key"""
    import static_frame as sf
    out = []
    if isinstance(c, sf.Frame):
        out.extend(('Frame.blocks', b) for b in c._blocks._blocks)
        out.append(('Frame.values', c.values))
        out.extend(named_arrays(c.index))
        out.extend(named_arrays(c.columns))
    elif isinstance(c, sf.Series):
        out.append(('Series.values', c.values))
        out.extend(named_arrays(c.index))
    elif isinstance(c, sf.IndexHierarchy):
        out.append(('IH.values', c.values))
        out.append(('IH.positions', c.positions))
        for d in range(c.depth):
            out.append(('IH.values_at_depth', c.values_at_depth(d)))
    elif isinstance(c, sf.Index):
        out.append(('Index.values', c.values))
        out.append(('Index.positions', c.positions))
    return out


def collect(x, arrays, conts, depth=0):
    """gather every ndarray and every static-frame container reachable from a result; consumes iterators
    (bounded); exceptions raised by lazily evaluated iterators are observations of the operation, not faults"""
    import static_frame as sf
    from static_frame.core.type_blocks import TypeBlocks
    from static_frame.core.node_iter import IterNodeDelegate
    if depth > 4 or x is None or isinstance(x, (str, bytes, int, float, complex, bool, np.generic)):
        return
    if isinstance(x, np.ndarray):
        arrays.append(('ndarray' if depth == 0 else 'ndarray-in-collection', x))
        if x.dtype.kind == 'O' and x.size <= 16:
            for e in x.ravel():
                if isinstance(e, (np.ndarray, sf.Frame, sf.Series)):
                    collect(e, arrays, conts, depth + 1)
        return
    if isinstance(x, (sf.Frame, sf.Series, sf.Index, sf.IndexHierarchy)):
        conts.append(x)
        try:
            arrays.extend(named_arrays(x))
        except Exception:
            pass  # an unreadable result is not a C01 matter
        return
    if isinstance(x, TypeBlocks):
        arrays.extend(('TypeBlocks.blocks', b) for b in x._blocks)
        return
    if isinstance(x, dict):
        for k, v in itertools.islice(x.items(), ITER_CAP):
            collect(k, arrays, conts, depth + 1)
            collect(v, arrays, conts, depth + 1)
        return
    if isinstance(x, (tuple, list, set, frozenset)):
        for e in itertools.islice(x, ITER_CAP):
            collect(e, arrays, conts, depth + 1)
        return
    if hasattr(x, '__next__') or isinstance(x, IterNodeDelegate) or type(x).__name__ in ('dict_keys', 'dict_values', 'dict_items'):
        try:
            for e in itertools.islice(iter(x), ITER_CAP):
                collect(e, arrays, conts, depth + 1)
        except Exception:
            pass
        return
    mod = type(x).__module__ or ''
    if mod.startswith('pandas'):
        try:
            a = np.asarray(x)
            if isinstance(a, np.ndarray):
                arrays.append(('pandas', a))
        except Exception:
            pass


def fam_of(c):
    import static_frame as sf
    if isinstance(c, sf.Frame):
        return 'Frame'
    if isinstance(c, sf.Series):
        return 'Series'
    if isinstance(c, sf.IndexHierarchy):
        return 'IH'
    if isinstance(c, sf.Index):
        return 'Index'
    return type(c).__name__


class Ctx:
    """auxiliary live containers for a subject"""
    pass


def make_ctx(spec, c):
    import static_frame as sf
    X = Ctx()
    X.twin = build(spec)
    fam = spec['fam']
    if fam == 'Frame':
        X.small = sf.Frame.from_dict({'c0': (1, 2), 'zz': (3.5, NAN)}, index=('r0', 'q'), name='small')
        X.ser = sf.Series((10, 20.5), index=('r0', 'c0'), name='ser')
    elif fam == 'Series':
        X.small = sf.Series((1, 2.5), index=('r0', 'q'), name='small')
        X.ser = X.small
    else:
        X.small = sf.Index(('b', 'q', 4), name='small')
        X.ser = sf.Series((1, 2), index=('b', 'q'))
    X.live = [('subject', c), ('twin', X.twin), ('small', X.small), ('ser', X.ser)]
    return X


def lab(idx, i=0):
    """i-th label of an index in a form usable as a loc key ('zz' when absent)"""
    if len(idx) <= i:
        return 'zz'
    v = idx.values[i]
    return tuple(v.tolist()) if idx.depth > 1 else v


def labs(idx):
    return [lab(idx, i) for i in range(len(idx))]


# ---------------------------------------------------------------------------------------------
# operation catalogue: (root, variant, fn(c, X)).  `root` names the public member (it goes into failure keys),
# `variant` distinguishes argument choices.

SKIP_NAMES = {
    # constructors are exercised with caller-held arrays in the ctor cases and as derivations below
    # external side effects (clipboard, browser) are not run
    'to_clipboard', 'from_clipboard', 'from_json_url',
}

REDUCTIONS = ('sum', 'prod', 'min', 'max', 'mean', 'median', 'std', 'var', 'all', 'any', 'cumsum', 'cumprod')


def _inplace(sym):
    def f(c, X):
        ns = {'x': c, 'o': X.twin, 's': 2}
        exec(f'x {sym}= s', ns)
        return ns['x']
    return f


def ops_common():
    """operators, ufuncs, protocol dunders, round trips: valid for every family"""
    o = []
    A = lambda r, v, f: o.append((r, v, f))
    A('__neg__', '', lambda c, X: -c)
    A('__pos__', '', lambda c, X: +c)
    A('__invert__', '', lambda c, X: ~c)
    A('__abs__', '', lambda c, X: abs(c))
    A('__round__', '', lambda c, X: round(c))
    A('__round__', '1', lambda c, X: round(c, 1))
    import operator as op
    for name in ('add', 'sub', 'mul', 'truediv', 'floordiv', 'mod', 'pow', 'eq', 'ne', 'lt', 'le', 'gt', 'ge', 'and_', 'or_', 'xor', 'lshift', 'rshift', 'matmul'):
        fn = getattr(op, name)
        root = '__' + name.rstrip('_') + '__'
        A(root, 'scalar', lambda c, X, fn=fn: fn(c, 2))
        A(root, 'rscalar', lambda c, X, fn=fn: fn(2, c))
        A(root, 'self', lambda c, X, fn=fn: fn(c, c))
        A(root, 'twin', lambda c, X, fn=fn: fn(c, X.twin))
        A(root, 'small', lambda c, X, fn=fn: fn(c, X.small))
        A(root, 'array', lambda c, X, fn=fn: fn(c, np.asarray(c.values)))
        if name != 'matmul':  # ndarray @ container lets NumPy coerce the container itself and run its object-dtype matmul loop,
            # which segfaults in this NumPy build when an element product raises (pure NumPy: reproduced without static_frame code on the stack)
            A(root, 'rarray', lambda c, X, fn=fn: fn(np.arange(len(c)), c))
    for name in ('add', 'eq', 'mul', 'and_'):
        fn = getattr(op, name)
        root = '__' + name.rstrip('_') + '__'
        A(root, 'str', lambda c, X, fn=fn: fn(c, 'a'))
        A(root, 'rstr', lambda c, X, fn=fn: fn('a', c))
        A(root, 'none', lambda c, X, fn=fn: fn(c, None))
        A(root, 'float', lambda c, X, fn=fn: fn(c, 0.5))
        A(root, 'bool', lambda c, X, fn=fn: fn(c, True))
        A(root, 'list', lambda c, X, fn=fn: fn(c, list(range(len(c)))))
    A('__matmul__', 'T', lambda c, X: c @ c.values.T)
    A('__rmatmul__', 'T', lambda c, X: c.__rmatmul__(c.values.T))
    for sym, nm in (('+', 'iadd'), ('-', 'isub'), ('*', 'imul'), ('/', 'itruediv'), ('//', 'ifloordiv'), ('%', 'imod'), ('**', 'ipow'),
                    ('&', 'iand'), ('|', 'ior'), ('^', 'ixor'), ('@', 'imatmul'), ('<<', 'ilshift'), ('>>', 'irshift')):
        A('__' + nm + '__', '', _inplace(sym))
    for uf in ('sin', 'negative', 'isnan', 'logical_not', 'sign', 'exp'):
        A('ufunc', uf, lambda c, X, uf=uf: getattr(np, uf)(c))
    A('ufunc', 'add1', lambda c, X: np.add(c, 1))
    A('ufunc', 'add_self', lambda c, X: np.add(c, c))
    A('ufunc', 'radd_array', lambda c, X: np.add(np.asarray(c.values), c))
    A('ufunc', 'maximum', lambda c, X: np.maximum(c, 0))
    A('ufunc', 'out_into_values', lambda c, X: np.add(c.values, 1, out=c.values))
    A('np', 'array', lambda c, X: np.array(c))
    A('np', 'asarray', lambda c, X: np.asarray(c))
    A('np', 'sum', lambda c, X: np.sum(c))
    A('np', 'sort', lambda c, X: np.sort(c.values))
    A('np', 'values.sort', lambda c, X: c.values.sort())
    A('np', 'values.fill', lambda c, X: c.values.fill(0))
    A('np', 'values.setitem', lambda c, X: c.values.__setitem__(0, c.values[-1]))
    A('np', 'values.put', lambda c, X: np.put(c.values, [0], c.values[-1:]))
    A('np', 'values.view_setitem', lambda c, X: c.values[:1].__setitem__(0, c.values[-1]))
    A('np', 'values.T_setitem', lambda c, X: c.values.T.__setitem__(0, c.values.T[-1]))
    A('np', 'values.reshape_setitem', lambda c, X: c.values.reshape(-1).__setitem__(0, c.values.reshape(-1)[-1]))
    A('np', 'values.iadd', lambda c, X: c.values.__iadd__(1))
    A('__len__', '', lambda c, X: len(c))
    A('__iter__', '', lambda c, X: list(iter(c)))
    A('__reversed__', '', lambda c, X: list(reversed(c)))
    A('__contains__', '', lambda c, X: ('r0' in c, 'c0' in c, 4 in c))
    A('__bool__', '', lambda c, X: bool(c))
    A('__hash__', '', lambda c, X: hash(c))
    A('__repr__', '', lambda c, X: repr(c))
    A('__str__', '', lambda c, X: str(c))
    A('_repr_html_', '', lambda c, X: c._repr_html_())
    A('__sizeof__', '', lambda c, X: c.__sizeof__())
    A('__dir__', '', lambda c, X: dir(c))
    A('__setitem__', 'int', lambda c, X: c.__setitem__(0, 1))
    A('__setitem__', 'label', lambda c, X: c.__setitem__(lab(c.columns if hasattr(c, 'columns') else (c.index if hasattr(c, 'index') else c)), 1))
    A('__setitem__', 'slice', lambda c, X: c.__setitem__(slice(None), 1))
    A('__delitem__', '', lambda c, X: c.__delitem__(0))
    A('iloc.__setitem__', '', lambda c, X: c.iloc.__setitem__(0, 1))
    A('loc.__setitem__', '', lambda c, X: c.loc.__setitem__(lab(c.index if hasattr(c, 'index') else c), 1))
    A('iloc.__delitem__', '', lambda c, X: c.iloc.__delitem__(0))
    for proto in (2, 4, 5):
        A('pickle', str(proto), lambda c, X, proto=proto: pickle.loads(pickle.dumps(c, protocol=proto)))
    A('deepcopy', '', lambda c, X: copy.deepcopy(c))
    A('deepcopy', 'memo', lambda c, X: copy.deepcopy([c, {'k': c}]))
    A('copy', '', lambda c, X: copy.copy(c))
    A('equals', 'twin', lambda c, X: c.equals(X.twin))
    A('equals', 'strict', lambda c, X: c.equals(X.twin, compare_name=True, compare_dtype=True, compare_class=True, skipna=False))
    A('equals', 'small', lambda c, X: c.equals(X.small))
    A('equals', 'self', lambda c, X: c.equals(c))
    A('equals', 'values', lambda c, X: c.equals(c.values))
    A('equals', 'reversed', lambda c, X: c.equals(c.iloc[::-1]))
    for r in REDUCTIONS:
        A(r, 'axis0', lambda c, X, r=r: getattr(c, r)(axis=0))
        A(r, 'noskipna', lambda c, X, r=r: getattr(c, r)(skipna=False))
    for r in ('sum', 'mean', 'min', 'all', 'std'):
        A(r, 'out', lambda c, X, r=r: getattr(c, r)(out=np.empty(3)))
    A('sample', 'seed', lambda c, X: c.sample(2, seed=3))
    A('head', '1', lambda c, X: c.head(1))
    A('head', '0', lambda c, X: c.head(0))
    A('tail', '1', lambda c, X: c.tail(1))
    A('to_html_datatables', 'noshow', lambda c, X: c.to_html_datatables(show=False))
    A('to_html_datatables', 'fp', lambda c, X: c.to_html_datatables(io.StringIO(), show=False))
    A('display', 'config', lambda c, X: _display(c))
    return o


def _display(c):
    import static_frame as sf
    return c.display(sf.DisplayConfig(type_show=False, display_rows=2, display_columns=2))


VIA_STR_ARGS = {
    'center': (5,), 'ljust': (5,), 'rjust': (5,), 'zfill': (4,), 'count': ('a',), 'endswith': ('a',), 'startswith': (('a', 'b'),),
    'find': ('a',), 'rfind': ('a',), 'index': ('a',), 'rindex': ('a',), 'partition': ('a',), 'rpartition': ('a',),
    'replace': ('a', 'zz'), 'split': ('a',), 'rsplit': ('a',), 'decode': (), 'encode': (),
}
VIA_DT_ARGS = {'strftime': ('%Y|%m',), 'strptime': ('%Y-%m-%d',), 'strpdate': ('%Y-%m-%d',), 'isoformat': (), 'fromisoformat': (), 'timetuple': ()}


def ops_via(fam):
    """via_str / via_dt / via_T: members enumerated from the interface class"""
    from static_frame.core.node_str import InterfaceString
    from static_frame.core.node_dt import InterfaceDatetime
    o = []
    for n in sorted(x for x in dir(InterfaceString) if not x.startswith('_') and x != 'INTERFACE'):
        args = VIA_STR_ARGS.get(n, ())
        o.append(('via_str.' + n, '', lambda c, X, n=n, args=args: getattr(c.via_str, n)(*args)))
    for n in sorted(x for x in dir(InterfaceDatetime) if not x.startswith('_') and x != 'INTERFACE' and not x.startswith('DT64')):
        if n in VIA_DT_ARGS:
            args = VIA_DT_ARGS[n]
            o.append(('via_dt.' + n, '', lambda c, X, n=n, args=args: getattr(c.via_dt, n)(*args)))
        else:
            o.append(('via_dt.' + n, '', lambda c, X, n=n: getattr(c.via_dt, n)))
    if fam in ('Frame', 'IH'):
        import operator as op
        for name in ('add', 'mul', 'eq', 'lt', 'sub'):
            fn = getattr(op, name)
            o.append(('via_T.' + name, 'ser', lambda c, X, fn=fn: fn(c.via_T, X.ser)))
            o.append(('via_T.' + name, 'arr', lambda c, X, fn=fn: fn(c.via_T, np.arange(c.shape[0]))))
            o.append(('via_T.' + name, 'col', lambda c, X, fn=fn: fn(c.via_T, c.iloc[:, 0] if fam == 'Frame' else np.arange(len(c)))))
    return o


def _iter_variants(name, calls):
    """for an iterator interface `name` and a list of (variant, kwargs-builder): plain iteration plus the
    function-application delegates"""
    o = []
    for v, mk in calls:
        def node(c, X, mk=mk):
            a, k = mk(c)
            return getattr(c, name)(*a, **k)
        o.append((name, v, lambda c, X, node=node: node(c, X)))
        o.append((name, v + '.list', lambda c, X, node=node: list(node(c, X))))
        o.append((name, v + '.apply_id', lambda c, X, node=node: node(c, X).apply(lambda *a: a[-1])))
        o.append((name, v + '.apply_len', lambda c, X, node=node: node(c, X).apply(lambda *a: len(str(a[-1])))))
        o.append((name, v + '.apply_iter', lambda c, X, node=node: list(node(c, X).apply_iter(lambda *a: a[-1]))))
        o.append((name, v + '.apply_iter_items', lambda c, X, node=node: list(node(c, X).apply_iter_items(lambda *a: a[-1]))))
        o.append((name, v + '.map_any', lambda c, X, node=node: node(c, X).map_any({1: 100, 'b': 'B'})))
        o.append((name, v + '.map_fill', lambda c, X, node=node: node(c, X).map_fill({1: 100}, fill_value=None)))
        o.append((name, v + '.map_all', lambda c, X, node=node: node(c, X).map_all({1: 100})))
        o.append((name, v + '.map_any_iter', lambda c, X, node=node: list(node(c, X).map_any_iter({1: 100}))))
        o.append((name, v + '.apply_pool', lambda c, X, node=node: node(c, X).apply_pool(_ident, use_threads=True, max_workers=2)))
    return o


def _ones_ro(n):
    a = np.ones(n)
    a.flags.writeable = False
    return a


def _ident(*a):
    return a[-1]


def ops_frame():
    import static_frame as sf
    o = []
    A = lambda r, v, f: o.append((r, v, f))
    c0 = lambda c: lab(c.columns, 0)
    c1 = lambda c: lab(c.columns, 1)
    r0 = lambda c: lab(c.index, 0)
    # selection
    A('loc', 'row', lambda c, X: c.loc[r0(c)])
    A('loc', 'rows', lambda c, X: c.loc[[r0(c)]])
    A('loc', 'row_slice', lambda c, X: c.loc[r0(c):])
    A('loc', 'col', lambda c, X: c.loc[:, c0(c)])
    A('loc', 'cols', lambda c, X: c.loc[:, [c0(c)]])
    A('loc', 'elem', lambda c, X: c.loc[r0(c), c0(c)])
    A('loc', 'missing', lambda c, X: c.loc['missing'])
    A('loc', 'bool', lambda c, X: c.loc[np.arange(len(c.index)) % 2 == 0])
    A('loc', 'bool_series', lambda c, X: c.loc[sf.Series(np.arange(len(c.index)) % 2 == 0, index=c.index)])
    A('loc', 'col_bool', lambda c, X: c.loc[:, np.arange(len(c.columns)) % 2 == 0])
    A('loc', 'all', lambda c, X: c.loc[:, :])
    A('loc', 'hloc', lambda c, X: c.loc[sf.HLoc[lab(c.index, 0)[0]]])
    A('loc', 'iloc_wrap', lambda c, X: c.loc[sf.ILoc[-1]])
    A('loc', 'index_key', lambda c, X: c.loc[c.index[:2]])
    A('iloc', 'row', lambda c, X: c.iloc[0])
    A('iloc', 'last', lambda c, X: c.iloc[-1])
    A('iloc', 'rev', lambda c, X: c.iloc[::-1])
    A('iloc', 'rev_cols', lambda c, X: c.iloc[:, ::-1])
    A('iloc', 'rows', lambda c, X: c.iloc[[0]])
    A('iloc', 'col', lambda c, X: c.iloc[:, 0])
    A('iloc', 'cols', lambda c, X: c.iloc[:, [0]])
    A('iloc', 'cols_last_first', lambda c, X: c.iloc[:, [-1, 0]])
    A('iloc', 'elem', lambda c, X: c.iloc[0, 0])
    A('iloc', 'oob', lambda c, X: c.iloc[7])
    A('iloc', 'sub', lambda c, X: c.iloc[1:, :1])
    A('iloc', 'arr', lambda c, X: c.iloc[np.array([0])])
    A('iloc', 'empty', lambda c, X: c.iloc[:0])
    A('iloc', 'empty_cols', lambda c, X: c.iloc[:, :0])
    A('iloc', 'all', lambda c, X: c.iloc[:, :])
    A('iloc', 'none', lambda c, X: c.iloc[None])
    A('__getitem__', 'col', lambda c, X: c[c0(c)])
    A('__getitem__', 'cols', lambda c, X: c[[c0(c)]])
    A('__getitem__', 'slice', lambda c, X: c[c0(c):])
    A('__getitem__', 'missing', lambda c, X: c['missing'])
    A('__getitem__', 'bool', lambda c, X: c[np.arange(len(c.columns)) % 2 == 0])
    A('bloc', 'isna', lambda c, X: c.bloc[c.isna()])
    A('bloc', 'eq', lambda c, X: c.bloc[c == c])
    A('bloc', 'array', lambda c, X: c.bloc[np.ones(c.shape, dtype=bool)])
    A('bloc', 'small', lambda c, X: c.bloc[X.small.notna()])
    # assign
    A('assign.iloc', 'elem', lambda c, X: c.assign.iloc[0, 0](7))
    A('assign.iloc', 'elem_str', lambda c, X: c.assign.iloc[0, 0]('zz'))
    A('assign.iloc', 'col_array', lambda c, X: c.assign.iloc[:, 0](np.arange(c.shape[0])))
    A('assign.iloc', 'col_last', lambda c, X: c.assign.iloc[:, -1](-1))
    A('assign.iloc', 'row', lambda c, X: c.assign.iloc[0](None))
    A('assign.iloc', 'row_series', lambda c, X: c.assign.iloc[0](c.iloc[-1]))
    A('assign.iloc', 'frame', lambda c, X: c.assign.iloc[:, ::-1](c))
    A('assign.iloc', 'oob', lambda c, X: c.assign.iloc[9, 9](1))
    A('assign.iloc', 'apply', lambda c, X: c.assign.iloc[:, -1].apply(lambda s: s))
    A('assign.iloc', 'apply_rev', lambda c, X: c.assign.iloc[1:].apply(lambda f: f.iloc[::-1]))
    A('assign.iloc', 'all_array', lambda c, X: c.assign.iloc[:, :](np.asarray(c.values)))
    A('assign.loc', 'row', lambda c, X: c.assign.loc[r0(c)](0))
    A('assign.loc', 'col_series', lambda c, X: c.assign.loc[:, c0(c)](X.ser))
    A('assign.loc', 'missing', lambda c, X: c.assign.loc['missing'](0))
    A('assign.__getitem__', 'col', lambda c, X: c.assign[c0(c)](1.5))
    A('assign.__getitem__', 'cols_frame', lambda c, X: c.assign[[c0(c)]](X.small))
    A('assign.bloc', 'isna', lambda c, X: c.assign.bloc[c.isna()](0))
    A('assign.bloc', 'array', lambda c, X: c.assign.bloc[np.ones(c.shape, dtype=bool)]('q'))
    A('assign.bloc', 'frame_val', lambda c, X: c.assign.bloc[c.notna()](c))
    # drop / mask / masked_array
    for nm in ('drop', 'mask', 'masked_array'):
        A(nm + '.iloc', 'row', lambda c, X, nm=nm: getattr(c, nm).iloc[0])
        A(nm + '.iloc', 'col', lambda c, X, nm=nm: getattr(c, nm).iloc[:, 0])
        A(nm + '.iloc', 'col_last', lambda c, X, nm=nm: getattr(c, nm).iloc[:, -1])
        A(nm + '.iloc', 'cols_from1', lambda c, X, nm=nm: getattr(c, nm).iloc[:, 1:])
        A(nm + '.iloc', 'rows_list', lambda c, X, nm=nm: getattr(c, nm).iloc[[0, -1]])
        A(nm + '.iloc', 'oob', lambda c, X, nm=nm: getattr(c, nm).iloc[9])
        A(nm + '.iloc', 'both', lambda c, X, nm=nm: getattr(c, nm).iloc[0, 0])
        A(nm + '.loc', 'row', lambda c, X, nm=nm: getattr(c, nm).loc[r0(c)])
        A(nm + '.loc', 'col', lambda c, X, nm=nm: getattr(c, nm).loc[:, c0(c)])
        A(nm + '.__getitem__', 'col', lambda c, X, nm=nm: getattr(c, nm)[c0(c)])
        A(nm + '.__getitem__', 'missing', lambda c, X, nm=nm: getattr(c, nm)['missing'])
    # astype
    for dt in (object, float, str, int, bool, 'datetime64[D]', 'complex'):
        A('astype', str(dt), lambda c, X, dt=dt: c.astype(dt))
    A('astype.__getitem__', 'col_obj', lambda c, X: c.astype[c0(c)](object))
    A('astype.__getitem__', 'slice_str', lambda c, X: c.astype[c0(c):](str))
    A('astype.__getitem__', 'list_float', lambda c, X: c.astype[[c0(c)]](float))
    A('astype.__getitem__', 'same', lambda c, X: c.astype[c0(c)](c.dtypes.values[0]))
    A('astype', 'dict', lambda c, X: c.astype({c0(c): object}))
    # reductions along axis 1, and the positional ones
    for r in REDUCTIONS:
        A(r, 'axis1', lambda c, X, r=r: getattr(c, r)(axis=1))
        A(r, 'axis1_noskipna', lambda c, X, r=r: getattr(c, r)(axis=1, skipna=False))
    for r in ('count', 'iloc_min', 'iloc_max', 'loc_min', 'loc_max'):
        A(r, 'axis0', lambda c, X, r=r: getattr(c, r)(axis=0))
        A(r, 'axis1', lambda c, X, r=r: getattr(c, r)(axis=1))
        A(r, 'noskipna', lambda c, X, r=r: getattr(c, r)(skipna=False))
    A('cov', 'axis0', lambda c, X: c.cov(axis=0))
    # sort
    A('sort_index', 'desc', lambda c, X: c.sort_index(ascending=False))
    A('sort_index', 'key', lambda c, X: c.sort_index(key=lambda i: i.values))
    A('sort_index', 'quick', lambda c, X: c.sort_index(kind='quicksort'))
    A('sort_columns', 'desc', lambda c, X: c.sort_columns(ascending=False))
    A('sort_columns', 'key', lambda c, X: c.sort_columns(key=lambda i: i.values))
    A('sort_values', 'c0', lambda c, X: c.sort_values(c0(c)))
    A('sort_values', 'c0_desc', lambda c, X: c.sort_values(c0(c), ascending=False))
    A('sort_values', 'c0c1', lambda c, X: c.sort_values([c0(c), c1(c)]))
    A('sort_values', 'row', lambda c, X: c.sort_values(r0(c), axis=0))
    A('sort_values', 'key', lambda c, X: c.sort_values(c0(c), key=lambda s: s.values))
    A('sort_values', 'missing', lambda c, X: c.sort_values('missing'))
    # reindex / relabel / rename
    A('reindex', 'index_rev_new', lambda c, X: c.reindex(index=labs(c.index)[::-1] + ['new' if c.index.depth == 1 else ('new', 0)]))
    A('reindex', 'columns_rev_new', lambda c, X: c.reindex(columns=labs(c.columns)[::-1] + ['new' if c.columns.depth == 1 else ('new', 'w')], fill_value=0))
    A('reindex', 'same_index', lambda c, X: c.reindex(index=c.index))
    A('reindex', 'twin_index_own', lambda c, X: c.reindex(index=X.twin.index, own_index=True))
    A('reindex', 'same_columns_own', lambda c, X: c.reindex(columns=c.columns, own_columns=True))
    A('reindex', 'both', lambda c, X: c.reindex(index=X.small.index, columns=X.small.columns, fill_value=None))
    A('reindex', 'none', lambda c, X: c.reindex())
    A('relabel', 'index_func', lambda c, X: c.relabel(index=lambda x: str(x) + '_'))
    A('relabel', 'columns_dict', lambda c, X: c.relabel(columns={c0(c): 'renamed'}))
    A('relabel', 'index_auto', lambda c, X: c.relabel(index=sf.IndexAutoFactory))
    A('relabel', 'columns_auto', lambda c, X: c.relabel(columns=sf.IndexAutoFactory))
    A('relabel', 'index_same', lambda c, X: c.relabel(index=c.index))
    A('relabel', 'columns_same', lambda c, X: c.relabel(columns=c.columns))
    A('relabel', 'index_array', lambda c, X: c.relabel(index=np.arange(len(c.index)) * 2))
    A('relabel', 'columns_list', lambda c, X: c.relabel(columns=list('wxyz')[:len(c.columns)]))
    A('relabel', 'bad_length', lambda c, X: c.relabel(index=('only',)))
    A('relabel', 'none', lambda c, X: c.relabel())
    A('relabel_flat', 'index', lambda c, X: c.relabel_flat(index=True))
    A('relabel_flat', 'columns', lambda c, X: c.relabel_flat(columns=True))
    A('relabel_level_add', 'index', lambda c, X: c.relabel_level_add(index='L'))
    A('relabel_level_add', 'columns', lambda c, X: c.relabel_level_add(columns='L'))
    A('relabel_level_drop', 'index', lambda c, X: c.relabel_level_drop(index=1))
    A('relabel_level_drop', 'columns', lambda c, X: c.relabel_level_drop(columns=1))
    A('relabel_shift_in', 'c0', lambda c, X: c.relabel_shift_in(c0(c)))
    A('relabel_shift_in', 'r0_axis1', lambda c, X: c.relabel_shift_in(r0(c), axis=1))
    A('relabel_shift_out', '0', lambda c, X: c.relabel_shift_out(0))
    A('relabel_shift_out', '0_axis1', lambda c, X: c.relabel_shift_out(0, axis=1))
    A('rehierarch', 'index', lambda c, X: c.rehierarch(index=(1, 0)))
    A('rehierarch', 'columns', lambda c, X: c.rehierarch(columns=(1, 0)))
    A('rename', 'name', lambda c, X: c.rename('other'))
    A('rename', 'axes', lambda c, X: c.rename(index='i', columns='c'))
    A('rename', 'none', lambda c, X: c.rename(None))
    A('rename', 'unhashable', lambda c, X: c.rename([1]))
    # roll / shift
    A('roll', 'index', lambda c, X: c.roll(1, 0))
    A('roll', 'columns', lambda c, X: c.roll(0, 1))
    A('roll', 'both_labels', lambda c, X: c.roll(-1, 1, include_index=True, include_columns=True))
    A('roll', 'large', lambda c, X: c.roll(5, 5))
    A('shift', 'index', lambda c, X: c.shift(1, 0))
    A('shift', 'columns', lambda c, X: c.shift(0, 1))
    A('shift', 'both_none', lambda c, X: c.shift(-1, -1, fill_value=None))
    A('shift', 'large', lambda c, X: c.shift(0, 9))
    # missing values
    A('fillna', '0', lambda c, X: c.fillna(0))
    A('fillna', 'str', lambda c, X: c.fillna('x'))
    A('fillna', 'frame', lambda c, X: c.fillna(X.twin.iloc[::-1]))
    A('fillna', 'array', lambda c, X: c.fillna(np.zeros(c.shape)))
    for nm in ('fillna_forward', 'fillna_backward'):
        A(nm, 'axis1', lambda c, X, nm=nm: getattr(c, nm)(1, axis=1))
        A(nm, 'limit1', lambda c, X, nm=nm: getattr(c, nm)(1))
    for nm in ('fillna_leading', 'fillna_trailing'):
        A(nm, '0', lambda c, X, nm=nm: getattr(c, nm)(0))
        A(nm, 'axis1', lambda c, X, nm=nm: getattr(c, nm)(0, axis=1))
    A('dropna', 'axis1', lambda c, X: c.dropna(axis=1))
    A('dropna', 'axis1_any', lambda c, X: c.dropna(axis=1, condition=np.any))
    A('dropna', 'axis0_any', lambda c, X: c.dropna(axis=0, condition=np.any))
    A('isin', 'tuple', lambda c, X: c.isin((1, 'a', True, 4)))
    A('isin', 'values', lambda c, X: c.isin(c.values))
    A('isin', 'empty', lambda c, X: c.isin(()))
    A('isin', 'set', lambda c, X: c.isin({1.5, None}))
    A('clip', 'lower', lambda c, X: c.clip(lower=0))
    A('clip', 'upper', lambda c, X: c.clip(upper=1))
    A('clip', 'series', lambda c, X: c.clip(lower=X.ser, axis=0))
    A('clip', 'frame', lambda c, X: c.clip(lower=c, upper=c))
    A('clip', 'both', lambda c, X: c.clip(lower=-1, upper=2))
    for nm in ('duplicated', 'drop_duplicated'):
        A(nm, 'axis1', lambda c, X, nm=nm: getattr(c, nm)(axis=1))
        A(nm, 'exclude_first', lambda c, X, nm=nm: getattr(c, nm)(exclude_first=True))
        A(nm, 'exclude_last_axis1', lambda c, X, nm=nm: getattr(c, nm)(axis=1, exclude_last=True))
    A('unique', 'axis0', lambda c, X: c.unique(axis=0))
    A('unique', 'axis1', lambda c, X: c.unique(axis=1))
    A('sample', 'both', lambda c, X: c.sample(1, 1, seed=3))
    A('get', 'c0', lambda c, X: c.get(c0(c)))
    A('get', 'missing', lambda c, X: c.get('missing'))
    A('get', 'missing_default', lambda c, X: c.get('missing', X.ser))
    A('items', 'list', lambda c, X: list(c.items()))
    A('keys', 'list', lambda c, X: list(c.keys()))
    # iterators
    ax = [('axis0', lambda c: ((), dict(axis=0))), ('axis1', lambda c: ((), dict(axis=1)))]
    for nm in ('iter_array', 'iter_array_items', 'iter_series', 'iter_series_items', 'iter_tuple', 'iter_tuple_items'):
        o.extend(_iter_variants(nm, ax))
    o.extend(_iter_variants('iter_tuple', [('ctor', lambda c: ((), dict(axis=1, constructor=tuple)))]))
    o.extend(_iter_variants('iter_element', [('', lambda c: ((), {}))]))
    o.extend(_iter_variants('iter_element_items', [('', lambda c: ((), {}))]))
    o.extend(_iter_variants('iter_element', [('axis1', lambda c: ((), dict(axis=1)))]))
    grp = [('c0', lambda c: ((c0(c),), {})), ('c0c1', lambda c: (([c0(c), c1(c)],), {})), ('r0_axis1', lambda c: ((r0(c),), dict(axis=1)))]
    for nm in ('iter_group', 'iter_group_items'):
        o.extend(_iter_variants(nm, grp))
    gl = [('d0', lambda c: ((0,), {})), ('d0_axis1', lambda c: ((0,), dict(axis=1))), ('d1', lambda c: ((1,), {}))]
    for nm in ('iter_group_labels', 'iter_group_labels_items'):
        o.extend(_iter_variants(nm, gl))
    win = [('s2', lambda c: ((), dict(size=2))), ('s2_axis1', lambda c: ((), dict(size=2, axis=1))),
           ('s2_unsized', lambda c: ((), dict(size=2, step=2, window_sized=False, label_shift=-1))),
           ('s2_func', lambda c: ((), dict(size=2, window_func=_ones_ro)))]
    for nm in ('iter_window', 'iter_window_items', 'iter_window_array', 'iter_window_array_items'):
        o.extend(_iter_variants(nm, win))
    # exporters
    A('to_pairs', '1', lambda c, X: c.to_pairs(1))
    for nm, kw in (('to_csv', {}), ('to_tsv', {}), ('to_delimited', dict(delimiter='|'))):
        A(nm, 'stringio', lambda c, X, nm=nm, kw=kw: _to_text(c, nm, kw))
        A(nm, 'nolabels', lambda c, X, nm=nm, kw=kw: _to_text(c, nm, dict(kw, include_index=False, include_columns=False)))
    A('to_sqlite', 'memory', lambda c, X: c.to_sqlite(':memory:'))
    for nm in ('to_hdf5', 'to_xlsx', 'to_parquet'):
        A(nm, 'bytesio', lambda c, X, nm=nm: getattr(c, nm)(io.BytesIO()))
    A('to_arrow', 'noindex', lambda c, X: c.to_arrow(include_index=False))
    # index manipulation
    A('set_index', 'c0', lambda c, X: c.set_index(c0(c)))
    A('set_index', 'c0_drop', lambda c, X: c.set_index(c0(c), drop=True))
    A('set_index', 'missing', lambda c, X: c.set_index('missing'))
    A('set_index_hierarchy', 'c0c1', lambda c, X: c.set_index_hierarchy([c0(c), c1(c)]))
    A('set_index_hierarchy', 'c0c1_drop', lambda c, X: c.set_index_hierarchy([c0(c), c1(c)], drop=True))
    A('unset_index', 'names', lambda c, X: c.unset_index(names=tuple('uv')[:c.index.depth]))
    A('unset_index', 'consolidate', lambda c, X: c.unset_index(consolidate_blocks=True))
    for nm in ('insert_before', 'insert_after'):
        A(nm, 'series', lambda c, X, nm=nm: getattr(c, nm)(c0(c), sf.Series(np.arange(len(c.index)), index=c.index, name='ins')))
        A(nm, 'frame', lambda c, X, nm=nm: getattr(c, nm)(c0(c), X.small, fill_value=None))
        A(nm, 'twin_cols', lambda c, X, nm=nm: getattr(c, nm)(c0(c), X.twin.relabel(columns=lambda x: ('t', x))))
        A(nm, 'missing', lambda c, X, nm=nm: getattr(c, nm)('missing', X.small))
    for nm in ('join_inner', 'join_left', 'join_right', 'join_outer'):
        A(nm, 'index', lambda c, X, nm=nm: getattr(c, nm)(X.small, left_depth_level=0, right_depth_level=0, left_template='l{}', right_template='r{}'))
        A(nm, 'columns', lambda c, X, nm=nm: getattr(c, nm)(X.small, left_columns=c0(c), right_columns='c0', left_template='l{}', right_template='r{}'))
        A(nm, 'twin', lambda c, X, nm=nm: getattr(c, nm)(X.twin, left_depth_level=0, right_depth_level=0, left_template='l{}', right_template='r{}'))
    A('pivot', 'c0', lambda c, X: c.pivot(c0(c)))
    A('pivot', 'c0c1', lambda c, X: c.pivot(c0(c), c1(c)))
    A('pivot', 'c0c1_func', lambda c, X: c.pivot(c0(c), c1(c), func={'n': len}))
    A('pivot_stack', 'fill', lambda c, X: c.pivot_stack(0, fill_value=None))
    A('pivot_unstack', 'fill', lambda c, X: c.pivot_unstack(0, fill_value=None))
    # derivations through constructors
    A('ctor', 'Frame', lambda c, X: sf.Frame(c))
    A('ctor', 'FrameGO', lambda c, X: sf.FrameGO(c))
    A('ctor', 'FrameHE', lambda c, X: sf.FrameHE(c))
    A('ctor', 'Frame_values', lambda c, X: sf.Frame(c.values, index=c.index, columns=c.columns, own_index=True))
    A('ctor', 'Frame_own_columns', lambda c, X: sf.Frame(c.values, index=c.index, columns=c.columns, own_columns=True))
    A('ctor', 'from_concat0', lambda c, X: sf.Frame.from_concat((c, X.twin), index=sf.IndexAutoFactory))
    A('ctor', 'from_concat1', lambda c, X: sf.Frame.from_concat((c, X.twin), axis=1, columns=sf.IndexAutoFactory))
    A('ctor', 'from_concat_small', lambda c, X: sf.Frame.from_concat((c, X.small), axis=1, fill_value=None, columns=sf.IndexAutoFactory))
    A('ctor', 'from_concat_single', lambda c, X: sf.Frame.from_concat((c,)))
    A('ctor', 'from_concat_series', lambda c, X: sf.Frame.from_concat((c.iloc[0], c.iloc[-1])))
    A('ctor', 'from_concat_items', lambda c, X: sf.Frame.from_concat_items((('a', c), ('b', X.twin)), axis=1))
    A('ctor', 'from_overlay', lambda c, X: sf.Frame.from_overlay((c, X.twin.iloc[::-1])))
    A('ctor', 'from_items', lambda c, X: sf.Frame.from_items(c.items(), index=c.index))
    A('ctor', 'from_items_arrays', lambda c, X: sf.Frame.from_items(zip(labs(c.columns), c.iter_array(axis=0)), index=c.index))
    A('ctor', 'from_dict_series', lambda c, X: sf.Frame.from_dict(dict(c.items())))
    A('ctor', 'from_records', lambda c, X: sf.Frame.from_records(c.values, index=c.index))
    A('ctor', 'from_records_tuples', lambda c, X: sf.Frame.from_records(c.iter_tuple(axis=1)))
    A('ctor', 'from_series', lambda c, X: sf.Frame.from_series(c.iloc[:, 0]))
    A('ctor', 'from_fields', lambda c, X: sf.Frame.from_fields(c.iter_array(axis=0), columns=c.columns, index=c.index))
    A('ctor', 'from_element', lambda c, X: sf.Frame.from_element(0, index=c.index, columns=c.columns, own_index=True, own_columns=True))
    A('ctor', 'from_pandas', lambda c, X: sf.Frame.from_pandas(c.to_pandas()))
    A('ctor', 'from_pandas_own', lambda c, X: sf.Frame.from_pandas(c.to_pandas(), own_data=True))
    A('ctor', 'Series_col', lambda c, X: sf.Series(c.iloc[:, 0]))
    A('ctor', 'Series_values', lambda c, X: sf.Series(c.iloc[:, 0].values, index=c.index, own_index=True))
    A('ctor', 'Index_from_index', lambda c, X: sf.Index(c.index) if c.index.depth == 1 else sf.IndexHierarchy(c.index))
    A('ctor', 'IndexGO_from_columns', lambda c, X: sf.IndexGO(c.columns) if c.columns.depth == 1 else sf.IndexHierarchyGO(c.columns))
    A('ctor', 'TypeBlocks', lambda c, X: sf.TypeBlocks.from_blocks(c.iter_array(axis=0)))
    A('ctor', 'from_csv', lambda c, X: sf.Frame.from_csv(io.StringIO(_to_text(c, 'to_csv', {})), index_depth=c.index.depth))
    A('ctor', 'from_structured_array', lambda c, X: sf.Frame.from_structured_array(np.array([(1, 'a'), (2, 'b')], dtype=[('x', int), ('y', '<U1')])))
    A('ctor', 'Quilt', lambda c, X: sf.Quilt.from_frame(c, chunksize=1, retain_labels=True).to_frame())
    A('ctor', 'Bus', lambda c, X: sf.Bus.from_frames((c.rename('a'), X.twin.rename('b')))['a'])
    A('ctor', 'Batch', lambda c, X: sf.Batch.from_frames((c.rename('a'), X.twin.rename('b'))).sum().to_frame())
    # attempted mutation through the public surface
    A('values.setitem', '2d', lambda c, X: c.values.__setitem__((0, 0), c.values[-1, -1]))
    A('index.values.setitem', '', lambda c, X: c.index.values.__setitem__(0, c.index.values[-1]))
    A('columns.values.setitem', '', lambda c, X: c.columns.values.__setitem__(0, c.columns.values[-1]))
    A('index.positions.setitem', '', lambda c, X: c.index.positions.__setitem__(0, 9))
    A('dtypes.values.setitem', '', lambda c, X: c.dtypes.values.__setitem__(0, np.dtype(object)))
    A('iter_array.setitem', '', lambda c, X: [a.__setitem__(0, a[-1]) for a in c.iter_array(axis=0)])
    A('iter_array.setitem', 'axis1', lambda c, X: [a.__setitem__(0, a[-1]) for a in c.iter_array(axis=1)])
    A('col.values.setitem', '', lambda c, X: c.iloc[:, 0].values.__setitem__(0, c.iloc[-1, 0]))
    return o


def _to_text(c, nm, kw):
    s = io.StringIO()
    getattr(c, nm)(s, **kw)
    return s.getvalue()


def ops_series():
    import static_frame as sf
    o = []
    A = lambda r, v, f: o.append((r, v, f))
    r0 = lambda c: lab(c.index, 0)
    A('loc', 'elem', lambda c, X: c.loc[r0(c)])
    A('loc', 'list', lambda c, X: c.loc[[r0(c)]])
    A('loc', 'slice', lambda c, X: c.loc[r0(c):])
    A('loc', 'missing', lambda c, X: c.loc['missing'])
    A('loc', 'bool', lambda c, X: c.loc[np.arange(len(c)) % 2 == 0])
    A('loc', 'bool_series', lambda c, X: c.loc[sf.Series(np.arange(len(c)) % 2 == 0, index=c.index)])
    A('loc', 'all', lambda c, X: c.loc[:])
    A('loc', 'hloc', lambda c, X: c.loc[sf.HLoc[lab(c.index, 0)[0]]])
    A('loc', 'index_key', lambda c, X: c.loc[c.index[:2]])
    A('__getitem__', 'elem', lambda c, X: c[r0(c)])
    A('__getitem__', 'list', lambda c, X: c[[r0(c)]])
    A('__getitem__', 'missing', lambda c, X: c['missing'])
    for v, k in (('first', 0), ('last', -1), ('rev', slice(None, None, -1)), ('list', [0]), ('oob', 7), ('empty', slice(0, 0)), ('all', slice(None)), ('tail', slice(1, None))):
        A('iloc', v, lambda c, X, k=k: c.iloc[k])
    A('iloc', 'arr', lambda c, X: c.iloc[np.array([0, -1])])
    A('assign.iloc', 'elem', lambda c, X: c.assign.iloc[0](7))
    A('assign.iloc', 'elem_str', lambda c, X: c.assign.iloc[0]('zz'))
    A('assign.iloc', 'all_array', lambda c, X: c.assign.iloc[:](np.arange(len(c))))
    A('assign.iloc', 'slice_series', lambda c, X: c.assign.iloc[1:](c.iloc[:-1]))
    A('assign.iloc', 'oob', lambda c, X: c.assign.iloc[9](1))
    A('assign.iloc', 'apply', lambda c, X: c.assign.iloc[1:].apply(lambda s: s.iloc[::-1]))
    A('assign.loc', 'elem', lambda c, X: c.assign.loc[r0(c)](None))
    A('assign.loc', 'missing', lambda c, X: c.assign.loc['missing'](0))
    A('assign.__getitem__', 'elem', lambda c, X: c.assign[r0(c)](1.5))
    A('assign.__getitem__', 'bool', lambda c, X: c.assign[c.isna()](0))
    for nm in ('drop', 'mask', 'masked_array'):
        A(nm + '.iloc', 'first', lambda c, X, nm=nm: getattr(c, nm).iloc[0])
        A(nm + '.iloc', 'slice', lambda c, X, nm=nm: getattr(c, nm).iloc[1:])
        A(nm + '.iloc', 'list', lambda c, X, nm=nm: getattr(c, nm).iloc[[0, -1]])
        A(nm + '.iloc', 'oob', lambda c, X, nm=nm: getattr(c, nm).iloc[9])
        A(nm + '.loc', 'elem', lambda c, X, nm=nm: getattr(c, nm).loc[r0(c)])
        A(nm + '.__getitem__', 'elem', lambda c, X, nm=nm: getattr(c, nm)[r0(c)])
        A(nm + '.__getitem__', 'missing', lambda c, X, nm=nm: getattr(c, nm)['missing'])
    for dt in (object, float, str, int, bool, 'datetime64[D]', 'complex', None):
        A('astype', str(dt), lambda c, X, dt=dt: c.astype(dt))
    A('astype', 'same', lambda c, X: c.astype(c.dtype))
    for r in ('count', 'iloc_min', 'iloc_max', 'loc_min', 'loc_max'):
        A(r, 'noskipna', lambda c, X, r=r: getattr(c, r)(skipna=False))
    A('cov', 'self', lambda c, X: c.cov(c))
    A('cov', 'array', lambda c, X: c.cov(np.arange(len(c))))
    A('sort_index', 'desc', lambda c, X: c.sort_index(ascending=False))
    A('sort_index', 'key', lambda c, X: c.sort_index(key=lambda i: i.values))
    A('sort_values', 'desc', lambda c, X: c.sort_values(ascending=False))
    A('sort_values', 'key', lambda c, X: c.sort_values(key=lambda s: s.values))
    A('sort_values', 'key_series', lambda c, X: c.sort_values(key=lambda s: s))
    A('reindex', 'rev_new', lambda c, X: c.reindex(labs(c.index)[::-1] + ['new' if c.index.depth == 1 else ('new', 0)]))
    A('reindex', 'same', lambda c, X: c.reindex(c.index))
    A('reindex', 'twin_own', lambda c, X: c.reindex(X.twin.index, own_index=True))
    A('reindex', 'small_fill', lambda c, X: c.reindex(X.small.index, fill_value=None))
    A('relabel', 'func', lambda c, X: c.relabel(lambda x: str(x) + '_'))
    A('relabel', 'dict', lambda c, X: c.relabel({r0(c): 'renamed'}))
    A('relabel', 'auto', lambda c, X: c.relabel(sf.IndexAutoFactory))
    A('relabel', 'same', lambda c, X: c.relabel(c.index))
    A('relabel', 'array', lambda c, X: c.relabel(np.arange(len(c)) * 2))
    A('relabel', 'bad_length', lambda c, X: c.relabel(('only',)))
    A('relabel', 'series', lambda c, X: c.relabel(sf.Series(list('xyz')[:len(c)], index=c.index)))
    A('relabel_level_add', 'L', lambda c, X: c.relabel_level_add('L'))
    A('relabel_level_drop', '1', lambda c, X: c.relabel_level_drop(1))
    A('rehierarch', '10', lambda c, X: c.rehierarch((1, 0)))
    A('rename', 'name', lambda c, X: c.rename('other'))
    A('rename', 'index', lambda c, X: c.rename(index='i'))
    A('rename', 'none', lambda c, X: c.rename(None))
    A('rename', 'unhashable', lambda c, X: c.rename([1]))
    for k in (1, -1, 5, 0):
        A('roll', str(k), lambda c, X, k=k: c.roll(k))
        A('shift', str(k), lambda c, X, k=k: c.shift(k))
    A('roll', 'include_index', lambda c, X: c.roll(1, include_index=True))
    A('shift', 'fill_none', lambda c, X: c.shift(1, fill_value=None))
    A('fillna', '0', lambda c, X: c.fillna(0))
    A('fillna', 'str', lambda c, X: c.fillna('x'))
    A('fillna', 'series', lambda c, X: c.fillna(X.twin.iloc[::-1]))
    A('fillna', 'array', lambda c, X: c.fillna(np.zeros(len(c))))
    A('fillna_forward', '1', lambda c, X: c.fillna_forward(1))
    A('fillna_backward', '1', lambda c, X: c.fillna_backward(1))
    A('fillna_leading', '0', lambda c, X: c.fillna_leading(0))
    A('fillna_trailing', '0', lambda c, X: c.fillna_trailing(0))
    A('isin', 'tuple', lambda c, X: c.isin((1, 'a', True, 4)))
    A('isin', 'values', lambda c, X: c.isin(c.values))
    A('isin', 'empty', lambda c, X: c.isin(()))
    A('isin', 'gen', lambda c, X: c.isin(x for x in (1.5, None)))
    A('clip', 'lower', lambda c, X: c.clip(lower=0))
    A('clip', 'upper', lambda c, X: c.clip(upper=1))
    A('clip', 'series', lambda c, X: c.clip(lower=c, upper=c))
    A('clip', 'small', lambda c, X: c.clip(lower=X.small))
    for nm in ('duplicated', 'drop_duplicated'):
        A(nm, 'exclude_first', lambda c, X, nm=nm: getattr(c, nm)(exclude_first=True))
        A(nm, 'exclude_last', lambda c, X, nm=nm: getattr(c, nm)(exclude_last=True))
    A('get', 'r0', lambda c, X: c.get(r0(c)))
    A('get', 'missing', lambda c, X: c.get('missing', 0))
    A('items', 'list', lambda c, X: list(c.items()))
    A('keys', 'list', lambda c, X: list(c.keys()))
    A('iloc_searchsorted', 'scalar', lambda c, X: c.iloc_searchsorted(1))
    A('iloc_searchsorted', 'array', lambda c, X: c.iloc_searchsorted(c.values, side_left=False))
    A('loc_searchsorted', 'scalar', lambda c, X: c.loc_searchsorted(1))
    A('loc_searchsorted', 'array', lambda c, X: c.loc_searchsorted(c.values, fill_value=None))
    A('to_frame', 'axis0', lambda c, X: c.to_frame(axis=0))
    A('to_frame_go', 'axis0', lambda c, X: c.to_frame_go(axis=0))
    A('to_frame', 'bad_axis', lambda c, X: c.to_frame(axis=3))
    for nm in ('insert_before', 'insert_after'):
        A(nm, 'small', lambda c, X, nm=nm: getattr(c, nm)(r0(c), X.small.relabel(lambda x: ('ins', x))))
        A(nm, 'missing', lambda c, X, nm=nm: getattr(c, nm)('missing', X.small))
        A(nm, 'dup', lambda c, X, nm=nm: getattr(c, nm)(r0(c), X.twin))
    o.extend(_iter_variants('iter_element', [('', lambda c: ((), {}))]))
    o.extend(_iter_variants('iter_element_items', [('', lambda c: ((), {}))]))
    o.extend(_iter_variants('iter_group', [('', lambda c: ((), {}))]))
    o.extend(_iter_variants('iter_group_items', [('', lambda c: ((), {}))]))
    gl = [('d0', lambda c: ((0,), {})), ('d1', lambda c: ((1,), {})), ('none', lambda c: ((), {}))]
    o.extend(_iter_variants('iter_group_labels', gl))
    o.extend(_iter_variants('iter_group_labels_items', gl[:1]))
    win = [('s2', lambda c: ((), dict(size=2))), ('s2_unsized', lambda c: ((), dict(size=2, step=2, window_sized=False, label_shift=-1))),
           ('s2_func', lambda c: ((), dict(size=2, window_func=_ones_ro)))]
    for nm in ('iter_window', 'iter_window_items', 'iter_window_array', 'iter_window_array_items'):
        o.extend(_iter_variants(nm, win))
    A('ctor', 'Series', lambda c, X: sf.Series(c))
    A('ctor', 'SeriesHE', lambda c, X: sf.SeriesHE(c))
    A('ctor', 'Series_values_own_index', lambda c, X: sf.Series(c.values, index=c.index, own_index=True))
    A('ctor', 'Series_dtype', lambda c, X: sf.Series(c.values, index=c.index, dtype=object))
    A('ctor', 'from_concat', lambda c, X: sf.Series.from_concat((c, X.twin), index=sf.IndexAutoFactory))
    A('ctor', 'from_concat_single', lambda c, X: sf.Series.from_concat((c,)))
    A('ctor', 'from_concat_items', lambda c, X: sf.Series.from_concat_items((('a', c), ('b', X.twin))))
    A('ctor', 'from_overlay', lambda c, X: sf.Series.from_overlay((c, X.twin.iloc[::-1])))
    A('ctor', 'from_items', lambda c, X: sf.Series.from_items(c.items()))
    A('ctor', 'from_dict', lambda c, X: sf.Series.from_dict(dict(c.items())))
    A('ctor', 'from_pandas', lambda c, X: sf.Series.from_pandas(c.to_pandas()))
    A('ctor', 'from_pandas_own', lambda c, X: sf.Series.from_pandas(c.to_pandas(), own_data=True))
    A('ctor', 'Frame_from_series', lambda c, X: sf.Frame.from_series(c))
    A('ctor', 'Frame_from_concat', lambda c, X: sf.Frame.from_concat((c, X.twin), axis=1, columns=('a', 'b')))
    A('ctor', 'Frame_from_items', lambda c, X: sf.Frame.from_items((('a', c), ('b', c.values))))
    A('ctor', 'FrameGO_setitem', lambda c, X: _go_set(c))
    A('ctor', 'Index_from_values', lambda c, X: sf.Index(c.values))
    A('ctor', 'Index_from_series', lambda c, X: sf.Index(c))
    A('index.values.setitem', '', lambda c, X: c.index.values.__setitem__(0, c.index.values[-1]))
    A('index.positions.setitem', '', lambda c, X: c.index.positions.__setitem__(0, 9))
    A('iloc.values.setitem', '', lambda c, X: c.iloc[:2].values.__setitem__(0, c.values[-1]))
    A('iter_window_array.setitem', '', lambda c, X: [a.__setitem__(0, a[-1]) for a in c.iter_window_array(size=2)])
    return o


def _go_set(c):
    import static_frame as sf
    g = sf.FrameGO(index=c.index)
    g['a'] = c
    g['b'] = c.values
    g.extend(c.rename('c'))
    return g


def ops_index(fam):
    import static_frame as sf
    o = []
    A = lambda r, v, f: o.append((r, v, f))
    l0 = lambda c: lab(c, 0)
    A('loc', 'elem', lambda c, X: c.loc[l0(c)])
    A('loc', 'list', lambda c, X: c.loc[[l0(c)]])
    A('loc', 'slice', lambda c, X: c.loc[l0(c):])
    A('loc', 'missing', lambda c, X: c.loc['missing'])
    A('loc', 'bool', lambda c, X: c.loc[np.arange(len(c)) % 2 == 0])
    A('loc', 'all', lambda c, X: c.loc[:])
    A('loc', 'hloc', lambda c, X: c.loc[sf.HLoc[l0(c)[0]]])
    A('__getitem__', 'int', lambda c, X: c[0])
    A('__getitem__', 'slice', lambda c, X: c[1:])
    A('__getitem__', 'all', lambda c, X: c[:])
    A('__getitem__', 'list', lambda c, X: c[[0, -1]])
    A('__getitem__', 'oob', lambda c, X: c[7])
    for v, k in (('first', 0), ('rev', slice(None, None, -1)), ('list', [0]), ('oob', 7), ('empty', slice(0, 0)), ('all', slice(None)), ('none', None)):
        A('iloc', v, lambda c, X, k=k: c.iloc[k])
    A('iloc', 'arr', lambda c, X: c.iloc[np.array([0, -1])])
    A('loc_to_iloc', 'elem', lambda c, X: c.loc_to_iloc(l0(c)))
    A('loc_to_iloc', 'list', lambda c, X: c.loc_to_iloc(labs(c)[::-1]))
    A('loc_to_iloc', 'slice', lambda c, X: c.loc_to_iloc(slice(l0(c), None)))
    A('loc_to_iloc', 'missing', lambda c, X: c.loc_to_iloc('missing'))
    A('loc_to_iloc', 'bool', lambda c, X: c.loc_to_iloc(np.arange(len(c)) % 2 == 0))
    A('loc_to_iloc', 'series', lambda c, X: c.loc_to_iloc(sf.Series(labs(c)[:1], dtype=object)))
    A('loc_to_iloc', 'index', lambda c, X: c.loc_to_iloc(c[:2]))
    A('loc_to_iloc', 'iloc', lambda c, X: c.loc_to_iloc(sf.ILoc[-1]))
    if fam == 'Index':
        A('drop.iloc', 'first', lambda c, X: c.drop.iloc[0])
        A('drop.iloc', 'list', lambda c, X: c.drop.iloc[[0, -1]])
        A('drop.iloc', 'oob', lambda c, X: c.drop.iloc[9])
        A('drop.loc', 'elem', lambda c, X: c.drop.loc[l0(c)])
        A('drop.loc', 'missing', lambda c, X: c.drop.loc['missing'])
        for dt in (object, float, str, int, 'datetime64[D]', 'datetime64[Y]'):
            A('astype', str(dt), lambda c, X, dt=dt: c.astype(dt))
        A('to_series', '', lambda c, X: c.to_series())
        A('ctor', 'Index', lambda c, X: sf.Index(c))
        A('ctor', 'IndexGO', lambda c, X: sf.IndexGO(c))
        A('ctor', 'IndexGO_append', lambda c, X: _idx_go_append(c))
        A('ctor', 'Index_values', lambda c, X: sf.Index(c.values))
        A('ctor', 'Index_dtype', lambda c, X: sf.Index(c, dtype=object))
        A('ctor', 'from_labels', lambda c, X: type(c).from_labels(c.values))
        A('ctor', 'from_pandas', lambda c, X: sf.Index.from_pandas(c.to_pandas()))
        A('ctor', 'IH_from_product', lambda c, X: sf.IndexHierarchy.from_product(c, ('p', 'q')))
        A('ctor', 'IH_from_index_items', lambda c, X: sf.IndexHierarchy.from_index_items((('a', c), ('b', c))))
        A('ctor', 'Series_index_own', lambda c, X: sf.Series(np.arange(len(c)), index=c, own_index=True))
        A('ctor', 'Frame_index_columns', lambda c, X: sf.Frame(np.zeros((len(c), len(c))), index=c, columns=c))
        A('ctor', 'FrameGO_columns_grow', lambda c, X: _fgo_columns_grow(c))
    else:
        for dt in (object, str, float):
            A('astype', str(dt), lambda c, X, dt=dt: c.astype(dt))
        A('astype.__getitem__', '0', lambda c, X: c.astype[0](object))
        A('astype.__getitem__', 'slice', lambda c, X: c.astype[1:](str))
        A('level_drop', '1', lambda c, X: c.level_drop(1))
        A('level_drop', '-1', lambda c, X: c.level_drop(-1))
        A('level_drop', 'depth', lambda c, X: c.level_drop(c.depth))
        A('rehierarch', '10', lambda c, X: c.rehierarch((1, 0)))
        A('rehierarch', 'rev', lambda c, X: c.rehierarch(tuple(range(c.depth))[::-1]))
        A('rehierarch', 'bad', lambda c, X: c.rehierarch((0, 0)))
        A('ctor', 'IH', lambda c, X: sf.IndexHierarchy(c))
        A('ctor', 'IHGO', lambda c, X: sf.IndexHierarchyGO(c))
        A('ctor', 'IHGO_append', lambda c, X: _ih_go_append(c))
        A('ctor', 'from_labels', lambda c, X: sf.IndexHierarchy.from_labels(c.values))
        A('ctor', 'from_labels_iter', lambda c, X: sf.IndexHierarchy.from_labels(iter(c), index_constructors=c.index_types.values))
        A('ctor', 'from_pandas', lambda c, X: sf.IndexHierarchy.from_pandas(c.to_pandas()))
        A('ctor', 'from_tree', lambda c, X: sf.IndexHierarchy.from_tree({'a': (1, 2), 'b': (1,)}))
        A('ctor', 'from_names', lambda c, X: sf.IndexHierarchy.from_names(c.names))
        A('ctor', 'from_labels_delimited', lambda c, X: sf.IndexHierarchy.from_labels_delimited([' '.join(map(str, l)) for l in c]))
        A('ctor', 'Series_index_own', lambda c, X: sf.Series(np.arange(len(c)), index=c, own_index=True))
        A('ctor', 'Frame_columns_own', lambda c, X: sf.Frame(np.zeros((1, len(c))), columns=c, own_columns=True))
        A('ctor', 'to_frame_set_index_hierarchy', lambda c, X: c.to_frame().set_index_hierarchy([0, 1], drop=True).index)
        A('index_types.values.setitem', '', lambda c, X: c.index_types.values.__setitem__(0, None))
        A('dtypes.values.setitem', '', lambda c, X: c.dtypes.values.__setitem__(0, None))
        A('values_at_depth.setitem', '', lambda c, X: c.values_at_depth(0).__setitem__(0, c.values_at_depth(0)[-1]))
        A('values_at_depth', 'list', lambda c, X: c.values_at_depth([0, 1]))
        A('label_widths_at_depth', '1', lambda c, X: list(c.label_widths_at_depth(1)))
        A('unique', 'list', lambda c, X: c.unique([0, 1]))
    A('values_at_depth', '0', lambda c, X: c.values_at_depth(0))
    A('values_at_depth', 'oob', lambda c, X: c.values_at_depth(5))
    A('label_widths_at_depth', '0', lambda c, X: list(c.label_widths_at_depth(0)))
    A('unique', '0', lambda c, X: c.unique(0))
    A('unique', '1', lambda c, X: c.unique(1))
    A('copy', 'method', lambda c, X: c.copy())
    A('fillna', '0', lambda c, X: c.fillna(0))
    A('fillna', 'str', lambda c, X: c.fillna('x'))
    A('isin', 'labels', lambda c, X: c.isin(labs(c)[:1]))
    A('isin', 'values', lambda c, X: c.isin(c.values))
    A('isin', 'empty', lambda c, X: c.isin(()))
    A('isin', 'scalar_members', lambda c, X: c.isin((1, 'a')))
    for nm in ('union', 'intersection', 'difference'):
        A(nm, 'self', lambda c, X, nm=nm: getattr(c, nm)(c))
        A(nm, 'twin', lambda c, X, nm=nm: getattr(c, nm)(X.twin))
        A(nm, 'small', lambda c, X, nm=nm: getattr(c, nm)(X.small))
        A(nm, 'rev', lambda c, X, nm=nm: getattr(c, nm)(c.iloc[::-1]))
        A(nm, 'values', lambda c, X, nm=nm: getattr(c, nm)(c.values[:1]))
        A(nm, 'list', lambda c, X, nm=nm: getattr(c, nm)(labs(c)[1:] + [l0(c)]))
        A(nm, 'empty', lambda c, X, nm=nm: getattr(c, nm)(c.iloc[:0]))
    A('union', 'many', lambda c, X: c.union(X.twin, c.iloc[:1], c.iloc[::-1]))
    A('intersection', 'many', lambda c, X: c.intersection(X.twin, c.iloc[:2]))
    A('level_add', 'L', lambda c, X: c.level_add('L'))
    A('relabel', 'func', lambda c, X: c.relabel(lambda x: str(x) + '_'))
    A('relabel', 'dict', lambda c, X: c.relabel({l0(c): 'renamed' if c.depth == 1 else ('re', 'named', 'x')[:c.depth]}))
    A('relabel', 'collide', lambda c, X: c.relabel(lambda x: 0))
    A('rename', 'name', lambda c, X: c.rename('other'))
    A('rename', 'tuple', lambda c, X: c.rename(('p', 'q')))
    A('rename', 'none', lambda c, X: c.rename(None))
    A('rename', 'unhashable', lambda c, X: c.rename([1]))
    for k in (1, -1, 5):
        A('roll', str(k), lambda c, X, k=k: c.roll(k))
    A('sort', 'desc', lambda c, X: c.sort(ascending=False))
    A('sort', 'key', lambda c, X: c.sort(key=lambda i: i.values))
    A('sort', 'key_index', lambda c, X: c.sort(key=lambda i: i))
    A('iloc_searchsorted', 'elem', lambda c, X: c.iloc_searchsorted(l0(c)))
    A('iloc_searchsorted', 'values', lambda c, X: c.iloc_searchsorted(c.values, side_left=False))
    A('loc_searchsorted', 'elem', lambda c, X: c.loc_searchsorted(l0(c)))
    A('loc_searchsorted', 'values', lambda c, X: c.loc_searchsorted(c.values, fill_value=None))
    o.extend(_iter_variants('iter_label', [('', lambda c: ((), {})), ('d0', lambda c: ((0,), {})), ('d01', lambda c: (([0, 1],), {}))]))
    A('positions.setitem', '', lambda c, X: c.positions.__setitem__(0, 9))
    A('mloc', 'read', lambda c, X: c.mloc)
    A('ctor', 'Series_index', lambda c, X: sf.Series(np.arange(len(c)), index=c))
    A('ctor', 'Frame_index', lambda c, X: sf.Frame(np.zeros((len(c), 1)), index=c))
    A('ctor', 'Frame_columns', lambda c, X: sf.FrameGO(np.zeros((1, len(c))), columns=c))
    A('ctor', 'reindex_frame', lambda c, X: sf.Frame(np.zeros((len(c), 1)), index=c).reindex(c.iloc[::-1], own_index=True))
    return o


def _idx_go_append(c):
    import static_frame as sf
    g = sf.IndexGO(c)
    g.append('appended')
    g.values
    g.extend(('e1', 'e2'))
    return g


def _ih_go_append(c):
    import static_frame as sf
    g = sf.IndexHierarchyGO(c)
    g.append(tuple(['appended'] + list(lab(c, 0))[1:]))
    g.values
    g.extend(sf.IndexHierarchy.from_labels([tuple(['e%d' % i] * c.depth) for i in range(2)]))
    return g


def _fgo_columns_grow(c):
    import static_frame as sf
    g = sf.FrameGO(np.zeros((1, len(c))), columns=c)
    g['appended'] = 1
    if not c.STATIC:  # handing a grow-only index over with own_columns=True transfers it by the caller's own request
        return g
    g2 = sf.FrameGO(np.zeros((1, len(c))), columns=c, own_columns=True)
    g2['appended'] = 1
    return g, g2


# ---------------------------------------------------------------------------------------------
# mechanical enumeration of the public interface

GROWTH = {'append', 'extend', 'extend_items'}
_CATALOGUE = {}


def catalogue(spec):
    """full list of (root, variant, fn) for the subject's class: every public name from dir() (called without
    arguments when callable) + the argument tables + common operators/protocols"""
    import static_frame as sf
    import inspect
    cls = getattr(sf, spec['cls'])
    fam = spec['fam']
    numeric = bool(spec['kinds']) and all(k in 'ifbu' for k in spec['kinds'])
    if (cls, numeric) in _CATALOGUE:
        return _CATALOGUE[(cls, numeric)]
    o = []
    tabled = {'Frame': ops_frame, 'Series': ops_series}.get(fam, lambda: ops_index(fam))()
    for n in sorted(dir(cls)):
        if n.startswith('_') or n in SKIP_NAMES or n in GROWTH:
            continue
        static_attr = inspect.getattr_static(cls, n)
        if isinstance(static_attr, (classmethod, staticmethod)) or n.startswith('from_'):
            continue  # constructors: see 'ctor' variants and the caller-held-array cases
        if n == 'to_html_datatables':
            continue  # default show=True opens a browser; called with show=False in ops_common

        def call(c, X, n=n):
            a = getattr(c, n)
            if callable(a) and not isinstance(a, type):
                return a()
            return a
        o.append((n, 'default', call))
    o.extend(tabled)
    o.extend(ops_common())
    o.extend(ops_via(fam))
    # NumPy's object-dtype matmul loop corrupts memory when an element product raises (reproduced with plain ndarrays:
    # np.matmul(a.T, a) for a = np.array([[4, 'b'], [-2, 'aa'], [1, '']], dtype=object) segfaults after a few calls), so matrix
    # multiplication is only exercised where every operand is numeric
    mm = ('__matmul__', '__rmatmul__', '__imatmul__')
    o = [x for x in o if x[0] not in mm or (numeric and x[1] in ('scalar', 'rscalar', 'self', 'twin', 'array', 'T', ''))]
    if not cls.STATIC:  # growth through __setitem__ is the legitimate mutator of FrameGO (covered by C09)
        o = [x for x in o if x[0] not in ('__setitem__',)]
    keys = set()
    for r, v, _ in o:
        assert (r, v) not in keys, (r, v)
        keys.add((r, v))
    _CATALOGUE[(cls, numeric)] = o
    return o


def derived_ops():
    """operations applied to containers RETURNED by an operation (second step of a history)"""
    import static_frame as sf

    def grow(d):
        if isinstance(d, sf.Frame):
            g = d.to_frame_go()
            g['__new__'] = 1
            g.extend(sf.Series(np.arange(len(d.index)), index=d.index, name='__new2__'))
            return g
        if isinstance(d, sf.Series):
            g = d.to_frame_go()
            g['__new__'] = 1
            return g
        if isinstance(d, sf.IndexHierarchy):
            g = sf.IndexHierarchyGO(d)
            g.append(tuple(['__new__'] * d.depth))
            return g
        g = sf.IndexGO(d)
        g.append('__new__')
        return g

    def grow_in_place(d):
        """when the derived container is itself grow-only, growing it must not reach the (static) source"""
        if isinstance(d, sf.FrameGO):
            d['__new__'] = 1
            d.columns.values
            return d
        if isinstance(d, (sf.IndexGO,)):
            d.append('__new__')
            return d
        return None

    return [
        ('values_write', lambda d: d.values.__setitem__(0, d.values[-1])),
        ('grow', grow),
        ('grow_in_place', grow_in_place),
        ('rev', lambda d: d.iloc[::-1]),
        ('sort', lambda d: d.sort_index(ascending=False) if hasattr(d, 'sort_index') else d.sort(ascending=False)),
        ('astype_obj', lambda d: d.astype(object)),
        ('add', lambda d: d + d),
        ('neg', lambda d: -d),
        ('fillna', lambda d: d.fillna(0)),
        ('pickle', lambda d: pickle.loads(pickle.dumps(d))),
        ('deepcopy', lambda d: copy.deepcopy(d)),
        ('relabel', lambda d: d.relabel(lambda x: (x, 1)) if not isinstance(d, sf.Frame) else d.relabel(columns=lambda x: (x, 1))),
        ('labels_write', lambda d: (d.index if hasattr(d, 'index') else d).values.__setitem__(0, 0)),
        ('round', lambda d: round(d, 1)),
        ('iter_write', lambda d: [a.__setitem__(0, a[-1]) for a in d.iter_array(axis=1)] if isinstance(d, sf.Frame) else [a.__setitem__(0, 0) for a in d.iter_window_array(size=1)]),
    ]


ROUNDTRIP_ROOTS = {'pickle', 'deepcopy', 'copy'}


def subj_arrays(live):
    out = []
    for _, c in live:
        out.extend(reachable_arrays(c))
    return out


DERIVED_ROOT = {'round': '__round__', 'pickle': 'pickle', 'deepcopy': 'deepcopy', 'add': '__add__', 'neg': '__neg__', 'rev': 'iloc', 'astype_obj': 'astype'}


def check_result(rep, res, tail, what, rp, live_arrays, skip_bare=False, roundtrip=False):
    """contract (b) on a result; returns (n_arrays, containers).  One failure per result: the first writeable array."""
    arrays, conts = [], []
    collect(res, arrays, conts)
    n = 0
    clean = True
    for path, a in arrays:
        if path == 'pandas':  # array obtained from a pandas object: not required to be read-only, but must not alias
            if a.flags.writeable and a.size and any(np.shares_memory(a, s) for s in live_arrays):
                k = 'C01:pandas-result-aliases-writeable:' + tail
                rep.fail(k, f'{what}: the pandas result exposes a writeable array sharing memory with a live container', dict(rp, key=k))
            continue
        if skip_bare and path == 'ndarray':
            continue
        n += 1
        if a.flags.writeable:
            shares = bool(a.size) and any(np.shares_memory(a, s) for s in live_arrays)
            k = f'C01:roundtrip-writeable:{path}' if roundtrip else f'C01:result-writeable:{tail}:{path}'
            msg = (f'{what}: ndarray at {path} reachable from the result is writeable (shape {a.shape}, dtype {a.dtype})'
                   f'{" and SHARES MEMORY with a live input container (write-through)" if shares else ""}')
            if shares and k in rep.failures and 'SHARES MEMORY' not in rep.failures[k]['what']:
                del rep.failures[k]  # prefer the aliased witness for the same key
            rep.fail(k, msg, dict(rp, key=k))
            clean = False
            break
    return len(arrays), conts, clean


def eval_case(rep, spec, c, X, snaps, op, thorough, dcounter, only_derived=None):
    """evaluate one (subject, operation) pair; returns True when the live containers are still intact"""
    root, variant, fn = op
    fam = spec['fam']
    tail = f'{fam}.{root}'
    rp = dict(kind='op', spec=spec, op=[root, variant])
    what = f'{spec["cls"]}[{spec["kinds"]!r} rows={spec["rows"]} layout={spec.get("layout")} index={spec.get("index")}] . {root}({variant})'
    raised = None
    res = None
    try:
        res = fn(c, X)
    except Exception as e:  # observation: failing calls are part of the quantifier
        raised = e
    except BaseException as e:  # SystemExit etc. from the operation: still an observation
        raised = e
    live_arrays = subj_arrays(X.live)
    n_arr, conts, clean = check_result(rep, res, tail, what, rp, live_arrays, skip_bare=(root in ('np', 'ufunc') or variant == 'rarray'),
                                roundtrip=root in ROUNDTRIP_ROOTS)
    # (d) round trips
    if root in ROUNDTRIP_ROOTS and variant != 'memo':
        ok = raised is None and type(res) is type(c) and snap(res) == snaps[0][0]
        rep.check(ok, f'C01:roundtrip:{tail}', f'{what}: round trip does not reproduce class/content ({raised!r})', dict(rp, key=f'C01:roundtrip:{tail}'))
    intact = True
    for (role, L), before in zip(X.live, snaps):
        try:
            after = state(L)
        except Exception as e:
            after = ('unreadable', repr(e))
        if after != before:
            intact = False
            k = 'C01:mutated:' + tail if after[0] != before[0] else 'C01:flag-changed:' + tail
            rep.fail(k, f'{what}: live container "{role}" differs after the call (raised={raised!r}): before {str(before)[:300]} after {str(after)[:300]}', dict(rp, key=k))
    nontrivial = (raised is None and n_arr > 0) or (raised is not None and getattr(c, 'size', len(c)) > 0)
    rep.count(distinct_key=(repr(spec), root, variant) if nontrivial else None,
              sample=dict(subject=spec, op=f'{root}({variant})', raised=type(raised).__name__ if raised else None, arrays_checked=n_arr))
    # second step: operations on containers derived from the subject
    conts = [d for d in conts if not any(d is L for _, L in X.live)]
    if intact and conts and clean:  # follow-up steps only on results that passed (no cascades)
        dops = derived_ops()
        if only_derived is not None:
            chosen = [d for d in dops if d[0] == only_derived]
        elif thorough:
            chosen = dops
        else:
            chosen = [dops[(dcounter[0] + j) % len(dops)] for j in range(2)]
            dcounter[0] += 2
        d = conts[0]
        if not type(c).STATIC:  # a grow-only subject may legitimately hand out its own grow-only parts (columns, shallow copies)
            chosen = [x for x in chosen if x[0] != 'grow_in_place']
        for dname, dfn in chosen:
            draised = None
            dres = None
            try:
                dres = dfn(d)
            except Exception as e:
                draised = e
            dtail = f'{fam_of(d)}.{DERIVED_ROOT.get(dname, "derived." + dname)}'
            drp = dict(rp, derived=dname)
            dn, _, _ = check_result(rep, dres, dtail, f'{what} -> result.{dname}', drp, live_arrays, roundtrip=dname in ROUNDTRIP_ROOTS)
            for (role, L), before in zip(X.live, snaps):
                try:
                    after = state(L)
                except Exception as e:
                    after = ('unreadable', repr(e))
                if after != before:
                    intact = False
                    k = f'C01:mutated-via-derived:{tail}->{dname}'
                    rep.fail(k, f'{what}: live container "{role}" changed after {dname} on the returned {type(d).__name__} (raised={draised!r}): before {str(before)[:300]} after {str(after)[:300]}', dict(drp, key=k))
            rep.count(distinct_key=(repr(spec), root, variant, dname) if (draised is None and dn > 0) else None)
            if not intact:
                break
    return intact


# ---------------------------------------------------------------------------------------------
# (c) caller-held arrays

ALT = {
    'i': lambda a: a + 100, 'u': lambda a: a + 1, 'f': lambda a: np.full(a.shape, 7.25), 'b': lambda a: ~a,
    'U': lambda a: np.full(a.shape, 'zz', dtype=a.dtype), 'O': lambda a: np.full(a.shape, 'changed', dtype=object),
    'M': lambda a: np.full(a.shape, np.datetime64('1999-09-09'), dtype=a.dtype), 'm': lambda a: np.full(a.shape, np.timedelta64(77, 'D'), dtype=a.dtype),
    'c': lambda a: np.full(a.shape, 9j), 'S': lambda a: np.full(a.shape, b'zz', dtype=a.dtype),
}


class Src:
    """hands out caller-held arrays.  mode 'own': the array owns its buffer; 'view': a full view of a writeable base;
    'strided': every second element of a base twice as long.  The caller later writes through the base."""

    def __init__(self, kind, mode):
        self.kind, self.mode, self.bases, self.given = kind, mode, [], []

    def _base(self, n, unique):
        src = (UVALS if unique else VALS)[self.kind]()
        reps = -(-n // len(src))
        a = np.concatenate([src] * reps)[:n] if n else src[:0]
        if unique and n > len(src):
            raise ValueError('no unique values')
        return a.copy()

    def a1(self, n=3, unique=False):
        if self.mode == 'strided':
            v = self._base(n, unique)
            base = np.empty(2 * n, dtype=v.dtype)
            base[::2] = v
            base[1::2] = v
            out = base[::2]
        else:
            base = self._base(n, unique)
            out = base if self.mode == 'own' else base[:]
        self.bases.append(base)
        self.given.append(out)
        return out

    def a2(self, r=3, c=2):
        cols = [self._base(r, False) if j % 2 == 0 else self._base(r, False)[::-1].copy() for j in range(c)]
        full = np.column_stack(cols) if r else np.empty((0, c), dtype=cols[0].dtype)
        if self.mode == 'strided':
            base = np.empty((r, 2 * c), dtype=full.dtype)
            base[:, ::2] = full
            base[:, 1::2] = full
            out = base[:, ::2]
        elif self.mode == 'view':
            base = np.asfortranarray(full)
            out = base[:]
        else:
            base, out = full, full
        self.bases.append(base)
        self.given.append(out)
        return out

    def scribble(self):
        for b in self.bases:
            if b.dtype.names:
                for n in b.dtype.names:
                    b[n] = ALT[self.kind](b[n])
            else:
                b[...] = ALT[self.kind](b)


def ctor_table():
    import static_frame as sf
    from static_frame.core.type_blocks import TypeBlocks
    from static_frame.core.array_go import ArrayGO
    R = ('r1', 'r0', 'r2')
    t = {}

    def reg(name):
        def deco(f):
            t[name] = f
            return f
        return deco
    reg('Series')(lambda s: sf.Series(s.a1()))
    reg('Series.index')(lambda s: sf.Series(s.a1(), index=s.a1(unique=True)))
    reg('Series.name_dtype')(lambda s: sf.Series(s.a1(), index=R, name='n', dtype=s.given[0].dtype))
    reg('SeriesHE')(lambda s: sf.SeriesHE(s.a1(), index=R))
    reg('Series.from_items')(lambda s: sf.Series.from_items(zip(R, s.a1())))
    reg('Series.from_concat')(lambda s: sf.Series.from_concat((s.a1(), s.a1()), index=sf.IndexAutoFactory))
    reg('Series.assign.iloc')(lambda s: sf.Series((0, 0, 0), index=R).assign.iloc[:](s.a1()))
    reg('Series.assign.loc_part')(lambda s: sf.Series((0, 0, 0, 0), index=tuple('abcd')).assign.loc['b':](s.a1()))
    reg('Series.relabel')(lambda s: sf.Series((0, 0, 0)).relabel(s.a1(unique=True)))
    reg('Series.reindex')(lambda s: sf.Series((0, 0, 0), index=s._base(3, True)).reindex(s.a1(unique=True)))
    reg('Series.fillna')(lambda s: sf.Series((NAN, NAN, NAN)).fillna(s.a1()))
    reg('Series.binary')(lambda s: sf.Series((0, 0, 0)) == s.a1())
    reg('Series.loc_bool')(lambda s: sf.Series((1, 2, 3)).loc[s.a1()])
    reg('Index')(lambda s: sf.Index(s.a1(unique=True)))
    reg('Index.name')(lambda s: sf.Index(s.a1(unique=True), name='n'))
    reg('IndexGO')(lambda s: sf.IndexGO(s.a1(unique=True)))
    reg('IndexGO.extend')(lambda s: _igo_extend(s))
    reg('Index.from_labels')(lambda s: sf.Index.from_labels(s.a1(unique=True)))
    reg('IndexDate')(lambda s: sf.IndexDate(s.a1(unique=True)))
    reg('IndexYearMonth')(lambda s: sf.IndexYearMonth(s.a1(unique=True)))
    reg('Index.union')(lambda s: sf.Index(s._base(2, True)).union(s.a1(unique=True)))
    reg('Index.relabel_values')(lambda s: sf.Index(('a', 'b', 'c')).loc[s.a1()])
    reg('IndexHierarchy.from_labels')(lambda s: sf.IndexHierarchy.from_labels(s.a2(3, 2)))
    reg('IndexHierarchy.from_product')(lambda s: sf.IndexHierarchy.from_product(s.a1(unique=True), s.a1(2, unique=True)))
    reg('IndexHierarchy.from_index_items')(lambda s: sf.IndexHierarchy.from_index_items((('a', sf.Index(s.a1(unique=True))), ('b', sf.Index(s.a1(unique=True))))))
    reg('IndexHierarchyGO.extend')(lambda s: _ihgo_extend(s))
    reg('IndexHierarchy.level_add')(lambda s: sf.Index(s.a1(unique=True)).level_add('L'))
    reg('Frame')(lambda s: sf.Frame(s.a2()))
    reg('Frame.labels')(lambda s: sf.Frame(s.a2(), index=s.a1(unique=True), columns=s.a1(2, unique=True)))
    reg('Frame.1d')(lambda s: sf.Frame(s.a1(), columns=('x',)))
    reg('Frame.rows0')(lambda s: sf.Frame(s.a2(0, 2), columns=s.a1(2, unique=True)))
    reg('FrameGO')(lambda s: sf.FrameGO(s.a2(), columns=('x', 'y')))
    reg('FrameHE')(lambda s: sf.FrameHE(s.a2(), index=R))
    reg('Frame.own_data_false')(lambda s: sf.Frame(s.a2(), own_data=False, name='n'))
    reg('Frame.from_records')(lambda s: sf.Frame.from_records(s.a2()))
    reg('Frame.from_records_rows')(lambda s: sf.Frame.from_records([s.a1(), s.a1()]))
    reg('Frame.from_items')(lambda s: sf.Frame.from_items(zip('xy', (s.a1(), s.a1()))))
    reg('Frame.from_items_index')(lambda s: sf.Frame.from_items(zip('xy', (s.a1(), s.a1())), index=s.a1(unique=True)))
    reg('Frame.from_dict')(lambda s: sf.Frame.from_dict(dict(x=s.a1(), y=s.a1()), index=R))
    reg('Frame.from_fields')(lambda s: sf.Frame.from_fields((s.a1(), s.a1()), columns=('x', 'y')))
    reg('Frame.from_concat_arrays')(lambda s: sf.Frame.from_concat((s.a2(), s.a2()), index=sf.IndexAutoFactory))
    reg('Frame.from_concat_arrays1')(lambda s: sf.Frame.from_concat((s.a2(), s.a2()), axis=1, columns=sf.IndexAutoFactory))
    reg('Frame.from_element_labels')(lambda s: sf.Frame.from_element(0, index=s.a1(unique=True), columns=s.a1(2, unique=True)))
    reg('Frame.from_structured_array')(lambda s: _structured(s))
    reg('Frame.from_pandas')(lambda s: _from_pandas(s, False))
    reg('Series.from_pandas')(lambda s: _series_from_pandas(s, False))
    reg('Frame.TypeBlocks')(lambda s: sf.Frame(TypeBlocks.from_blocks((s.a1(), s.a2())), own_data=True))
    reg('TypeBlocks.from_blocks_1d')(lambda s: TypeBlocks.from_blocks(s.a1()))
    reg('TypeBlocks.from_blocks_2d')(lambda s: TypeBlocks.from_blocks(s.a2()))
    reg('TypeBlocks.from_blocks_iter')(lambda s: TypeBlocks.from_blocks(iter((s.a1(), s.a2(), s.a2(3, 1)))))
    reg('TypeBlocks.append')(lambda s: _tb_append(s))
    reg('TypeBlocks.extend')(lambda s: _tb_extend(s))
    reg('FrameGO.__setitem__')(lambda s: _fgo(s, 'set'))
    reg('FrameGO.__setitem__.after_values')(lambda s: _fgo(s, 'set_after_values'))
    reg('FrameGO.extend_series')(lambda s: _fgo(s, 'extend_series'))
    reg('FrameGO.extend_frame')(lambda s: _fgo(s, 'extend_frame'))
    reg('FrameGO.extend_items')(lambda s: _fgo(s, 'extend_items'))
    reg('FrameGO.empty_setitem')(lambda s: _fgo(s, 'empty_set'))
    reg('Frame.assign.col')(lambda s: sf.Frame.from_dict(dict(x=(0, 0, 0), y=(1., 2., 3.))).assign['x'](s.a1()))
    reg('Frame.assign.iloc_block')(lambda s: sf.Frame(np.zeros((3, 3))).assign.iloc[:, 1:](s.a2()))
    reg('Frame.assign.iloc_all')(lambda s: sf.Frame(np.zeros((3, 2))).assign.iloc[:, :](s.a2()))
    reg('Frame.assign.bloc')(lambda s: sf.Frame(np.zeros((3, 2))).assign.bloc[np.ones((3, 2), dtype=bool)](s.a2()))
    reg('Frame.relabel')(lambda s: sf.Frame(np.zeros((3, 2))).relabel(index=s.a1(unique=True), columns=s.a1(2, unique=True)))
    reg('Frame.reindex')(lambda s: sf.Frame(np.zeros((3, 2)), index=s._base(3, True)).reindex(index=s.a1(unique=True)))
    reg('Frame.insert_after')(lambda s: sf.Frame(np.zeros((3, 2)), columns=('x', 'y')).insert_after('x', sf.Series(s.a1(), name='z')))
    reg('Frame.fillna')(lambda s: sf.Frame(np.full((3, 2), NAN)).fillna(sf.Frame(s.a2())))
    reg('Frame.binary')(lambda s: sf.Frame(np.zeros((3, 2))) == s.a2())
    reg('Frame.bloc')(lambda s: sf.Frame(np.arange(6).reshape(3, 2)).bloc[s.a2()])
    reg('Frame.clip')(lambda s: sf.Frame(np.zeros((3, 2))).clip(lower=sf.Frame(s.a2())))
    reg('Frame.set_index_array')(lambda s: sf.Frame(s.a2(), columns=('x', 'y')).set_index('x', drop=True))
    # python iterables (no caller array): every array created on the way in must be frozen.  Evaluated once (kind i, mode own).
    def it(name, f):
        def g(s):
            if (s.kind, s.mode) != ('i', 'own'):
                raise _Skip()
            return f()
        t['iterable.' + name] = g
    it('Series.range', lambda: sf.Series(range(3)))
    it('Series.range_dtype', lambda: sf.Series(range(3), dtype=float))
    it('Series.list', lambda: sf.Series([1, 2, 3]))
    it('Series.list_mixed', lambda: sf.Series([1, 'a', None]))
    it('Series.tuples', lambda: sf.Series([(1, 2), (3, 4)], dtype=object))
    it('Series.gen', lambda: sf.Series(x for x in (1.5, 2.5)))
    it('Series.gen_dtype', lambda: sf.Series((x for x in (1, 2)), dtype=np.int64))
    it('Series.empty', lambda: sf.Series(()))
    it('Series.empty_dtype', lambda: sf.Series((), dtype=str))
    it('Series.str', lambda: sf.Series.from_element('abc', index=range(2)))
    it('Series.element', lambda: sf.Series.from_element(5, index=('a', 'b')))
    it('Series.element_index_range', lambda: sf.Series.from_element(5, index=range(3)))
    it('Series.dict', lambda: sf.Series.from_dict(dict(a=1, b=2)))
    it('Series.set', lambda: sf.Series({3, 4}))
    it('Series.bigint', lambda: sf.Series([2 ** 70, 1], dtype=int))
    it('Index.range', lambda: sf.Index(range(3)))
    it('Index.list', lambda: sf.Index(['a', 'b']))
    it('Index.gen', lambda: sf.Index(x for x in 'ab'))
    it('Index.tuples', lambda: sf.Index([(1, 2), (3, 4)]))
    it('Index.empty', lambda: sf.Index(()))
    it('Index.dict_keys', lambda: sf.Index(dict(a=1, b=2).keys()))
    it('Index.loc_is_iloc', lambda: sf.Index(range(3), loc_is_iloc=True))
    it('IndexGO.range_append', lambda: _igo_range())
    it('IndexDate.strings', lambda: sf.IndexDate(('2020-01-01', '2020-01-02')))
    it('IndexDate.range', lambda: sf.IndexDate.from_date_range('2020-01-01', '2020-01-04'))
    it('IndexYear.range', lambda: sf.IndexYear.from_year_range('2020', '2022'))
    it('IH.from_labels_list', lambda: sf.IndexHierarchy.from_labels([('a', 1), ('a', 2), ('b', 1)]))
    it('IH.from_labels_gen', lambda: sf.IndexHierarchy.from_labels(x for x in [('a', 1), ('b', 2)]))
    it('IH.from_product_range', lambda: sf.IndexHierarchy.from_product(range(2), ('a', 'b')))
    it('IH.from_tree', lambda: sf.IndexHierarchy.from_tree({'a': (1, 2), 'b': (1,)}))
    it('IH.from_labels_delimited', lambda: sf.IndexHierarchy.from_labels_delimited(("'a' 1", "'b' 2")))
    it('IH.from_labels_empty', lambda: sf.IndexHierarchy.from_labels((), depth_reference=2))
    it('IH.reorder', lambda: sf.IndexHierarchy.from_labels([('b', 1), ('a', 2), ('b', 2)], reorder_for_hierarchy=True))
    it('Frame.records_lists', lambda: sf.Frame.from_records([[1, 'a'], [2, 'b']], columns=range(2)))
    it('Frame.records_gen', lambda: sf.Frame.from_records((x for x in [(1, 'a'), (2, 'b')]), index=range(2)))
    it('Frame.dict_records', lambda: sf.Frame.from_dict_records([dict(a=1, b=2.5), dict(a=3, b=None)]))
    it('Frame.dict_lists', lambda: sf.Frame.from_dict(dict(a=[1, 2], b=range(2))))
    it('Frame.items_gen', lambda: sf.Frame.from_items((k, (i, i + 1)) for i, k in enumerate('ab')))
    it('Frame.element', lambda: sf.Frame.from_element('x', index=range(2), columns=('a', 'b')))
    it('Frame.elements', lambda: sf.Frame.from_elements([1, 2, 3]))
    it('Frame.element_items', lambda: sf.Frame.from_element_items(((('a', 'x'), 1), (('b', 'y'), 2)), index=('a', 'b'), columns=('x', 'y'), dtype=object))
    it('Frame.from_series', lambda: sf.Frame.from_series(sf.Series((1, 2), name='a')))
    it('Frame.empty', lambda: sf.Frame(index=range(2), columns=()))
    it('Frame.csv', lambda: sf.Frame.from_csv(io.StringIO('i,a,b\n0,1,x\n1,2,y'), index_depth=1))
    it('Frame.tsv_dtypes', lambda: sf.Frame.from_tsv(io.StringIO('a\tb\n1\tx\n2\ty'), dtypes=dict(a=float)))
    it('Frame.json', lambda: sf.Frame.from_json('[{"a": 1, "b": "x"}, {"a": 2, "b": "y"}]'))
    it('Frame.sqlite_roundtrip', lambda: _sqlite_roundtrip())
    it('FrameGO.setitem_range', lambda: _fgo_iter())
    it('Frame.from_concat_series', lambda: sf.Frame.from_concat((sf.Series((1, 2), name='a'), sf.Series((3, 4), name='b'))))
    it('Frame.from_overlay', lambda: sf.Frame.from_overlay((sf.Frame.from_element(NAN, index=range(2), columns=('a',)), sf.Frame.from_element(1, index=range(2), columns=('a',)))))
    it('Frame.pivot', lambda: sf.Frame.from_records([('a', 'x', 1), ('a', 'y', 2), ('b', 'x', 3)], columns=('p', 'q', 'v')).pivot('p', 'q', 'v'))
    it('Bus.frames', lambda: tuple(sf.Bus.from_frames((sf.Frame.from_element(1, index=range(2), columns=('a',), name='f1'),)).values))
    reg('ArrayGO')(lambda s: ArrayGO(s.a1().astype(object) if False else np.asarray(s.a1(), dtype=object)))
    reg('ArrayGO.own')(lambda s: _arraygo(s))
    return t


class _Skip(Exception):
    pass


def _igo_range():
    import static_frame as sf
    g = sf.IndexGO(range(3))
    g.append(3)
    g.values
    g.extend(range(4, 6))
    return g


def _fgo_iter():
    import static_frame as sf
    g = sf.FrameGO(index=range(3))
    g['r'] = range(3)
    g['l'] = [1.5, 2.5, 3.5]
    g['g'] = (x for x in 'abc')
    g['s'] = 'scalar'
    g['t'] = ((1, 2), (3, 4), (5, 6))
    return g


def _sqlite_roundtrip():
    import static_frame as sf
    import tempfile
    import os
    d = tempfile.mkdtemp(prefix='c01_', dir='/var/tmp')
    fp = os.path.join(d, 't.sqlite')
    try:
        sf.Frame.from_records([(1, 'a'), (2, 'b')], columns=('x', 'y'), name='t').to_sqlite(fp, label='t')
        return sf.Frame.from_sqlite(fp, label='t', index_depth=1)
    finally:
        if os.path.exists(fp):
            os.remove(fp)
        os.rmdir(d)


def _igo_extend(s):
    import static_frame as sf
    g = sf.IndexGO(s._base(1, True)[:0])
    g.extend(s.a1(unique=True))
    return g


def _ihgo_extend(s):
    import static_frame as sf
    g = sf.IndexHierarchyGO.from_labels([('q', 'q')])
    g.extend(sf.IndexHierarchy.from_product(s.a1(unique=True), s.a1(2, unique=True)))
    return g


def _structured(s):
    import static_frame as sf
    a = s.a1()
    sa = np.empty(len(a), dtype=[('x', a.dtype), ('y', a.dtype)])
    sa['x'] = a
    sa['y'] = a
    s.bases.append(sa)
    s.given.append(sa)
    return sf.Frame.from_structured_array(sa)


def _from_pandas(s, own):
    import static_frame as sf
    import pandas as pd
    df = pd.DataFrame(s.a2(), copy=False)
    return sf.Frame.from_pandas(df, own_data=own)


def _series_from_pandas(s, own):
    import static_frame as sf
    import pandas as pd
    ps = pd.Series(s.a1(), copy=False)
    return sf.Series.from_pandas(ps, own_data=own)


def _tb_append(s):
    from static_frame.core.type_blocks import TypeBlocks
    tb = TypeBlocks.from_blocks(np.zeros((3, 1)))
    tb.append(s.a1())
    tb.append(s.a2())
    return tb


def _tb_extend(s):
    from static_frame.core.type_blocks import TypeBlocks
    tb = TypeBlocks.from_blocks(np.zeros((3, 1)))
    tb.extend((s.a1(), s.a2()))
    return tb


def _arraygo(s):
    from static_frame.core.array_go import ArrayGO
    g = ArrayGO(np.asarray(s.a1(), dtype=object), own_iterable=False)
    g.append('x')
    return g


def _fgo(s, how):
    import static_frame as sf
    R = ('r1', 'r0', 'r2')
    g = sf.FrameGO(np.zeros((3, 1)), index=R, columns=('base',))
    if how == 'set':
        g['n'] = s.a1()
        g[('t', 1)] = s.a1()
    elif how == 'set_after_values':
        g.values
        g.columns.values
        g['n'] = s.a1()
        g.values
    elif how == 'extend_series':
        g.extend(sf.Series(s.a1(), index=R, name='n'))
    elif how == 'extend_frame':
        g.extend(sf.Frame(s.a2(), index=R, columns=('n', 'm')))
    elif how == 'extend_items':
        g.extend_items((('n', sf.Series(s.a1(), index=R)), ('m', sf.Series(s.a1(), index=R))))
    elif how == 'empty_set':
        g = sf.FrameGO(index=R)
        g['n'] = s.a1()
    return g


def ctor_cases(tier):
    kinds = 'ifbUOM' if tier == 'quick' else 'ifbUOMmcSu'
    for name in ctor_table():
        for kind in kinds:
            for mode in ('own', 'view', 'strided'):
                yield dict(kind='ctor', ctor=name, akind=kind, mode=mode)


def eval_ctor(rep, case):
    name, kind, mode = case['ctor'], case['akind'], case['mode']
    s = Src(kind, mode)
    raised = None
    try:
        c = ctor_table()[name](s)
    except _Skip:
        return
    except Exception as e:  # e.g. dtype not accepted by this constructor: failing call, nothing to observe
        raised, c = e, None
    rp = dict(case)
    if c is None:
        rep.count()
        return
    tail = f'{name}'
    what = f'{name} from a caller-held {mode} array of kind {kind}'
    arrays, conts = [], []
    collect(c, arrays, conts)
    from static_frame.core.array_go import ArrayGO
    if isinstance(c, ArrayGO):
        arrays.append(('ArrayGO.values', c.values))
    for path, a in arrays:
        if path != 'pandas' and a.flags.writeable:
            rep.fail(f'C01:ctor-writeable:{tail}', f'{what}: the container exposes a writeable array at {path}', dict(rp, key=f'C01:ctor-writeable:{tail}'))
    before = state(c)
    given_flags = [g.flags.writeable for g in s.given]
    try:
        s.scribble()
        wrote = True
    except ValueError:
        wrote = False  # the caller's own array was frozen in place
    rep.check(wrote and all(given_flags), f'C01:ctor-froze-caller-array:{tail}',
              f'{what}: the caller\'s array (or its base) was made read-only in place instead of being copied', dict(rp, key=f'C01:ctor-froze-caller-array:{tail}'))
    after = state(c)
    rep.check(before == after, f'C01:ctor-caller-write-visible:{tail}',
              f'{what}: writing to the caller\'s array changed the container: before {str(before)[:300]} after {str(after)[:300]}', dict(rp, key=f'C01:ctor-caller-write-visible:{tail}'))
    rep.count(distinct_key=(name, kind, mode) if (s.given or arrays) else None, sample=dict(ctor=name, kind=kind, mode=mode))


# ---------------------------------------------------------------------------------------------

def run_subject(rep, spec, thorough, only=None, only_derived=None):
    try:
        c = build(spec)
        X = make_ctx(spec, c)
        snaps = [state(L) for _, L in X.live]
        ops = catalogue(spec)
    except Exception:
        rep.error(f'building subject {spec}')
        return
    dcounter = [0]
    for op in ops:
        if only is not None and [op[0], op[1]] != list(only):
            continue
        try:
            intact = eval_case(rep, spec, c, X, snaps, op, thorough, dcounter, only_derived)
        except Exception:
            rep.error(f'harness, subject {spec} op {op[0]}({op[1]})')
            intact = False
        if not intact:  # continue with fresh containers so that one violation does not cascade
            try:
                c = build(spec)
                X = make_ctx(spec, c)
                snaps = [state(L) for _, L in X.live]
            except Exception:
                rep.error(f'rebuilding subject {spec}')
                return


def cases(tier):
    """one case = one subject with its full catalogue + a slice of the (cheap) caller-held-array cases"""
    subs = subjects(tier)
    ctors = list(ctor_cases(tier))
    per = len(ctors) // max(1, len(subs)) + 1
    it = iter(ctors)
    for spec in subs:
        yield dict(spec=spec, ctors=list(itertools.islice(it, per)))
    rest = list(it)
    assert not rest


def run(repo, task):
    import warnings
    tier = task.get('tier', 'quick')
    thorough = tier != 'quick'
    rep = Report('C01-immutability', task,
                 rule='a case is one (generated container, public operation) pair, one (returned container, follow-up operation) pair, or one '
                      '(constructor, array kind, ownership mode) triple; non-trivial when the call returned and >= 1 ndarray was reachable from the '
                      'result (flags checked), or it raised on a non-empty container (frame condition after failure), or a caller-held array was consumed',
                 bound=('Frame/FrameHE/FrameGO <= 3 columns x 3 rows' if not thorough else 'Frame/FrameHE/FrameGO <= 4 columns x 3 rows') +
                       ', all dtype-safe block layouts (all for kinds if/ff, first+last for other 2-column kinds and every third for 3 columns in quick), Series/SeriesHE, Index/IndexDate/IndexYearMonth/IndexGO, '
                       'IndexHierarchy depth <= 3; dtype kinds ' + ('ifbUOM' if not thorough else 'ifbUOMmcSu') +
                       '; flat/auto/int/date/hierarchical labels; 0-sized shapes; every public name from dir() + argument tables '
                       '(see catalogue()); follow-up operations on results: ' + ('all 15' if thorough else '2 of 15, rotating') +
                       '; iterators consumed up to 48 items',
                 budget_s=38 if not thorough else 570)
    with warnings.catch_warnings():
        warnings.simplefilter('ignore')
        old = np.seterr(all='ignore')
        try:
            for case in rep.shard(cases(tier)):
                run_subject(rep, case['spec'], thorough)
                for cc in case['ctors']:
                    try:
                        eval_ctor(rep, cc)
                    except Exception:
                        rep.error(f'harness, ctor case {cc}')
        finally:
            np.seterr(**old)
    return rep.done()


def replay(repo, rp):
    import warnings
    key = rp.get('key')
    rep = Report('C01-replay', dict(tier='thorough'), rule='', bound='')
    with warnings.catch_warnings():
        warnings.simplefilter('ignore')
        old = np.seterr(all='ignore')
        try:
            if rp.get('kind') == 'ctor':
                eval_ctor(rep, {k: rp[k] for k in ('kind', 'ctor', 'akind', 'mode')})
            else:
                run_subject(rep, rp['spec'], True, only=rp['op'], only_derived=rp.get('derived', '__none__'))
        finally:
            np.seterr(**old)
    hit = [f for f in rep.failures.values() if key is None or f['key'] == key]
    if rep.errors:
        return dict(outcome='error', detail=rep.errors)
    return dict(outcome='fail' if hit else 'pass', failures=[dict(key=f['key'], what=f['what'][:600]) for f in hit])
