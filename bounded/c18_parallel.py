"""C18 bounded stand-in: parallel execution gives the same answer as sequential execution.

Contract (run-time, real package):  for every iterator interface offering apply_pool (Series / Frame / Index / Bus),
   delegate.apply_pool(f, max_workers=w, chunksize=c, use_threads=t)  ==  delegate.apply(f)
   == the container built from  [(k, f(v)) for k, v in <items form of the same iterator>]   (independent reference)
-- same labels, same order, each result paired with the label of its input -- where f sleeps for a delay keyed by its
*input* so that the n <= 4 tasks complete in every one of the n! orders (threads; worker processes in the thorough tier and
a small sample in the quick tier).  A task that raises must make apply_pool raise.  The same contract for
Batch(max_workers=w, chunksize=c, use_threads=t) operations vs the sequential Batch, and for zip stores written / read with
config workers vs without (identical archive members in identical order; equal Frames in request order).
"""
from __future__ import annotations
import itertools
import os
import tempfile
import time
import numpy as np
from .common import Report, snapshot

PID = 'C18'

# state read by the task functions; set before a pool is created (worker processes inherit it through fork)
DELAYS = {}
RAISE = set()
UNIT = 0.002


class TaskError(ValueError):
    pass


def _norm(x):
    if isinstance(x, np.generic):
        return x.item()
    if isinstance(x, tuple):
        return tuple(_norm(i) for i in x)
    return x


def sig(v):
    """canonical, injective text for an iterator value"""
    import static_frame as sf
    if isinstance(v, np.ndarray):
        return 'A' + repr(v.tolist())
    if isinstance(v, sf.Series):
        return 'S' + repr((v.index.values.tolist(), v.values.tolist()))
    if isinstance(v, sf.Frame):
        return 'F' + repr((v.index.values.tolist(), v.columns.values.tolist(), v.values.tolist()))
    if isinstance(v, tuple):
        return 'T' + repr(tuple(_norm(x) for x in v))
    return 'E' + repr(_norm(v))


def _work(v):
    s = sig(v)
    d = DELAYS.get(s, 0)
    if d:
        time.sleep(d)
    if s in RAISE:
        raise TaskError(s)
    return s


def task_values(v):
    return _work(v)


def task_items(*args):
    # sequential apply on an items iterator calls f(k, v); the pool form calls f((k, v))
    k, v = args if len(args) == 2 else args[0]
    return repr(_norm(k)) + '=>' + _work(v)


class OtherTaskError(Exception):
    """an exception the caller of apply_except did NOT ask to be silenced"""


RAISE_OTHER = set()


def frame_task(f):
    """Batch task: delay keyed by the Frame's content, result is a Frame that identifies its input"""
    s = sig(f)
    d = DELAYS.get(s, 0)
    if d:
        time.sleep(d)
    if s in RAISE_OTHER:
        raise OtherTaskError(s)
    if s in RAISE:
        raise TaskError(s)
    return f * 2 + f.shape[0]


def frame_task_items(label, f):
    g = frame_task(f)
    return g.rename(f'{label}!')


def frame_to_series_task(f):
    s = sig(f)
    d = DELAYS.get(s, 0)
    if d:
        time.sleep(d)
    if s in RAISE:
        raise TaskError(s)
    return f.sum(axis=0) + f.shape[0]


# ---------------------------------------------------------------------------------------------
# containers and interfaces

def containers(n):
    """n = number of tasks every interface below yields"""
    import static_frame as sf
    labs = ['ld', 'la', 'lc', 'lb', 'le'][:n]
    labs1 = ['ld', 'la', 'lc', 'lb', 'le'][:n + 1]
    c = {}
    c['s'] = sf.Series([30, 10, 40, 20, 50][:n], index=labs, name='s')
    c['s1'] = sf.Series([30, 10, 40, 20, 50][:n + 1], index=labs1, name='s1')
    c['sh'] = sf.Series(np.arange(2 * n) * 7, index=sf.IndexHierarchy.from_product(labs, ('u', 'v')), name='sh')
    c['f'] = sf.Frame(np.array([[3, 8], [1, 9], [4, 6], [2, 7], [5, 0]][:n]), index=labs, columns=('p', 'q'), name='f')
    c['f1'] = sf.Frame(np.array([[3, 8], [1, 9], [4, 6], [2, 7], [5, 0]][:n + 1]), index=labs1, columns=('p', 'q'), name='f1')
    c['ft'] = c['f'].T
    c['fe'] = sf.Frame(np.array([[3], [1], [4], [2]][:n]), index=labs, columns=('p',), name='fe')
    c['fh'] = sf.Frame(np.arange(4 * n).reshape(2 * n, 2), index=sf.IndexHierarchy.from_product(labs, ('u', 'v')), columns=('p', 'q'), name='fh')
    c['ix'] = sf.Index(labs, name='ix')
    c['bus'] = sf.Bus.from_frames([sf.Frame(np.arange(4).reshape(2, 2) + 10 * i, index=('r', 't'), columns=('p', 'q'), name=l) for i, l in enumerate(labs)])
    return c


def interfaces():
    """name -> (container key, values-form delegate getter, items-form delegate getter, which form is under test)"""
    out = {}

    def add(name, ckey, attr, kw, items_attr=None):
        items_attr = items_attr or attr + '_items'
        out[name] = (ckey, attr, kw, items_attr, 'values')
        out[name + '_items'] = (ckey, items_attr, kw, items_attr, 'items')

    add('series.iter_element', 's', 'iter_element', {})
    add('series.iter_group', 's', 'iter_group', {})
    add('series.iter_group_labels', 'sh', 'iter_group_labels', dict(depth_level=0))
    add('series.iter_window', 's1', 'iter_window', dict(size=2))
    add('series.iter_window_array', 's1', 'iter_window_array', dict(size=2))
    add('frame.iter_array1', 'f', 'iter_array', dict(axis=1))
    add('frame.iter_array0', 'ft', 'iter_array', dict(axis=0))
    add('frame.iter_tuple1', 'f', 'iter_tuple', dict(axis=1))
    add('frame.iter_tuple0', 'ft', 'iter_tuple', dict(axis=0))
    add('frame.iter_tuple1_plain', 'f', 'iter_tuple', dict(axis=1, constructor=tuple))
    add('frame.iter_series1', 'f', 'iter_series', dict(axis=1))
    add('frame.iter_series0', 'ft', 'iter_series', dict(axis=0))
    add('frame.iter_group', 'f', 'iter_group', dict(key='p'))
    add('frame.iter_group1', 'ft', 'iter_group', dict(key='p', axis=1))
    add('frame.iter_group_labels', 'fh', 'iter_group_labels', dict(depth_level=0))
    add('frame.iter_window', 'f1', 'iter_window', dict(size=2))
    add('frame.iter_window_array', 'f1', 'iter_window_array', dict(size=2))
    add('frame.iter_element', 'fe', 'iter_element', {})
    add('bus.iter_element', 'bus', 'iter_element', {})
    out['index.iter_label'] = ('ix', 'iter_label', {}, None, 'values')
    return out


def _pairs_of(result):
    """(label, value) pairs, in order, of an apply result"""
    import static_frame as sf
    if isinstance(result, sf.Series):
        return [(_norm(k), v) for k, v in zip(result.index.values.tolist() if result.index.depth == 1 else map(tuple, result.index.values.tolist()), result.values.tolist())]
    if isinstance(result, sf.Frame):
        return [((_norm(i), _norm(c)), result.loc[i, c]) for i in result.index.values.tolist() for c in result.columns.values.tolist()]
    if isinstance(result, np.ndarray):
        return [(i, v) for i, v in enumerate(result.tolist())]
    return [('?', repr(result))]


def _canon(result):
    if isinstance(result, np.ndarray):
        return ('ndarray', str(result.dtype), tuple(result.tolist()))
    return snapshot(result)


def _run_isolated(case):
    """evaluate one process-pool interface case in a child interpreter; -> 'OK' | 'EXC:<type>:<text>' | 'TIMEOUT' | other text"""
    import subprocess, sys
    code = ('import sys; sys.path[:0] = %r\n'
            'from bounded import c18_parallel as m\n'
            'm._isolated_main(%r)\n') % ([p_ for p_ in sys.path if p_], dict(case, _isolated=True))
    try:
        r = subprocess.run([sys.executable, '-c', code], capture_output=True, text=True, timeout=90, cwd=os.path.dirname(os.path.dirname(os.path.abspath(__file__))))
    except subprocess.TimeoutExpired:
        return 'TIMEOUT'
    lines = [l for l in r.stdout.splitlines() if l.startswith('RESULT ')]
    return lines[-1][7:] if lines else f'no result (exit {r.returncode}): {r.stderr[-300:]}'


def _isolated_main(case):
    class _Sink:
        def __init__(self):
            self.out = 'OK'

        def count(self, **kw):
            pass

        def fail(self, key, what, rp=None):
            self.out = 'KEY:' + key + '|' + what[:400]

        def error(self, what):
            self.out = 'ERR ' + what
    sink = _Sink()
    try:
        eval_iface(sink, case, {})
    except Exception as e:
        sink.out = 'ERR ' + repr(e)
    print('RESULT ' + sink.out.replace('\n', ' '), flush=True)
    os._exit(0)      # never wait for pool threads of a wedged executor


def eval_iface(rep, case, cache):
    import static_frame as sf
    n = case['n']
    if n not in cache:
        cache[n] = (containers(n), interfaces())
    conts, ifaces = cache[n]
    ckey, attr, kw, items_attr, form = ifaces[case['iface']]
    cont = conts[ckey]
    task = task_values if form == 'values' else task_items
    # reference: items of the iterator, evaluated independently of apply/apply_pool (no delays, no pool)
    DELAYS.clear()
    RAISE.clear()
    if items_attr is not None:
        items = list(getattr(cont, items_attr)(**kw))
    else:
        items = list(enumerate(getattr(cont, attr)(**kw)))
    if len(items) != n and not (ckey == 'fe'):
        raise RuntimeError(f'interface {case["iface"]} yields {len(items)} tasks, expected {n}')
    sigs = [sig(v) for _, v in items]
    if len(set(sigs)) != len(sigs):
        raise RuntimeError('task inputs are not distinct')
    want_pairs = [(_norm(k), (sigs[i] if form == 'values' else repr(_norm(k)) + '=>' + sigs[i])) for i, (k, _) in enumerate(items)]
    if items_attr is None:
        want_pairs = [(i, s) for i, (_, s) in enumerate(want_pairs)]
    perm = case['perm']
    rp = dict(case)
    tag = 'threads' if case['threads'] else 'processes'
    rep.count(distinct_key=(case['iface'], n, tuple(perm), case['w'], case['c'], case['threads'], case.get('raise_at')),
              sample=dict(case))
    delegate = lambda: getattr(cont, attr)(**kw)
    pool_kw = dict(max_workers=case['w'], chunksize=case['c'], use_threads=case['threads'])
    if not case['threads'] and not case.get('_isolated'):
        # task inputs that cannot be pickled make CPython 3.12's process pool take its queue-feeder error path, which can dead-lock the calling
        # interpreter for good (seen here: main thread in concurrent.futures.process weakref_cb, manager thread joining the feeder).  Such a case is
        # still evaluated, but in a child interpreter with a time limit, so that the checker itself always returns.
        import pickle
        try:
            for _, v_ in items:
                pickle.dumps(v_)
            picklable = True
        except Exception:
            picklable = False
        if not picklable:
            out = _run_isolated(case)
            if out.startswith('KEY:'):
                key_, _, what_ = out[4:].partition('|')
                rep.fail(key_, what_ + ' [evaluated in a child interpreter]', rp)
            elif out == 'TIMEOUT':
                rep.fail(f'{PID}:apply_pool:{tag}:raises-PicklingError', f'{case["iface"]}: apply_pool with task inputs that cannot be pickled did not return within 90 s (child interpreter killed)', rp)
            elif out != 'OK':
                rep.error(f'isolated evaluation of {case}: {out[:200]}')
            return
    if case.get('raise_at') is not None:
        RAISE.add(sigs[case['raise_at']])
        for i, s in enumerate(sigs):
            DELAYS[s] = perm[i] * UNIT
        try:
            try:
                r = delegate().apply_pool(task, **pool_kw)
            finally:
                RAISE.clear()
                DELAYS.clear()
            rep.fail(f'{PID}:apply_pool:{tag}:task-error-swallowed',
                     f'{case["iface"]}: task {case["raise_at"]} raised but apply_pool returned {_pairs_of(r)} (workers={case["w"]}, chunksize={case["c"]})', rp)
        except TaskError:
            pass
        except Exception as e:
            # any exception is "surfacing as an error"; a pool-infrastructure error is still an error
            if type(e).__name__ == 'PicklingError':
                # the pool failed before any task ran (inputs cannot cross the process boundary): the recorded PicklingError class, not a replaced task error
                rep.fail(f'{PID}:apply_pool:{tag}:raises-PicklingError', f'{case["iface"]}: apply_pool raised {e!r} (workers={case["w"]}, chunksize={case["c"]})', rp)
            elif type(e).__name__ not in ('BrokenProcessPool',) and 'TaskError' not in repr(e):
                rep.fail(f'{PID}:apply_pool:{tag}:task-error-replaced-{type(e).__name__}',
                         f'{case["iface"]}: task raised TaskError but apply_pool raised {e!r}', rp)
        return
    try:
        seq = delegate().apply(task)
    except Exception as e:
        rep.fail(f'{PID}:apply:{case["iface"].split(".")[0]}:raises-{type(e).__name__}', f'{case["iface"]}: sequential apply raised {e!r}', rp)
        return
    for i, s in enumerate(sigs):
        DELAYS[s] = perm[i] * UNIT
    try:
        try:
            par = delegate().apply_pool(task, **pool_kw)
        finally:
            DELAYS.clear()
    except Exception as e:
        rep.fail(f'{PID}:apply_pool:{tag}:raises-{type(e).__name__}', f'{case["iface"]}: apply_pool raised {e!r} (workers={case["w"]}, chunksize={case["c"]})', rp)
        return
    got_pairs = _pairs_of(par)
    if ckey == 'fe' and form == 'items':
        pass
    if got_pairs != want_pairs and not (isinstance(par, sf.Frame)):
        gl, wl = [k for k, _ in got_pairs], [k for k, _ in want_pairs]
        if gl != wl:
            kind = 'shorter-result' if len(gl) < len(wl) else 'labels-or-order'
        else:
            kind = 'result-paired-with-wrong-label'
        rep.fail(f'{PID}:apply_pool:{tag}:{kind}', f'{case["iface"]}: apply_pool gives {got_pairs}, reference {want_pairs} (workers={case["w"]}, chunksize={case["c"]}, delays by input {perm})', rp)
    elif _canon(par) != _canon(seq):
        rep.fail(f'{PID}:apply_pool:{tag}:differs-from-apply', f'{case["iface"]}: apply_pool {str(_canon(par))[:300]} != apply {str(_canon(seq))[:300]} (workers={case["w"]}, chunksize={case["c"]})', rp)
    if isinstance(par, sf.Frame):
        # Frame.iter_element[_items]: element-wise reference
        want = {(_norm(i), _norm(c)): (sig(cont.loc[i, c]) if form == 'values' else repr((_norm(i), _norm(c))) + '=>' + sig(cont.loc[i, c]))
                for i in cont.index.values.tolist() for c in cont.columns.values.tolist()}
        if dict(got_pairs) != want or [k for k, _ in got_pairs] != list(want):
            rep.fail(f'{PID}:apply_pool:{tag}:result-paired-with-wrong-label', f'{case["iface"]}: apply_pool gives {got_pairs}, reference {want}', rp)


def cases_iface(tier):
    quick = tier == 'quick'
    names = list(interfaces())
    for n in (1, 2, 3, 4):
        perms = list(itertools.permutations(range(n)))
        for iface in names:
            for perm in perms:
                for w in (1, 2, 3, 4) if quick else (1, 2, 3, 4, 8):
                    if quick and n == 4 and w == 3 and perm[0] % 2:
                        continue
                    for c in sorted({1, n + 1}) if quick else range(1, n + 2):
                        yield dict(area='iface', iface=iface, n=n, perm=list(perm), w=w, c=c, threads=True)
            # a raising task at every position
            for pos in range(n):
                for w in (1, 2, 4):
                    perm = list(range(n))[::-1] if w != 2 else list(range(n))
                    yield dict(area='iface', iface=iface, n=n, perm=perm, w=w, c=1 if w != 4 else n + 1, threads=True, raise_at=pos)
    # worker processes
    for n in (2, 3) if quick else (1, 2, 3, 4):
        perms = list(itertools.permutations(range(n)))
        for k, iface in enumerate(names):
            if quick:
                combos = [(perms[-1], 2, 1 + (k % 2))] if (n + k) % 2 == 0 else []
            else:
                combos = [(p, w, c) for p in (perms if n <= 3 else perms[::5]) for w in (1, 2, 4, 8) for c in range(1, n + 2)]
            for perm, w, c in combos:
                yield dict(area='iface', iface=iface, n=n, perm=list(perm), w=w, c=c, threads=False)
            if not quick or (n == 3 and k % 6 == 0):
                for pos in (range(n) if not quick else (1,)):
                    yield dict(area='iface', iface=iface, n=n, perm=list(range(n))[::-1], w=2, c=2, threads=False, raise_at=pos)


# ---------------------------------------------------------------------------------------------
# Batch

def batch_frames(n):
    import static_frame as sf
    labs = ['bd', 'ba', 'bc', 'bb'][:n]
    return [(l, sf.Frame(np.arange(6).reshape(3, 2) * (i + 1) - 2 * i, index=('r', 's', 't'), columns=('p', 'q'), name='name-of-' + l)) for i, l in enumerate(labs)]     # the Batch label is NOT the frame's name


BATCH_OPS = {
    'apply': lambda b: b.apply(frame_task),
    'apply_items': lambda b: b.apply_items(frame_task_items),
    'apply_to_series': lambda b: b.apply(frame_to_series_task),
    'sum': lambda b: b.sum(),
    'iloc': lambda b: b.iloc[1:, :1],
    'loc_row': lambda b: b.loc['s'],
    'getitem': lambda b: b['q'],
    'mul': lambda b: b * 3,
    'apply_then_sum': lambda b: b.apply(frame_task).sum(),
    'iloc_then_apply': lambda b: b.iloc[::-1].apply(frame_task),
    'apply_except': lambda b: b.apply_except(frame_task, TaskError),
    'apply_items_except': lambda b: b.apply_items_except(frame_task_items, TaskError),
}

BATCH_REF = {
    'apply': lambda l, f: frame_task(f),
    'apply_items': lambda l, f: frame_task_items(l, f),
    'apply_to_series': lambda l, f: frame_to_series_task(f),
    'sum': lambda l, f: f.sum(),
    'iloc': lambda l, f: f.iloc[1:, :1],
    'loc_row': lambda l, f: f.loc['s'],
    'getitem': lambda l, f: f['q'],
    'mul': lambda l, f: f * 3,
    'apply_then_sum': lambda l, f: frame_task(f).sum(),
    'iloc_then_apply': lambda l, f: frame_task(f.iloc[::-1]),
    'apply_except': lambda l, f: frame_task(f),
    'apply_items_except': lambda l, f: frame_task_items(l, f),
}


def eval_batch(rep, case):
    import static_frame as sf
    n, op, perm = case['n'], case['op'], case['perm']
    items = batch_frames(n)
    if case.get('dup') and n >= 2:
        # a Batch does not require distinct labels: the last item carries the label of the first one (one result per INPUT is still due, in input order)
        items[-1] = (items[0][0], items[-1][1])
    tag = 'threads' if case['threads'] else 'processes'
    rp = dict(case)
    rep.count(distinct_key=(op, n, tuple(perm), case['w'], case['c'], case['threads'], case.get('raise_at'), case.get('raise_other_at'), case.get('dup')), sample=dict(case))
    DELAYS.clear()
    RAISE.clear()
    RAISE_OTHER.clear()
    raise_at = case.get('raise_at')
    raise_other_at = case.get('raise_other_at')
    excepting = op.endswith('except')
    # reference: {label: op(frame)} in label order (labels whose task raises are dropped by the *_except forms only)
    want = [(l, BATCH_REF[op](l, f)) for i, (l, f) in enumerate(items) if i != raise_at]
    try:
        for i, (l, f) in enumerate(items):
            # delays are keyed by the content of the Frame the task receives
            src = f.iloc[::-1] if op == 'iloc_then_apply' else f
            DELAYS[sig(src)] = perm[i] * UNIT
            if i == raise_at:
                RAISE.add(sig(src))
            if i == raise_other_at:
                RAISE_OTHER.add(sig(src))
        results = {}
        for mode, kw in (('seq', {}), ('pool', dict(max_workers=case['w'], chunksize=case['c'], use_threads=case['threads']))):
            if mode == 'seq':
                saved = dict(DELAYS)
                DELAYS.clear()
            try:
                b = BATCH_OPS[op](sf.Batch(iter(items), **kw))
                if case.get('export') == 'to_frame':
                    results[mode] = ('frame', b.to_frame())
                else:
                    results[mode] = ('items', list(b.items()))
            except TaskError as e:
                results[mode] = ('raised', 'TaskError')
            except NotImplementedError as e:
                results[mode] = ('not-implemented', str(e))
            except Exception as e:
                results[mode] = ('raised', type(e).__name__ + ':' + str(e)[:80]) if 'TaskError' not in repr(e) else ('raised', 'TaskError')
            if mode == 'seq':
                DELAYS.update(saved)
    finally:
        DELAYS.clear()
        RAISE.clear()
        RAISE_OTHER.clear()
    seq, par = results['seq'], results['pool']
    if par[0] == 'not-implemented':
        return          # documented restriction (apply_except with chunksize != 1)
    if raise_other_at is not None:
        # an exception of a class the caller did not ask to silence surfaces in both forms
        if par[0] != 'raised':
            rep.fail(f'{PID}:batch:{tag}:unrequested-exception-swallowed', f'Batch.{op}: task {raise_other_at} raised OtherTaskError (only TaskError is to be skipped) but the pooled Batch returned {str(par)[:300]}; sequential: {str(seq)[:120]}', rp)
        elif seq[0] != 'raised':
            rep.fail(f'{PID}:batch:sequential:unrequested-exception-swallowed', f'Batch.{op}: task {raise_other_at} raised OtherTaskError but the sequential Batch returned {str(seq)[:300]}', rp)
        return
    if raise_at is not None and not excepting:
        if par[0] != 'raised':
            rep.fail(f'{PID}:batch:{tag}:task-error-swallowed', f'Batch.{op}: task {raise_at} raised but the pooled Batch returned {str(par)[:300]}', rp)
        return
    if par[0] == 'raised' or seq[0] == 'raised':
        if par != seq:
            rep.fail(f'{PID}:batch:{tag}:raises', f'Batch.{op}: pooled {par} vs sequential {seq} (workers={case["w"]}, chunksize={case["c"]})', rp)
        return
    if par[0] == 'items':
        got = [(_norm(l), snapshot(v)) for l, v in par[1]]
        ref = [(l, snapshot(v)) for l, v in want]
        sq = [(_norm(l), snapshot(v)) for l, v in seq[1]]
        if got != ref:
            gl, wl = [l for l, _ in got], [l for l, _ in ref]
            kind = ('shorter-result' if len(gl) < len(wl) else 'labels-or-order') if gl != wl else 'result-paired-with-wrong-label'
            rep.fail(f'{PID}:batch:{tag}:{kind}', f'Batch.{op} pooled items {str(got)[:400]} != reference {str(ref)[:400]} (workers={case["w"]}, chunksize={case["c"]}, delays {perm})', rp)
        elif got != sq:
            rep.fail(f'{PID}:batch:{tag}:differs-from-sequential', f'Batch.{op} pooled != sequential', rp)
    else:
        if snapshot(par[1]) != snapshot(seq[1]):
            rep.fail(f'{PID}:batch:{tag}:to_frame-differs', f'Batch.{op}.to_frame() pooled {str(snapshot(par[1]))[:300]} != sequential {str(snapshot(seq[1]))[:300]}', rp)


def cases_batch(tier):
    quick = tier == 'quick'
    for n in (1, 2, 3, 4):
        perms = list(itertools.permutations(range(n)))
        for op in BATCH_OPS:
            delayed = 'apply' in op
            for perm in perms if delayed else perms[-1:]:
                for w in (1, 2, 3, 4) if not quick else (1, 2, 4):
                    for c in sorted({1, n + 1}) if quick else range(1, n + 2):
                        if quick and n == 4 and (perm[0] + w + c) % 2:
                            continue
                        for export in ('items', 'to_frame'):
                            if export == 'to_frame' and (quick and perm != perms[-1]):
                                continue
                            yield dict(area='batch', op=op, n=n, perm=list(perm), w=w, c=c, threads=True, export=export)
            if delayed:
                for pos in range(n):
                    for w in (1, 2, 4):
                        yield dict(area='batch', op=op, n=n, perm=list(range(n))[::-1], w=w, c=1, threads=True, raise_at=pos, export='items')
                        if op.endswith('except'):
                            yield dict(area='batch', op=op, n=n, perm=list(range(n))[::-1], w=w, c=1, threads=True, raise_other_at=pos, export='items')
                            if n >= 2:      # one task fails with the requested class, another with a different one
                                yield dict(area='batch', op=op, n=n, perm=list(range(n)), w=w, c=1, threads=True, raise_at=(pos + 1) % n, raise_other_at=pos, export='items')
    for n in (2, 3):             # repeated labels
        for op in BATCH_OPS:
            for w in (1, 2):
                yield dict(area='batch', op=op, n=n, perm=list(range(n)), w=w, c=1, threads=True, export='items', dup=True)
    for n in (3,) if quick else (1, 2, 3, 4):
        perms = list(itertools.permutations(range(n)))
        for k, op in enumerate(BATCH_OPS):
            if quick and k % 3:
                continue
            for perm in perms[-1:] if quick else perms[::3]:
                for w in (2,) if quick else (1, 2, 4, 8):
                    for c in (2,) if quick else range(1, n + 2):
                        yield dict(area='batch', op=op, n=n, perm=list(perm), w=w, c=c, threads=False, export='items')
            if 'apply' in op and not quick:
                yield dict(area='batch', op=op, n=n, perm=list(range(n))[::-1], w=2, c=1, threads=False, raise_at=n // 2, export='items')


# ---------------------------------------------------------------------------------------------
# zip stores with worker configuration

def store_frames(n):
    import static_frame as sf
    labs = ['zd', 'za', 'zc', 'zb'][:n]
    out = [sf.Frame(np.arange(2 * (i + 2)).reshape(i + 2, 2) + i, index=tuple('abcdefg'[:i + 2]), columns=('p', 'q'), name=l) for i, l in enumerate(labs)]
    if n >= 2:      # one member needs its OWN reader / writer options: a two-level index (index_depth=2 only for this label)
        f = out[1]
        out[1] = sf.Frame(f.values, index=sf.IndexHierarchy.from_labels([('g', k) for k in range(f.shape[0])]), columns=('p', 'q'), name=f.name)
    return out


def store_config(frames, **kw):
    import static_frame as sf
    # per-label options differ from the default (index_depth=1): reading a label with another label's / the default options shows
    return sf.StoreConfigMap({f.name: sf.StoreConfig(index_depth=f.index.depth, **kw) for f in frames}, default=sf.StoreConfig(index_depth=1, **kw))


def eval_store(rep, case, tmp):
    import zipfile
    import static_frame as sf
    from static_frame.core import store_zip
    cls = getattr(store_zip, case['store'])
    n, w, c = case['n'], case['w'], case['c']
    frames = store_frames(n)
    labels = [f.name for f in frames]
    order = [labels[i] for i in case['order']]
    rp = dict(case)
    rep.count(distinct_key=(case['store'], n, w, c, tuple(case['order'])), sample=dict(case))
    fp_seq = os.path.join(tmp, f'seq_{case["store"]}_{n}.zip')
    fp_par = os.path.join(tmp, f'par_{case["store"]}_{n}.zip')
    pickle_store = case['store'] == 'StoreZipPickle'
    cfg_seq = store_config(frames)
    cfg_par = store_config(frames, write_max_workers=w, write_chunksize=c, read_max_workers=w, read_chunksize=c)
    try:
        cls(fp_seq).write(((f.name, f) for f in frames), config=None if pickle_store else cfg_seq)
        cls(fp_par).write(((f.name, f) for f in frames), config=cfg_par)
        with zipfile.ZipFile(fp_seq) as za, zipfile.ZipFile(fp_par) as zb:
            na, nb = za.namelist(), zb.namelist()
            if na != nb:
                rep.fail(f'{PID}:store:write:labels-or-order', f'{case["store"]}.write with workers={w}, chunksize={c}: members {nb} vs sequential {na}', rp)
            elif not pickle_store and any(za.read(m) != zb.read(m) for m in na):
                bad = [m for m in na if za.read(m) != zb.read(m)]
                rep.fail(f'{PID}:store:write:content-under-wrong-label', f'{case["store"]}.write with workers: member {bad} differs from the sequential archive', rp)
        seq = list(cls(fp_seq).read_many(order, config=cfg_seq))
        par = list(cls(fp_par).read_many(order, config=cfg_par))
        cross = list(cls(fp_seq).read_many(order, config=cfg_par))
        ref = {f.name: f for f in frames}
        for route, got in (('parallel-written, parallel-read', par), ('sequential-written, parallel-read', cross)):
            if len(got) != len(order):
                rep.fail(f'{PID}:store:read_many:shorter-result', f'{case["store"]} {route}: {len(got)} Frames for {order}', rp)
                continue
            for l, g, s in zip(order, got, seq):
                if g.name != l or snapshot(g) != snapshot(s):
                    rep.fail(f'{PID}:store:read_many:frame-under-wrong-label', f'{case["store"]} {route} (workers={w}, chunksize={c}): position of {l!r} holds {g.name!r} / differs from sequential read', rp)
                    break
                if g.index.depth != ref[l].index.depth or g.shape != ref[l].shape:
                    rep.fail(f'{PID}:store:read_many:read-with-another-labels-options', f'{case["store"]} {route} (workers={w}, chunksize={c}): {l!r} came back with index depth {g.index.depth} and shape {g.shape}, written with depth {ref[l].index.depth} and shape {ref[l].shape}', rp)
                    break
                if pickle_store and snapshot(g) != snapshot(ref[l]):
                    rep.fail(f'{PID}:store:read_many:frame-differs-from-written', f'{case["store"]} {route}: {l!r} differs from the Frame written', rp)
                    break
        if case.get('missing'):
            try:
                got = list(cls(fp_par).read_many(order[:1] + ['no-such-label'] + order[1:], config=cfg_par))
                rep.fail(f'{PID}:store:read_many:task-error-swallowed', f'{case["store"]}: reading a missing label with workers returned {len(got)} Frames', rp)
            except Exception:
                pass
    except Exception as e:
        import traceback
        tb = traceback.extract_tb(e.__traceback__)
        if not any('static_frame' in fr.filename for fr in tb[1:]):
            raise
        rep.fail(f'{PID}:store:raises-{type(e).__name__}', f'{case["store"]} with workers={w}, chunksize={c} raised {e!r}', rp)
    finally:
        for p in (fp_seq, fp_par):
            if os.path.exists(p):
                os.remove(p)


def cases_store(tier):
    quick = tier == 'quick'
    for store in ('StoreZipPickle', 'StoreZipCSV', 'StoreZipTSV'):
        for n in (3,) if quick else (1, 2, 3, 4):
            orders = [list(range(n)), list(range(n))[::-1]] + ([] if quick or n < 3 else [[1, 0, 2] + list(range(3, n)), [n - 1, 0]])
            for w in (2,) if quick else (1, 2, 3, 4, 8):
                for c in (1, 2) if quick else range(1, n + 2):
                    for k, order in enumerate(orders):
                        if quick and (k + c) % 2 == 0:
                            continue
                        yield dict(area='store', store=store, n=n, w=w, c=c, order=order, missing=(k == 0 and c == 1) or (quick and store == 'StoreZipPickle'))


# ---------------------------------------------------------------------------------------------
# drivers

RULE = ('iface: 39 iterator interfaces (Series/Frame element, array, tuple, series, group, group_labels, window, window_array in values and '
        'items form, both axes; Index.iter_label; Bus.iter_element) x n in 1..4 tasks x every permutation of per-input delays (all n! completion '
        'orders when workers >= n) x max_workers x chunksize, + a raising task at every position; batch: 12 Batch operations (apply, apply_items, '
        'attribute ops, operators, chained depth 2, *_except) x the same schedule space, items() and to_frame(); store: zip pickle/csv/tsv write and '
        'read_many with worker config vs without.  Every case is non-trivial (>= 1 task executed)')


def _bound(tier):
    if tier == 'quick':
        return ('threads: max_workers 1..4, chunksize {1, n+1}, n <= 4 tasks, all n! delay orders (2 ms steps); processes: one configuration per '
                'second interface (n in {2,3}, 2 workers), 4 Batch ops, 3 zip stores x 2 configurations')
    return ('threads: max_workers {1,2,3,4,8}, chunksize 1..n+1, n <= 4, all n! delay orders; processes: max_workers {1,2,4,8}, chunksize 1..n+1, '
            'all (n<=3) / every 5th (n=4) delay order; stores: workers {1,2,3,4,8}, chunksize 1..n+1, 2-4 request orders')


def _mp_ok():
    import multiprocessing
    return multiprocessing.get_start_method() == 'fork'


class _Hang(Exception):
    pass


def _kill_children():
    """kill every direct child process of this worker (pool workers forked by the package)"""
    me = os.getpid()
    for d in os.listdir('/proc'):
        if not d.isdigit():
            continue
        try:
            with open(f'/proc/{d}/stat') as fh:
                parts = fh.read().rsplit(')', 1)[1].split()
            if int(parts[1]) == me:
                os.kill(int(d), 9)
        except Exception:
            pass


def _quiesce(limit=5.0):
    """before the package forks a process pool: no thread of an earlier pool may still be alive in this process (a fork taken while such a thread
    holds a lock leaves the child waiting for ever); abandoned result generators are finalised first"""
    import gc, threading
    gc.collect()
    t0 = time.time()
    while threading.active_count() > 1 and time.time() - t0 < limit:
        time.sleep(0.02)
        gc.collect()
    return threading.active_count() == 1


class _guard:
    """a case that uses process pools is given a generous time limit; on expiry the pool workers are killed and the case is a harness fault"""
    def __init__(self, seconds):
        self.seconds = seconds

    def __enter__(self):
        import signal

        def handler(signum, frame):
            _kill_children()
            raise _Hang()
        self.old = signal.signal(signal.SIGALRM, handler)
        signal.alarm(self.seconds)

    def __exit__(self, *a):
        import signal
        signal.alarm(0)
        signal.signal(signal.SIGALRM, self.old)
        return False


def _run(task, areas, name):
    tier = task.get('tier', 'quick')
    rep = Report(name, task, rule=RULE + ' Added: apply_except / apply_items_except with a task failing with a class that was NOT requested (alone and next to a requested one); zip stores read and written with workers under a StoreConfigMap whose per-label options differ from the default.', bound=_bound(tier))
    rep.assumptions.add('Executor.map yields results in submission order (CPython concurrent.futures); completion orders are driven by sleeps, not observed')
    fork = _mp_ok()
    if not fork:
        rep.assumptions.add('multiprocessing start method is not fork: process-pool cases skipped')
    gens = []
    if 'i' in areas:
        gens.append(cases_iface(tier))
    if 'b' in areas:
        gens.append(cases_batch(tier))
    if 's' in areas:
        gens.append(cases_store(tier))
    cache = {}
    with tempfile.TemporaryDirectory(dir=os.environ.get('VERIF_SCRATCH', '/var/tmp'), prefix='a7c18_') as tmp:
        for case in rep.shard(itertools.chain(*gens)):
            if not case.get('threads', False) and not fork:
                continue
            uses_processes = (not case.get('threads', False)) or case['area'] == 'store'
            try:
                if uses_processes:
                    if not _quiesce():
                        rep.assumptions.add('a thread of an earlier pool was still alive when a process-pool case started')
                    with _guard(180):
                        if case['area'] == 'iface':
                            eval_iface(rep, case, cache)
                        elif case['area'] == 'batch':
                            eval_batch(rep, case)
                        else:
                            eval_store(rep, case, tmp)
                    _quiesce()
                elif case['area'] == 'iface':
                    eval_iface(rep, case, cache)
                elif case['area'] == 'batch':
                    eval_batch(rep, case)
                else:
                    eval_store(rep, case, tmp)
            except _Hang:
                DELAYS.clear()
                RAISE.clear()
                RAISE_OTHER.clear()
                _kill_children()
                rep.error(f'process pool did not finish within 180 s (workers killed): {case}')
            except Exception:
                DELAYS.clear()
                RAISE.clear()
                rep.error(f'harness {case}')
    return rep.done()


def run(repo, task):
    return _run(task, 'ibs', 'C18-parallel')


def run_iface(repo, task):
    return _run(task, 'i', 'C18-apply_pool')


def run_batch(repo, task):
    return _run(task, 'b', 'C18-batch-pool')


def run_store(repo, task):
    return _run(task, 's', 'C18-store-workers')


def replay(repo, rp):
    if 'options' in rp and 'protocol' in rp:
        r = run_config_transport(repo, dict(tier='quick', shard=0, nshards=1))
        fails = list(r['failures'].values()) if isinstance(r['failures'], dict) else list(r['failures'])
        return dict(outcome='fail', key=fails[0]['key'], what=fails[0]['what']) if fails else dict(outcome='pass')
    case = {k: v for k, v in rp.items() if k != 'task'}
    rep = Report('C18-replay', dict(tier='quick'), rule='', bound='')
    with tempfile.TemporaryDirectory(dir=os.environ.get('VERIF_SCRATCH', '/var/tmp'), prefix='a7c18r_') as tmp:
        try:
            if case['area'] == 'iface':
                eval_iface(rep, case, {})
            elif case['area'] == 'batch':
                eval_batch(rep, case)
            else:
                eval_store(rep, case, tmp)
        except Exception:
            rep.error('replay')
    out = rep.done()
    if out['status'] != 'ok':
        return dict(outcome='error', detail=out.get('detail'))
    return dict(outcome='fail' if out['failures'] else 'pass', detail=[f['key'] + ': ' + f['what'][:300] for f in out['failures']])


# ---------------------------------------------------------------------------------------------
# what the workers of a zipped store receive: the per-label StoreConfig travels to a worker process by pickle

def run_config_transport(repo, task):
    """the process-pool forms of the zipped stores send each label's StoreConfig to the worker by pickle: the config that arrives is the config that was sent
    (every option, including falsy non-default ones), so that the pooled read / write applies the same options as the sequential one"""
    import pickle
    import static_frame as sf
    rep = Report('C18-config-transport', task, rule='every single-option deviation of StoreConfig from its defaults (both truth values / 0 / 1 / 2 for the depth options, None / tuple for the '
                 'label options) and all-options-flipped x pickle protocols 2..5: the unpickled config has the same value for every public option; likewise StoreConfigHE and a StoreConfigMap',
                 bound='one option at a time + one combined case')
    import inspect
    params = [p for p in inspect.signature(sf.StoreConfig.__init__).parameters.values() if p.name != 'self']
    names = [p.name for p in params]
    alts = {}
    for p_ in params:
        d = p_.default
        if isinstance(d, bool):
            alts[p_.name] = [not d]
        elif isinstance(d, int):
            alts[p_.name] = [v for v in (0, 1, 2) if v != d]
        elif d is None and p_.name in ('dtypes',):
            alts[p_.name] = [{'a': 'int64'}]
        elif d is None and p_.name in ('index_name_depth_level', 'columns_name_depth_level', 'columns_select', 'trim_nadir'):
            alts[p_.name] = []
        else:
            alts[p_.name] = []
    cases = [{n: v} for n in names for v in alts[n]]
    cases.append({n: alts[n][0] for n in names if alts[n]})
    for kw in rep.shard(cases):
        for proto in (2, 3, 4, 5):
            for cls in (sf.StoreConfig, getattr(sf, 'StoreConfigHE', None) or sf.StoreConfig):
                rp = dict(options={k: repr(v) for k, v in kw.items()}, protocol=proto, cls=cls.__name__)
                rep.count(distinct_key=(repr(sorted(rp['options'].items())), proto, cls.__name__), sample=rp)
                try:
                    cfg = cls(**kw)
                    back = pickle.loads(pickle.dumps(cfg, protocol=proto))
                except Exception as e:
                    rep.fail(f'C18:config-transport:raises-{type(e).__name__}', f'{cls.__name__}({kw}) cannot be sent to a worker (pickle protocol {proto}): {e!r}', rp)
                    continue
                diff = {n: (getattr(cfg, n, None), getattr(back, n, None)) for n in names if repr(getattr(cfg, n, None)) != repr(getattr(back, n, None))}
                rep.check(not diff, 'C18:config-transport:option-changed-in-transit', f'{cls.__name__}({kw}) arrives in a worker (pickle protocol {proto}) with {diff} (sent, received)', rp)
    return rep.done()
