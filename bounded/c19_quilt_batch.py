"""C19 bounded stand-in: Quilt and Batch are faithful views over the Frames they hold.

Contract (run-time, real package):
  quilt   for a Bus of k in 1..3 member Frames (different lengths, aligned opposite-axis labels), both axes, retain_labels on/off,
          in-memory Bus and store-backed Bus with max_persist in {None,1,2}:
              quilt.<op>(key)  ==  R.<op>(key)
          where R is the concatenation of the members along the Quilt axis (Bus label as added outer level when labels are
          retained).  R is built by this harness from plain Python data (and cross-checked against Frame.from_concat /
          from_concat_items).  <op>: shape, index, columns, values, size, iloc / loc / [] with int, slice, list, Boolean keys on both
          axes spanning 0..k members, iter_array / iter_series / iter_tuple (+ _items), iter_window / iter_window_array (+ _items),
          head, tail, to_frame, keys / in / get.  Comparison: container kind, labels (order!), cell values, Series names; dtypes are
          not compared.  After every op on a bounded Bus: loaded Frames <= max_persist.
  batch   list(batch.<op>.items()) == [(label, frame.<op>)]  for selection, operators, reductions (skipna on/off), apply forms, sorting,
          shifting, and every chain of two such operations;  batch.<op>.to_frame() equals the concatenation of exactly those results.
"""
from __future__ import annotations
import itertools
import os
import tempfile
import numpy as np
from .common import Report, same_cell, _cell

PID = 'C19'
SIZES = (2, 3, 1)            # rows (axis 0) / columns (axis 1) of the member Frames
MEMBERS = ('mb', 'ma', 'mc')  # Bus labels, deliberately unsorted
PARTS = 8                     # the operation catalogue of one Quilt configuration is split into this many cases


# ---------------------------------------------------------------------------------------------
# members and the reference concatenation, from plain data

def member_data(k, axis, sizes=SIZES):
    """list of (bus label, inner labels, opposite labels, columns-of-cells) per member; cells distinct across members"""
    out = []
    for m in range(k):
        n = sizes[m]
        inner = [f'{"xyz"[m]}{j}' for j in range(n)]
        if axis == 0:
            opp = ['p', 'q', 'r']
            # columns keep one dtype across members: int, float (with a NaN), str
            cols = [[10 * m + j for j in range(n)], [0.5 + 10 * m + j if (m, j) != (1, 1) else float('nan') for j in range(n)], [f's{m}{j}' for j in range(n)]]
        else:
            opp = ['ra', 'rb', 'rc']
            cols = [([100 * m + 10 * j + i for i in range(3)] if (m + j) % 2 == 0 else [f't{m}{j}{i}' for i in range(3)]) for j in range(n)]
        out.append((MEMBERS[m], inner, opp, cols))
    return out


def member_frames(k, axis, sizes=SIZES):
    import static_frame as sf
    frames = []
    for label, inner, opp, cols in member_data(k, axis, sizes):
        if axis == 0:
            frames.append(sf.Frame.from_items(zip(opp, cols), index=inner, name=label))
        else:
            frames.append(sf.Frame.from_items(zip(inner, cols), index=opp, name=label))
    return frames


def reference(k, axis, retain, sizes=SIZES):
    """R built without from_concat"""
    import static_frame as sf
    data = member_data(k, axis, sizes)
    labels = [((lab, i) if retain else i) for lab, inner, _, _ in data for i in inner]
    ctor = sf.IndexHierarchy.from_labels if retain else sf.Index
    if axis == 0:
        opp = data[0][2]
        cols = [sum((d[3][j] for d in data), []) for j in range(len(opp))]
        return sf.Frame.from_items(zip(opp, cols), index=ctor(labels))
    opp = data[0][2]
    cols = [c for d in data for c in d[3]]
    return sf.Frame.from_items(zip(range(len(cols)), cols), index=opp).relabel(columns=ctor(labels))


# ---------------------------------------------------------------------------------------------
# strict comparison (dtype-free)

def _lab(v):
    if isinstance(v, (list, tuple, np.ndarray)):
        return tuple(_lab(x) for x in v)
    return v.item() if isinstance(v, np.generic) else v


def canon(x):
    import static_frame as sf
    if isinstance(x, sf.Frame):
        return ('Frame', x.shape, x.index.depth, tuple(_lab(v) for v in x.index.values.tolist()), x.columns.depth, tuple(_lab(v) for v in x.columns.values.tolist()),
                tuple(tuple(_cellv(v) for v in x.iloc[:, j].values) for j in range(x.shape[1])), None)
    if isinstance(x, sf.Series):
        return ('Series', x.shape, x.index.depth, tuple(_lab(v) for v in x.index.values.tolist()), tuple(_cellv(v) for v in x.values), _lab(x.name) if x.name is not None else None)
    if isinstance(x, sf.IndexHierarchy):
        return ('IH', x.depth, tuple(_lab(v) for v in x.values.tolist()))
    if isinstance(x, sf.Index):
        return ('Index', tuple(_lab(v) for v in x.values.tolist()))
    if isinstance(x, np.ndarray):
        return ('ndarray', x.shape, tuple(_cellv(v) for v in x.ravel().tolist())) if x.dtype != object else ('ndarray', x.shape, tuple(_cellv(v) for v in x.ravel()))
    if isinstance(x, tuple) and hasattr(x, '_fields'):
        return ('namedtuple', x._fields, tuple(_cellv(v) for v in x))
    if isinstance(x, tuple):
        return ('tuple', tuple(canon(v) if isinstance(v, (sf.Frame, sf.Series, np.ndarray, tuple)) else _cellv(v) for v in x))
    if isinstance(x, list):
        return ('list', tuple(canon(v) for v in x))
    return ('scalar', _cellv(x))


def _cellv(v):
    c = _cell(v)
    # ints and floats holding the same number are the same cell (dtype resolution is not part of the property)
    if isinstance(c, tuple) and c[0] in ('int', 'float'):
        return ('num', float(c[1]))
    if isinstance(c, tuple) and c[0] == 'str_':
        return ('str', c[1])
    return c


def outcome(fn):
    """('ok', canon) | ('declined',) for the documented NotImplementedAxis refusal | ('exc', class name)"""
    try:
        return ('ok', canon(fn()))
    except Exception as e:
        if type(e).__name__ == 'NotImplementedAxis':
            return ('declined',)
        return ('exc', type(e).__name__, str(e)[:120])


# ---------------------------------------------------------------------------------------------
# keys

def axis_keys(n, tier):
    """iloc keys along an axis of length n: (tag, key) with tag naming the key class"""
    out = [('int', i) for i in range(-n, n)]
    rng = [None] + list(range(0, n + 1))
    for a in rng:
        for b in rng:
            out.append(('slice', slice(a, b)))
    out += [('slice-step', slice(None, None, 2)), ('slice-step', slice(1, None, 2)), ('slice-step', slice(0, n, 3)), ('slice-neg-bounds', slice(-2, None)), ('slice-neg-bounds', slice(None, -1)),
            ('slice-reverse', slice(None, None, -1)), ('slice-reverse', slice(n - 1, 0, -2))]
    pos = list(range(n))
    out += [('list-ascending', [i]) for i in pos]
    for a, b in itertools.combinations(pos, 2):
        out.append(('list-ascending', [a, b]))
        out.append(('list-descending', [b, a]))
    if n >= 3:
        out += [('list-ascending', pos), ('list-unordered', [pos[1], pos[-1], pos[0]]), ('list-negative', [-1, 0])]
        out += [('list-ascending', list(t)) for t in itertools.combinations(pos, 3)][: 20 if tier == 'quick' else None]
    out += [('list-duplicates', [0, 0]), ('list-empty', [])]
    masks = itertools.product((False, True), repeat=n)
    for m in masks:
        out.append(('bool', np.array(m, dtype=bool)))
    return out


def opposite_keys(n):
    return [('all', None), ('int', 0), ('int', n - 1), ('slice', slice(1, None)), ('list-descending', [n - 1, 0]), ('bool', np.array([i != 1 for i in range(n)], dtype=bool))]


def _enc(key):
    if isinstance(key, slice):
        return ['slice', key.start, key.stop, key.step]
    if isinstance(key, np.ndarray):
        return ['bool', key.tolist()]
    if isinstance(key, list):
        return ['list', key]
    return key


def _dec(key):
    if isinstance(key, list) and key and key[0] == 'slice':
        return slice(key[1], key[2], key[3])
    if isinstance(key, list) and key and key[0] == 'bool':
        return np.array(key[1], dtype=bool)
    if isinstance(key, list) and key and key[0] == 'list':
        return list(key[1])
    return key


# ---------------------------------------------------------------------------------------------
# worlds

class QWorld:
    def __init__(self, tmp, k, axis, retain, mp_mode, sizes=SIZES):
        import static_frame as sf
        self.k, self.axis, self.retain, self.mp_mode = k, axis, retain, mp_mode
        sizes = tuple(sizes)
        self.frames = member_frames(k, axis, sizes)
        self.R = reference(k, axis, retain, sizes)
        self.fp = None
        if mp_mode != 'memory':
            self.fp = os.path.join(tmp, f'q_{k}_{axis}_{"".join(map(str, sizes))}.zip')
            if not os.path.exists(self.fp):
                sf.Bus.from_frames(self.frames).to_zip_pickle(self.fp)
        self.mp = None if mp_mode in ('memory', 'store') else int(mp_mode)

    def quilt(self):
        import static_frame as sf
        if self.fp is None:
            bus = sf.Bus.from_frames(self.frames)
        else:
            bus = sf.Bus.from_zip_pickle(self.fp, max_persist=self.mp)
        return sf.Quilt(bus, axis=self.axis, retain_labels=self.retain), bus


def quilt_ops(w, tier):
    """yield (area, tag, replay-spec, quilt_fn, ref_fn)"""
    import static_frame as sf
    R = w.R
    n_axis = R.shape[w.axis]
    n_opp = R.shape[1 - w.axis]
    yield ('attr', 'shape', ['attr', 'shape'], lambda q: q.shape, lambda r: r.shape)
    yield ('attr', 'index', ['attr', 'index'], lambda q: q.index, lambda r: r.index)
    yield ('attr', 'columns', ['attr', 'columns'], lambda q: q.columns, lambda r: r.columns)
    yield ('attr', 'values', ['attr', 'values'], lambda q: q.values, lambda r: r.values)
    yield ('attr', 'size', ['attr', 'size'], lambda q: (q.size, q.ndim), lambda r: (r.size, r.ndim))
    yield ('attr', 'to_frame', ['attr', 'to_frame'], lambda q: q.to_frame(), lambda r: r)
    yield ('attr', 'keys', ['attr', 'keys'], lambda q: [_lab(x) for x in q.keys()], lambda r: [_lab(x) for x in r.keys()])
    yield ('attr', 'iter', ['attr', 'iter'], lambda q: [_lab(x) for x in q], lambda r: [_lab(x) for x in r])
    lab0 = _lab(R.columns.values.tolist()[0])
    yield ('attr', 'contains', ['attr', 'contains'], lambda q: (lab0 in q, 'nope' in q), lambda r: (lab0 in r, 'nope' in r))
    yield ('attr', 'get', ['attr', 'get'], lambda q: (q.get(lab0), q.get('nope', 7)), lambda r: (r.get(lab0), r.get('nope', 7)))
    yield ('attr', 'items', ['attr', 'items'], lambda q: [(_lab(a), b) for a, b in q.items()], lambda r: [(_lab(a), b) for a, b in r.items()])
    for c in (1, 2, n_axis + 1):
        yield ('attr', 'head', ['head', c], lambda q, c=c: q.head(c), lambda r, c=c: r.head(c))
        yield ('attr', 'tail', ['tail', c], lambda q, c=c: q.tail(c), lambda r, c=c: r.tail(c))
    # iloc: every key along the quilt axis x keys on the opposite axis
    for tag_a, ka in axis_keys(n_axis, tier):
        for tag_o, ko in opposite_keys(n_opp):
            if tier == 'quick' and tag_a == 'bool' and tag_o not in ('all', 'int') and int(ka.sum()) % 2:
                continue
            if w.axis == 0:
                key = ka if ko is None else (ka, ko)
            else:
                key = (slice(None) if ko is None else ko, ka)
            spec = ['iloc', [_enc(k_) for k_ in key] if isinstance(key, tuple) else [_enc(key)]]
            yield ('iloc', f'{tag_a}/{tag_o}', spec, lambda q, key=key: q.iloc[key], lambda r, key=key: r.iloc[key])
    # loc / getitem: label forms of a subset of the keys
    ax_index = R.index if w.axis == 0 else R.columns
    labels = [_lab(v) for v in ax_index.values.tolist()]
    opp_labels = [_lab(v) for v in (R.columns if w.axis == 0 else R.index).values.tolist()]

    def loc_keys():
        for i, l in enumerate(labels):
            yield ('label', sf.HLoc[l] if w.retain else l, ['label', i])
        for a in range(len(labels)):
            for b in range(a, len(labels)):
                if w.retain:
                    yield ('label-slice', slice(sf.HLoc[labels[a]], sf.HLoc[labels[b]]) if False else [labels[i] for i in range(a, b + 1)], ['label-range', a, b])
                else:
                    yield ('label-slice', slice(labels[a], labels[b]), ['label-slice', a, b])
        for a, b in itertools.permutations(range(len(labels)), 2):
            yield ('label-list-ascending' if a < b else 'label-list-descending', [labels[a], labels[b]], ['label-list', a, b])
        yield ('label-bool', np.array([i % 2 == 0 for i in range(len(labels))]), ['label-bool'])
        if w.retain:
            for m in range(w.k):
                yield ('hloc-member', sf.HLoc[MEMBERS[m]], ['hloc-member', m])
            if w.k >= 2:
                yield ('hloc-members', sf.HLoc[[MEMBERS[0], MEMBERS[w.k - 1]]], ['hloc-members'])
            yield ('hloc-inner', sf.HLoc[:, labels[0][1]], ['hloc-inner'])

    for tag, key, spec in loc_keys():
        for otag, okey in (('all', None), ('label', opp_labels[0]), ('label-list', [opp_labels[-1], opp_labels[0]]), ('label-slice', slice(opp_labels[1], None))):
            if w.axis == 0:
                k2 = key if okey is None else (key, okey)
            else:
                k2 = (slice(None) if okey is None else okey, key)
            yield ('loc', f'{tag}/{otag}', ['loc', spec, otag], lambda q, k2=k2: q.loc[k2], lambda r, k2=k2: r.loc[k2])
        if w.axis == 1:
            yield ('getitem', tag, ['getitem', spec], lambda q, key=key: q[key], lambda r, key=key: r[key])
    if w.axis == 0:
        for okey, otag in ((opp_labels[0], 'label'), ([opp_labels[-1], opp_labels[0]], 'label-list'), (slice(opp_labels[1], None), 'label-slice')):
            yield ('getitem', otag, ['getitem-opp', otag], lambda q, okey=okey: q[okey], lambda r, okey=okey: r[okey])
    # iterators
    tkw = dict(constructor=tuple) if w.retain or w.axis == 1 else {}
    for ax in (0, 1):
        yield ('iter', f'iter_array{ax}', ['iter', 'iter_array', ax], lambda q, ax=ax: list(q.iter_array(axis=ax)), lambda r, ax=ax: list(r.iter_array(axis=ax)))
        yield ('iter', f'iter_array_items{ax}', ['iter', 'iter_array_items', ax], lambda q, ax=ax: [(_lab(a), b) for a, b in q.iter_array_items(axis=ax)], lambda r, ax=ax: [(_lab(a), b) for a, b in r.iter_array_items(axis=ax)])
        yield ('iter', f'iter_series{ax}', ['iter', 'iter_series', ax], lambda q, ax=ax: list(q.iter_series(axis=ax)), lambda r, ax=ax: list(r.iter_series(axis=ax)))
        yield ('iter', f'iter_series_items{ax}', ['iter', 'iter_series_items', ax], lambda q, ax=ax: [(_lab(a), b) for a, b in q.iter_series_items(axis=ax)], lambda r, ax=ax: [(_lab(a), b) for a, b in r.iter_series_items(axis=ax)])
        yield ('iter', f'iter_tuple{ax}', ['iter', 'iter_tuple', ax], lambda q, ax=ax: list(q.iter_tuple(axis=ax, constructor=tuple)), lambda r, ax=ax: list(r.iter_tuple(axis=ax, constructor=tuple)))
        yield ('iter', f'iter_tuple_items{ax}', ['iter', 'iter_tuple_items', ax], lambda q, ax=ax: [(_lab(a), b) for a, b in q.iter_tuple_items(axis=ax, constructor=tuple)], lambda r, ax=ax: [(_lab(a), b) for a, b in r.iter_tuple_items(axis=ax, constructor=tuple)])
        if not tkw:
            yield ('iter', f'iter_namedtuple{ax}', ['iter', 'iter_namedtuple', ax], lambda q, ax=ax: list(q.iter_tuple(axis=ax)), lambda r, ax=ax: list(r.iter_tuple(axis=ax)))
        for size in (1, 2, 3, n_axis, n_axis + 1):
            for step in (1, 2):
                kw = dict(size=size, axis=ax, step=step)
                yield ('window', f'iter_window{ax}', ['window', 'iter_window', kw], lambda q, kw=kw: list(q.iter_window(**kw)), lambda r, kw=kw: list(r.iter_window(**kw)))
                yield ('window', f'iter_window_items{ax}', ['window', 'iter_window_items', kw], lambda q, kw=kw: [(_lab(a), b) for a, b in q.iter_window_items(**kw)], lambda r, kw=kw: [(_lab(a), b) for a, b in r.iter_window_items(**kw)])
                yield ('window', f'iter_window_array{ax}', ['window', 'iter_window_array', kw], lambda q, kw=kw: list(q.iter_window_array(**kw)), lambda r, kw=kw: list(r.iter_window_array(**kw)))
                yield ('window', f'iter_window_array_items{ax}', ['window', 'iter_window_array_items', kw], lambda q, kw=kw: [(_lab(a), b) for a, b in q.iter_window_array_items(**kw)], lambda r, kw=kw: [(_lab(a), b) for a, b in r.iter_window_array_items(**kw)])
        kw = dict(size=2, axis=ax, window_sized=False, label_shift=-1)
        yield ('window', f'iter_window_opts{ax}', ['window', 'iter_window', kw], lambda q, kw=kw: list(q.iter_window(**kw)), lambda r, kw=kw: list(r.iter_window(**kw)))


def quilt_cases(tier):
    for k in (1, 2, 3):
        for axis in (0, 1):
            for retain in (False, True):
                for mp_mode in ('memory', 'store', '1', '2'):
                    if mp_mode == '2' and k == 1:
                        continue
                    if tier == 'quick' and mp_mode == 'store' and k != 3:
                        continue
                    for sizes in ([list(SIZES)] if tier == 'quick' else [list(SIZES), [1, 1, 2], [3, 1, 2]]):
                        for part in range(PARTS):
                            yield dict(area='quilt', k=k, axis=axis, retain=retain, mp_mode=mp_mode, sizes=sizes, part=part)


def _differs(a, b):
    """which part of two ('ok', canon) outcomes differs -> short defect tag"""
    if a[0] != b[0]:
        return 'raises' if a[0] == 'exc' else 'unexpected-success' if b[0] == 'exc' else a[0]
    if a[0] != 'ok':
        return None if a[0] == 'declined' or a[1] == b[1] else 'exception-class'
    ca, cb = a[1], b[1]
    if ca == cb:
        return None
    if ca[0] != cb[0]:
        return 'container-kind'
    if ca[0] in ('Frame', 'Series'):
        if ca[1] != cb[1]:
            return 'shape'
        if ca[0] == 'Frame':
            if ca[2:4] != cb[2:4] or ca[4:6] != cb[4:6]:
                if sorted(map(repr, ca[3])) == sorted(map(repr, cb[3])) and sorted(map(repr, ca[5])) == sorted(map(repr, cb[5])):
                    return 'label-order'
                return 'labels'
            if ca[6] != cb[6]:
                return 'values'
            return 'name'
        if ca[2:4] != cb[2:4]:
            return 'label-order' if sorted(map(repr, ca[3])) == sorted(map(repr, cb[3])) else 'labels'
        if ca[4] != cb[4]:
            return 'values'
        return 'name'
    return 'values'


def eval_quilt(rep, case, tmp, only=None):
    w = QWorld(tmp, case['k'], case['axis'], case['retain'], case['mp_mode'], case.get('sizes', SIZES))
    tier = case.get('tier', 'quick')
    import static_frame as sf
    # the harness-built reference must itself be the concatenation the property names
    try:
        if case.get('part', 0) != 0 and only is None:
            raise StopIteration
        if case['retain']:
            C = sf.Frame.from_concat_items(((f.name, f) for f in w.frames), axis=case['axis'])
        else:
            C = sf.Frame.from_concat(w.frames, axis=case['axis'])
        rep.count(distinct_key=('concat', case['k'], case['axis'], case['retain']))
        if canon(C.rename(None)) != canon(w.R):
            rep.fail(f'{PID}:concat:differs-from-plain-data-reference', f'Frame.from_concat{"_items" if case["retain"] else ""} of the members (axis {case["axis"]}) != stacked plain data: {str(canon(C))[:300]} vs {str(canon(w.R))[:300]}', dict(case))
    except StopIteration:
        pass
    except Exception as e:
        rep.fail(f'{PID}:concat:raises-{type(e).__name__}', f'from_concat raised {e!r}', dict(case))
    q, bus = w.quilt()
    fresh_each = w.mp is not None
    for n_op, (area, tag, spec, qfn, rfn) in enumerate(quilt_ops(w, tier)):
        if only is not None and spec != only:
            continue
        if only is None and case.get('part') is not None and n_op % PARTS != case['part']:
            continue
        if fresh_each:
            q, bus = w.quilt()      # bounded Bus: every op starts from an unloaded Bus (the loading path is part of the op)
        want = outcome(lambda: rfn(w.R))
        if want[0] != 'ok':
            # the concatenated Frame itself refuses this key (e.g. out-of-range int): the Quilt must refuse as well
            got = outcome(lambda: qfn(q))
            rep.count(sample=dict(case, op=spec))
            if got[0] == 'ok' and want[1] in ('IndexError', 'KeyError', 'LookupError'):
                rep.fail(f'{PID}:quilt:{area}:invalid-key-accepted', f'quilt {spec}: returned {str(got)[:200]} where the concatenated Frame raises {want[1]}', dict(case, op=spec))
            continue
        got = outcome(lambda: qfn(q))
        rep.count(distinct_key=(case['k'], case['axis'], case['retain'], case['mp_mode'], tuple(case.get('sizes', SIZES)), repr(spec)), sample=dict(case, op=spec))
        rp = dict(case, op=spec)
        cfg = f'k={case["k"]}, axis={case["axis"]}, retain_labels={case["retain"]}, bus={case["mp_mode"]}'
        if got[0] == 'declined':
            continue
        d = _differs(got, want)
        if d is not None:
            key_tag = tag.split('/')[0] if area in ('iloc', 'loc', 'getitem') else tag.rstrip('01')
            if got[0] == 'exc':
                key = f'{PID}:quilt:{area}:raises-{got[1]}'
            elif d == 'label-order' and area in ('iloc', 'loc', 'getitem'):
                key = f'{PID}:quilt:selection:key-order-ignored'
            elif 'duplicates' in key_tag and d == 'shape':
                key = f'{PID}:quilt:selection:duplicate-positions-collapsed'
            else:
                key = f'{PID}:quilt:{area}:{key_tag}:{d}'
            rep.fail(key, f'quilt {spec} ({cfg}): {str(got)[:300]} but the concatenated Frame gives {str(want)[:300]}', rp)
        if w.mp is not None:
            loaded = int(bus._loaded.sum())
            if loaded > w.mp:
                rep.fail(f'{PID}:quilt:max_persist-exceeded', f'after quilt {spec} ({cfg}) the Bus holds {loaded} Frames > max_persist {w.mp}', rp)


# ---------------------------------------------------------------------------------------------
# Batch

def batch_frames(k):
    import static_frame as sf
    out = []
    for m in range(k):
        n = (3, 2, 3)[m]
        vals = {'p': [3 - j + 10 * m for j in range(n)], 'q': [0.5 * j + m if (m, j) != (0, 1) else np.nan for j in range(n)], 'r': [-1 - j - m for j in range(n)]}
        if m == 1:
            # one member with a consolidated layout: a 2-column 2-D block next to 1-D / one-column 2-D blocks (block-wise reductions must not show)
            from .common import frame_from
            cols = [np.array(vals['p'], dtype=np.int64), np.array([7 * j - m for j in range(n)], dtype=np.int64), np.array(vals['q']), np.array(vals['r'], dtype=np.int64)]
            f = frame_from([cols[0], cols[3], cols[2]], ((2, False), (1, True)), index=[f'r{j}' for j in range(n)], column_labels=['p', 'r', 'q'], name=MEMBERS[m])
            out.append(f[['p', 'q', 'r']].rename(MEMBERS[m]) if False else f)
            continue
        f = sf.Frame.from_dict(vals, index=[f'r{j}' for j in range(n)], name=MEMBERS[m])
        # the third member is a grow-only Frame (a Frame subclass: results that keep the member's class are containers all the same)
        out.append(f.to_frame_go() if m == 2 else f)
    return out


def _t_apply(f):
    return f.T


def _fill(f):
    return f.fillna(-9)


def _items_fn(label, f):
    return f.rename(label + '!').iloc[::-1]


def batch_ops():
    """name -> (function on Batch, function on (label, Frame)); the same expression on both sides"""
    o = {}

    def both(name, fn):
        o[name] = (fn, lambda l, f, fn=fn: fn(f))

    both('iloc_rows', lambda x: x.iloc[1:])
    both('iloc_col', lambda x: x.iloc[:, 0])
    both('iloc_cell_block', lambda x: x.iloc[[1, 0], [2, 0]])
    both('loc_row', lambda x: x.loc['r1'])
    both('loc_cols', lambda x: x.loc[:, ['r', 'p']])
    both('getitem', lambda x: x['q'])
    both('getitem_list', lambda x: x[['q', 'p']])
    both('drop', lambda x: x.drop['q'])
    both('drop_iloc', lambda x: x.drop.iloc[0])
    both('head', lambda x: x.head(1))
    both('tail', lambda x: x.tail(2))
    both('mul', lambda x: x * 2)
    both('radd', lambda x: 1 + x)
    both('neg', lambda x: -x)
    both('abs', lambda x: abs(x))
    both('gt', lambda x: x > 1)
    both('sum0', lambda x: x.sum())
    both('sum1', lambda x: x.sum(axis=1))
    both('sum_noskip', lambda x: x.sum(skipna=False))
    both('mean_noskip1', lambda x: x.mean(axis=1, skipna=False))
    both('mean1', lambda x: x.mean(axis=1))
    both('median1', lambda x: x.median(axis=1))
    both('mean0', lambda x: x.mean())
    both('std1', lambda x: x.std(axis=1))
    both('var0', lambda x: x.var())
    both('prod1', lambda x: x.prod(axis=1))
    both('all1', lambda x: (x > 0).all(axis=1))
    both('max', lambda x: x.max())
    both('min1', lambda x: x.min(axis=1))
    both('count', lambda x: x.count())
    both('count1', lambda x: x.count(axis=1))
    both('cumsum', lambda x: x.cumsum())
    both('T', lambda x: x.T)
    both('transpose', lambda x: x.transpose())
    both('sort_values', lambda x: x.sort_values('p'))
    both('sort_index_desc', lambda x: x.sort_index(ascending=False))
    both('sort_columns_desc', lambda x: x.sort_columns(ascending=False))
    both('shift', lambda x: x.shift(1, fill_value=0))
    both('roll', lambda x: x.roll(1))
    both('clip', lambda x: x.clip(lower=0, upper=5))
    both('isin', lambda x: x.isin((1, 2, 3, -1)))
    both('loc_max', lambda x: x.loc_max())
    both('iloc_min1', lambda x: x.iloc_min(axis=1))
    o['apply_T'] = (lambda b: b.apply(_t_apply), lambda l, f: _t_apply(f))
    o['apply_fillna'] = (lambda b: b.apply(_fill), lambda l, f: _fill(f))
    o['apply_items'] = (lambda b: b.apply_items(_items_fn), lambda l, f: _items_fn(l, f))
    o['apply_except'] = (lambda b: b.apply_except(_fill, ValueError), lambda l, f: _fill(f))
    return o


def concat_reference(results):
    """what exporting must give: the results concatenated along axis 0 under their labels (only for aligned results)"""
    import static_frame as sf
    kinds = {type(r).__name__ for _, r in results}
    if kinds == {'Series'}:
        idx = [tuple(_lab(v) for v in r.index.values.tolist()) for _, r in results]
        if len(set(idx)) != 1:
            return None
        return ('Frame', (len(results), len(idx[0])), 1, tuple(_lab(l) for l, _ in results), 1, idx[0],
                tuple(tuple(_cellv(r.values[j]) for _, r in results) for j in range(len(idx[0]))), None)
    if kinds == {'Frame'}:
        cols = [tuple(_lab(v) for v in r.columns.values.tolist()) for _, r in results]
        if len(set(cols)) != 1 or any(r.index.depth != 1 for _, r in results):
            return None
        index = tuple((_lab(l), _lab(i)) for l, r in results for i in r.index.values.tolist())
        cells = tuple(tuple(_cellv(v) for _, r in results for v in r.iloc[:, j].values) for j in range(len(cols[0])))
        return ('Frame', (len(index), len(cols[0])), 2, index, 1, cols[0], cells, None)
    return None


def batch_cases(tier):
    names = list(batch_ops())
    for k in (1, 2, 3):
        for src in ('frames', 'bus', 'store') if k > 1 else ('frames',):
            for a in names:
                yield dict(area='batch', k=k, src=src, chain=[a])
            for a in names:
                for b in names:
                    if src != 'frames' and tier == 'quick':
                        continue
                    if tier == 'quick' and k == 1 and (names.index(a) + names.index(b)) % 2:
                        continue
                    yield dict(area='batch', k=k, src=src, chain=[a, b])


def eval_batch(rep, case, tmp):
    import static_frame as sf
    ops = batch_ops()
    frames = batch_frames(case['k'])
    chain = case['chain']
    rp = dict(case)

    def mk():
        if case['src'] == 'frames':
            return sf.Batch.from_frames(frames)
        if case['src'] == 'bus':
            return sf.Batch(sf.Bus.from_frames(frames).items())
        fp = os.path.join(tmp, f'b_{case["k"]}.zip')
        if not os.path.exists(fp):
            sf.Bus.from_frames(frames).to_zip_pickle(fp)
        return sf.Batch.from_zip_pickle(fp)

    # reference per label
    want, ref_exc, frames_only = [], None, True
    for f in frames:
        try:
            r = f
            for n_, name in enumerate(chain):
                if n_ and not isinstance(r, sf.Frame):
                    frames_only = False          # the second operation acts on a Series: outside the Frame-level contract
                r = ops[name][1](f.name, r)
            want.append((f.name, r))
        except Exception as e:
            ref_exc = type(e).__name__
            break
    try:
        b = mk()
        for name in chain:
            b = ops[name][0](b)
        got = list(b.items()) if isinstance(b, sf.Batch) else b
        got_exc = None
    except Exception as e:
        got, got_exc = None, type(e).__name__ + ': ' + str(e)[:120]
    if not frames_only and (got_exc is not None or ref_exc is not None):
        rep.count(sample=dict(case))
        return
    nontrivial = ref_exc is None
    rep.count(distinct_key=(case['k'], case['src'], tuple(chain)) if nontrivial else None, sample=dict(case))
    if ref_exc is not None:
        if got_exc is None:
            rep.fail(f'{PID}:batch:unexpected-success', f'Batch chain {chain}: the same chain raises {ref_exc} on a member Frame but the Batch returned {str(got)[:200]}', rp)
        return
    if got_exc is not None:
        rep.fail(f'{PID}:batch:{chain[-1] if len(chain) == 1 else "chain"}:raises', f'Batch chain {chain} (k={case["k"]}, src={case["src"]}) raised {got_exc}; per-Frame evaluation succeeds', rp)
        return
    if not isinstance(b, sf.Batch):
        rep.fail(f'{PID}:batch:{chain[-1]}:not-a-batch', f'Batch chain {chain} returned {type(b).__name__}', rp)
        return
    g = [(_lab(l), canon(v)) for l, v in got]
    wv = [(_lab(l), canon(v)) for l, v in want]
    # Batch promotes an element result to a one-element Series (index (None,)) so that it can be exported: same result
    g = [(l, ('scalar', c[4][0])) if c[0] == 'Series' and c[1] == (1,) and c[3] == (None,) and w_[1][0] == 'scalar' else (l, c) for (l, c), w_ in zip(g, wv)] if len(g) == len(wv) else g
    if g != wv:
        gl, wl = [l for l, _ in g], [l for l, _ in wv]
        kind = 'labels-or-order' if gl != wl else 'result-differs'
        first = [n for n in chain]
        rep.fail(f'{PID}:batch:{"+".join(first) if len(first) == 1 else "chain:" + first[-1]}:{kind}',
                 f'Batch chain {chain} (k={case["k"]}, src={case["src"]}): items {str(g)[:400]} != per-Frame results {str(wv)[:400]}', rp)
        return
    # export
    ref = concat_reference(want)
    if ref is not None:
        try:
            b2 = mk()
            for name in chain:
                b2 = ops[name][0](b2)
            tf = canon(b2.to_frame())
            rep.count(distinct_key=('to_frame', case['k'], case['src'], tuple(chain)))
            if tf != ref:
                rep.fail(f'{PID}:batch:to_frame:{_differs(("ok", tf), ("ok", ref))}', f'Batch chain {chain}.to_frame() {str(tf)[:400]} != concatenation of the per-Frame results {str(ref)[:400]}', rp)
            if all(isinstance(v, sf.Frame) for _, v in want):
                b3 = mk()
                for name in chain:
                    b3 = ops[name][0](b3)
                bus = b3.to_bus()
                gb = [(_lab(l), canon(v)) for l, v in bus.items()]
                if gb != wv:
                    rep.fail(f'{PID}:batch:to_bus:result-differs', f'Batch chain {chain}.to_bus() items differ from per-Frame results', rp)
        except Exception as e:
            rep.fail(f'{PID}:batch:to_frame:raises-{type(e).__name__}', f'Batch chain {chain}.to_frame()/to_bus() raised {e!r}', rp)


# ---------------------------------------------------------------------------------------------
# drivers

RULE = ('quilt: k in 1..3 members (2,3,1 rows or columns) x axis {0,1} x retain_labels x Bus {in-memory, store-backed max_persist None/1/2} x '
        '{attributes, every iloc key along the quilt axis (all ints, all unit slices, stepped/negative/reverse slices, all 1-2 element lists '
        'in both orders, triples, duplicates, empty, all 2^n Boolean masks) x 6 opposite-axis keys, loc/[] label forms incl. HLoc, 14 iterators '
        'both axes, windows size 1..n+1 step 1-2, head/tail/to_frame/items/keys/get}; batch: 40 operations and all ordered pairs of them on k in 1..3 '
        'Frames (one NaN) from frames / Bus / zip store; to_frame / to_bus export.  Non-trivial: the reference evaluation succeeds')
BOUND = 'members <= 3 (sizes 2,3,1; thorough also 1,1,2 and 3,1,2), quilt axis length <= 6, opposite axis length 3, Batch chains of depth <= 2; NotImplementedAxis refusals are counted as declined, not compared'


def typed_cases():
    for axis in (0, 1):
        for retain in (True, False):
            yield dict(area='quilt-typed', axis=axis, retain=retain)


def eval_quilt_typed(rep, case):
    """members whose labels along the quilt axis are dates (IndexDate): the Quilt's labels are those of the concatenated Frame INCLUDING their kind, so the
    date-string and partial-date selections that work on the concatenated Frame select the same rows from the Quilt"""
    import static_frame as sf
    axis, retain = case['axis'], case['retain']
    days = [['2020-01-30', '2020-01-31', '2020-02-01'], ['2020-02-02', '2020-03-01'], ['2020-03-02']]
    frames = []
    for m, ds in enumerate(days):
        ix = sf.IndexDate(ds)
        data = np.arange(len(ds) * 2).reshape(len(ds), 2) + 10 * m
        f = sf.Frame(data, index=ix, columns=('p', 'q'), name=f'f{m}')
        frames.append(f if axis == 0 else f.T.rename(f'f{m}'))
    bus = sf.Bus.from_frames(frames)
    q = sf.Quilt(bus, axis=axis, retain_labels=retain)
    ref = sf.Frame.from_concat_items(bus.items(), axis=axis) if retain else sf.Frame.from_concat(bus.values, axis=axis)
    H = sf.HLoc
    keys = ([H[:, '2020-02'], H['f1', '2020-03-01':], H['f1', '2020-02-02'], H[:, '2020-03':]] if retain else
            ['2020-02', slice('2020-02-01', '2020-03-01'), '2020-02-02', slice('2020-03', None)])
    for ki, key in enumerate(keys):
        rp = dict(case, ki=ki)
        rep.count(distinct_key=('typed', axis, retain, ki), sample=dict(rp, key=repr(key)))
        sel = (lambda o: o.loc[key]) if axis == 0 else (lambda o: o.loc[:, key])
        a, b = outcome(lambda: sel(q)), outcome(lambda: sel(ref))
        if b[0] != 'ok':
            continue      # the concatenated Frame itself does not accept this key
        rep.check(a == b, f'{PID}:quilt:typed-axis-labels:selection-differs:' + ('retained-labels' if retain else 'dropped-bus-labels'), f'Quilt(axis={axis}, retain_labels={retain}) with IndexDate members: loc key {key!r} gives {str(a)[:200]}, '
                  f'the concatenated Frame gives {str(b)[:200]}', rp)


def _run(task, areas, name):
    tier = task.get('tier', 'quick')
    rep = Report(name, task, rule=RULE + ' Added: one Batch member holds a 2-column 2-D block next to a 1-D block; mean / median / std / var / prod / all along both axes.', bound=BOUND)
    gens = []
    if 'q' in areas:
        gens.append(quilt_cases(tier))
        gens.append(typed_cases())
    if 'b' in areas:
        gens.append(batch_cases(tier))
    with tempfile.TemporaryDirectory(dir=os.environ.get('VERIF_SCRATCH', '/var/tmp'), prefix='a7c19_') as tmp:
        for case in rep.shard(itertools.chain(*gens)):
            try:
                if case['area'] == 'quilt-typed':
                    eval_quilt_typed(rep, case)
                elif case['area'] == 'quilt':
                    eval_quilt(rep, dict(case, tier=tier), tmp)
                else:
                    eval_batch(rep, case, tmp)
            except Exception:
                rep.error(f'harness {case}')
    return rep.done()


def run(repo, task):
    return _run(task, 'qb', 'C19-quilt-batch')


def run_quilt(repo, task):
    return _run(task, 'q', 'C19-quilt')


def run_batch(repo, task):
    return _run(task, 'b', 'C19-batch')


def replay(repo, rp):
    case = {k: v for k, v in rp.items() if k not in ('task', 'op')}
    rep = Report('C19-replay', dict(tier='quick'), rule='', bound='')
    with tempfile.TemporaryDirectory(dir=os.environ.get('VERIF_SCRATCH', '/var/tmp'), prefix='a7c19r_') as tmp:
        try:
            if case['area'] == 'quilt-typed':
                eval_quilt_typed(rep, {k: v for k, v in case.items() if k != 'ki'})
            elif case['area'] == 'quilt':
                eval_quilt(rep, case, tmp, only=rp.get('op'))
            else:
                eval_batch(rep, case, tmp)
        except Exception:
            rep.error('replay')
    out = rep.done()
    if out['status'] != 'ok':
        return dict(outcome='error', detail=out.get('detail'))
    fails = [f for f in out['failures'] if not f['key'].startswith(f'{PID}:concat') or 'op' not in rp]
    return dict(outcome='fail' if fails else 'pass', detail=[f['key'] + ': ' + f['what'][:300] for f in fails])
