"""C14 bounded stand-in: missing-value operations act per cell exactly as specified.

Contract (run-time, real package): for EVERY pattern of missing cells over small shapes, every dtype-safe
block layout (1-D / 2-D), both axes and limit 0..n, the result of

    isna / notna / dropna(axis, all|any) / fillna(element) / fillna(label-aligned Frame|Series) /
    fillna_forward|backward(limit, axis) / fillna_leading|trailing(value, axis) / count(axis)

on Frame and Series equals a per-cell pure-Python reference derived from the property text:
  * isna marks exactly the cells holding NaN / None / NaT;
  * dropna removes exactly the rows (axis 0) / columns (axis 1) whose missing mask meets all/any;
  * fillna replaces exactly the missing cells (element; or container value where the container covers
    the (row label, column label), uncovered cells untouched);
  * forward/backward copy the nearest preceding/following non-missing value of the same column (axis 0)
    or row (axis 1) into at most `limit` consecutive missing cells (0 = unlimited);
  * leading/trailing fill only the missing run at that edge;
  * count = number of non-missing cells;
  * no operation alters a non-missing cell (value and type class; int->float of equal value tolerated).
Values are compared, dtypes are not demanded.  A cell the reference leaves missing must still be missing
(any of NaN/None/NaT is accepted there)."""
from __future__ import annotations
import itertools
import numpy as np
from .common import Report, layouts_dtype_safe, frame_from, _cell

NULLABLE = 'fOM'
NA = ('NA',)


# ---------------------------------------------------------------------------------------------
# input construction

def _value(kind, i, j):
    if kind == 'f':
        return float(10 * j + i) + 0.5
    if kind == 'O':
        return f's{j}{i}' if i % 2 == 0 else 100 + 10 * j + i
    if kind == 'M':
        return np.datetime64('2020-01-01') + (4 * j + i)
    if kind == 'i':
        return 10 * j + i - 3
    if kind == 'b':
        return (i + j) % 2 == 0
    if kind == 'U':
        return f'u{j}{i}'
    raise ValueError(kind)


def _missing(kind, i, j):
    if kind == 'f':
        return float('nan')
    if kind == 'M':
        return np.datetime64('NaT')
    # object columns hold all three flavours of missing
    return (None, float('nan'), np.datetime64('NaT'))[(i + 2 * j) % 3]


_DT = {'f': np.float64, 'O': object, 'M': 'M8[D]', 'i': np.int64, 'b': bool, 'U': '<U3'}


def make_columns(rows, kinds, pattern):
    """pattern: int bit mask over the nullable cells in row-major order (row i, nullable ordinal q) -> bit i*k+q"""
    nullable = [j for j, k in enumerate(kinds) if k in NULLABLE]
    k = len(nullable)
    miss = [[False] * len(kinds) for _ in range(rows)]
    for i in range(rows):
        for q, j in enumerate(nullable):
            if pattern >> (i * k + q) & 1:
                miss[i][j] = True
    vals = [[_missing(kinds[j], i, j) if miss[i][j] else _value(kinds[j], i, j) for j in range(len(kinds))] for i in range(rows)]
    cols = []
    for j, kd in enumerate(kinds):
        a = np.empty(rows, dtype=_DT[kd])
        for i in range(rows):
            a[i] = vals[i][j]
        cols.append(a)
    return cols, vals, miss


def n_patterns(rows, kinds):
    return 1 << (rows * sum(1 for k in kinds if k in NULLABLE))


def labels_for(n, prefix, scheme='str'):
    """'str': fixed-width str labels (<U2 index); 'obj': str and int labels mixed (object-dtype index)"""
    if scheme == 'str':
        return [f'{prefix}{i}' for i in range(n)]
    return [f'{prefix}{i}' if i % 2 == 0 else 10 * i + (1 if prefix == 'r' else 2) for i in range(n)]


ROOT_KEYS = {   # exceptions whose root lies in a shared helper get one key, independent of the entry point
    'np.in1d-removed-in-numpy2': 'C14:util.isin_array:np.in1d-removed-in-numpy2',
    'TypeError-NoneType-not-iterable': 'C14:Frame.reindex(index,columns):one-axis-without-common-labels-TypeError',
}


def raise_key(container, name, e):
    tag = exc_tag(e)
    return ROOT_KEYS.get(tag, f'C14:{container}.{name}:raises-{tag}')


def exc_tag(e):
    """stable root-cause tag for an exception raised by the operation under test"""
    msg = str(e)
    if isinstance(e, AttributeError) and 'in1d' in msg:
        return 'np.in1d-removed-in-numpy2'
    if isinstance(e, TypeError) and "'NoneType' object is not iterable" in msg:
        return 'TypeError-NoneType-not-iterable'
    return type(e).__name__


# ---------------------------------------------------------------------------------------------
# cell comparison

def is_missing(x):
    if x is None:
        return True
    if isinstance(x, (float, np.floating, complex, np.complexfloating)):
        return x != x
    if isinstance(x, (np.datetime64, np.timedelta64)):
        return bool(np.isnat(x))
    return False


def _isnum(x):
    return isinstance(x, (int, float, np.integer, np.floating)) and not isinstance(x, (bool, np.bool_))


def cell_ok(x, exp):
    if exp is NA:
        return is_missing(x)
    if is_missing(x):
        return False
    if _isnum(x) and _isnum(exp):
        return bool(x == exp)
    return _cell(x) == _cell(exp)


def frame_cells(f):
    """cells of a Frame result read block by block (no consolidation through .values)"""
    cols = []
    for b in f._blocks._blocks:
        if b.ndim == 1:
            cols.append(list(b))
        else:
            for k in range(b.shape[1]):
                cols.append(list(b[:, k]))
    rows = f._blocks._shape[0]
    return [[cols[j][i] for j in range(len(cols))] for i in range(rows)]


# ---------------------------------------------------------------------------------------------
# pure-Python reference (per cell)

def ref_grid(vals, miss):
    return [[NA if miss[i][j] else vals[i][j] for j in range(len(vals[i]))] for i in range(len(vals))]


def _lines(r, c, axis, reverse):
    """coordinate lines along which a fill travels: axis 0 -> down each column; axis 1 -> across each row"""
    if axis == 0:
        out = [[(i, j) for i in range(r)] for j in range(c)]
    else:
        out = [[(i, j) for j in range(c)] for i in range(r)]
    return [l[::-1] for l in out] if reverse else out


def ref_directional(vals, miss, axis, forward, limit):
    r, c = len(vals), (len(vals[0]) if vals else 0)
    out = ref_grid(vals, miss)
    for line in _lines(r, c, axis, not forward):
        last, have, run = None, False, 0
        for (i, j) in line:
            if miss[i][j]:
                if have:
                    run += 1
                    if limit == 0 or run <= limit:
                        out[i][j] = last
            else:
                last, have, run = vals[i][j], True, 0
    return out


def ref_sided(vals, miss, axis, leading, value):
    r, c = len(vals), (len(vals[0]) if vals else 0)
    out = ref_grid(vals, miss)
    for line in _lines(r, c, axis, not leading):
        for (i, j) in line:
            if not miss[i][j]:
                break
            out[i][j] = value
    return out


def ref_fill_element(vals, miss, value):
    return [[value if miss[i][j] else vals[i][j] for j in range(len(vals[i]))] for i in range(len(vals))]


def ref_fill_container(vals, miss, rlabels, clabels, filler):
    """filler: dict (row label, col label) -> value"""
    out = ref_grid(vals, miss)
    for i, rl in enumerate(rlabels):
        for j, cl in enumerate(clabels):
            if miss[i][j] and (rl, cl) in filler:
                out[i][j] = filler[(rl, cl)]
    return out


def ref_drop(miss, axis, cond_all):
    r, c = len(miss), (len(miss[0]) if miss else 0)
    agg = all if cond_all else any
    if axis == 0:
        keep_r = [i for i in range(r) if not agg(miss[i][j] for j in range(c))]
        return keep_r, list(range(c))
    keep_c = [j for j in range(c) if not agg(miss[i][j] for i in range(r))]
    return list(range(r)), keep_c


# ---------------------------------------------------------------------------------------------
# fillers (label aligned containers)

def frame_fillers(rlabels, clabels, tier):
    """name -> (builder(sf) -> Frame, dict of covered cells)"""
    out = {}
    # F1: full cover, both axes reversed, float values
    rl, cl = rlabels[::-1], clabels[::-1]
    d1 = {(a, b): 1000.25 + 10 * i + j for i, a in enumerate(rl) for j, b in enumerate(cl)}
    out['full-rev-float'] = (rl, cl, d1, np.float64)
    # F2: partial cover + extraneous labels, int values (the library aligns the filler with a dummy 0 that must never surface)
    rl, cl = rlabels[0::2] + ['zz'], clabels[1:] + ['qq']
    d2 = {(a, b): 500 + i + 10 * j for i, a in enumerate(rl) for j, b in enumerate(cl)}
    out['partial-int'] = (rl, cl, d2, np.int64)
    if tier != 'quick':
        rl, cl = rlabels[-1:], clabels[:]
        d3 = {(a, b): f'w{j}' for i, a in enumerate(rl) for j, b in enumerate(cl)}
        out['lastrow-str'] = (rl, cl, d3, '<U2')
    return out


def build_frame_filler(spec):
    import static_frame as sf
    rl, cl, d, dt = spec
    arr = np.empty((len(rl), len(cl)), dtype=dt)
    for i, a in enumerate(rl):
        for j, b in enumerate(cl):
            arr[i, j] = d[(a, b)]
    return sf.Frame(arr, index=rl, columns=cl)


def series_fillers(labels):
    out = {}
    rl = labels[::-1]
    out['full-rev-float'] = (rl, {a: 1000.25 + i for i, a in enumerate(rl)}, np.float64)
    rl = labels[0::2] + ['zz']
    out['partial-int'] = (rl, {a: 500 + i for i, a in enumerate(rl)}, np.int64)
    rl = labels[-1:]
    out['last-str'] = (rl, {a: 'ww' for a in rl}, '<U2')
    return out


def build_series_filler(spec):
    import static_frame as sf
    rl, d, dt = spec
    return sf.Series(np.array([d[a] for a in rl], dtype=dt), index=rl)


# ---------------------------------------------------------------------------------------------
# operation catalogue: op descriptor = tuple(name, *args)   (JSON friendly)

FILL_ELEMENTS = {'int': -1, 'str': 'zz', 'float': 2.5, 'bool': True}


def frame_ops(rows, ncols, tier):
    ops = [('isna',), ('notna',), ('count', 0), ('count', 1)]
    for axis in (0, 1):
        for cond in ('all', 'any'):
            ops.append(('dropna', axis, cond))
    elems = ('int', 'str') if tier == 'quick' else ('int', 'str', 'float', 'bool')
    for e in elems:
        ops.append(('fillna', e))
    for name in ('full-rev-float', 'partial-int') + (() if tier == 'quick' else ('lastrow-str',)):
        for scheme in ('str', 'obj'):
            ops.append(('fillna_frame', name, scheme))
    for axis in (0, 1):
        n = rows if axis == 0 else ncols
        for limit in range(0, n + 1):
            ops.append(('fillna_forward', limit, axis))
            ops.append(('fillna_backward', limit, axis))
        for e in (('int',) if tier == 'quick' else ('int', 'str')):
            ops.append(('fillna_leading', e, axis))
            ops.append(('fillna_trailing', e, axis))
    return ops


def series_ops(n):
    ops = [('isna',), ('notna',), ('count',), ('dropna',)]
    for e in ('int', 'str', 'float', 'bool'):
        ops.append(('fillna', e))
        ops.append(('fillna_leading', e))
        ops.append(('fillna_trailing', e))
    for name in ('full-rev-float', 'partial-int', 'last-str'):
        for scheme in ('str', 'obj'):
            ops.append(('fillna_series', name, scheme))
    for limit in range(0, n + 2):
        ops.append(('fillna_forward', limit))
        ops.append(('fillna_backward', limit))
    return ops


def opname(op, container):
    n = op[0]
    if container == 'frame':
        if n in ('fillna_forward', 'fillna_backward'):
            return f'{n}.axis{op[2]}'
        if n in ('fillna_leading', 'fillna_trailing'):
            return f'{n}.axis{op[2]}'
        if n == 'dropna':
            return f'dropna.axis{op[1]}.{op[2]}'
        if n == 'count':
            return f'count.axis{op[1]}'
    return n


# ---------------------------------------------------------------------------------------------
# expected results (layout independent) and checks

def frame_expected(op, vals, miss, rlabels, clabels, fillers):
    """('grid', grid) | ('mask', grid of bool) | ('drop', keep_rows, keep_cols) | ('count', list)"""
    n = op[0]
    r, c = len(vals), len(clabels)
    if n == 'isna':
        return ('mask', [[miss[i][j] for j in range(c)] for i in range(r)])
    if n == 'notna':
        return ('mask', [[not miss[i][j] for j in range(c)] for i in range(r)])
    if n == 'count':
        if op[1] == 0:
            return ('count', [sum(1 for i in range(r) if not miss[i][j]) for j in range(c)], clabels)
        return ('count', [sum(1 for j in range(c) if not miss[i][j]) for i in range(r)], rlabels)
    if n == 'dropna':
        kr, kc = ref_drop(miss, op[1], op[2] == 'all')
        return ('drop', kr, kc)
    if n == 'fillna':
        return ('grid', ref_fill_element(vals, miss, FILL_ELEMENTS[op[1]]))
    if n == 'fillna_frame':
        return ('grid', ref_fill_container(vals, miss, rlabels, clabels, fillers[op[1]][2]))
    if n in ('fillna_forward', 'fillna_backward'):
        return ('grid', ref_directional(vals, miss, op[2], n == 'fillna_forward', op[1]))
    if n in ('fillna_leading', 'fillna_trailing'):
        return ('grid', ref_sided(vals, miss, op[2], n == 'fillna_leading', FILL_ELEMENTS[op[1]]))
    raise ValueError(op)


def frame_apply(f, op, filler_frames):
    n = op[0]
    if n == 'isna':
        return f.isna()
    if n == 'notna':
        return f.notna()
    if n == 'count':
        return f.count(axis=op[1])
    if n == 'dropna':
        return f.dropna(axis=op[1], condition=np.all if op[2] == 'all' else np.any)
    if n == 'fillna':
        return f.fillna(FILL_ELEMENTS[op[1]])
    if n == 'fillna_frame':
        return f.fillna(filler_frames[op[1]])
    if n == 'fillna_forward':
        return f.fillna_forward(op[1], axis=op[2])
    if n == 'fillna_backward':
        return f.fillna_backward(op[1], axis=op[2])
    if n == 'fillna_leading':
        return f.fillna_leading(FILL_ELEMENTS[op[1]], axis=op[2])
    if n == 'fillna_trailing':
        return f.fillna_trailing(FILL_ELEMENTS[op[1]], axis=op[2])
    raise ValueError(op)


def grid_symptom(got, exp, vals, miss):
    """classify the first differing cell of a fill result"""
    for i in range(len(exp)):
        for j in range(len(exp[i])):
            if not cell_ok(got[i][j], exp[i][j]):
                if not miss[i][j]:
                    return 'nonmissing-cell-altered', (i, j)
                if exp[i][j] is NA:
                    return 'filled-where-spec-leaves-missing', (i, j)
                if is_missing(got[i][j]):
                    return 'missing-cell-not-filled', (i, j)
                return 'wrong-fill-value', (i, j)
    return None, None


def frame_verify(res, expd, vals, miss, rlabels, clabels, src):
    """-> None | (symptom, detail)"""
    import static_frame as sf
    kind = expd[0]
    r, c = len(rlabels), len(clabels)
    if kind == 'count':
        if not isinstance(res, sf.Series):
            return 'result-not-series', type(res).__name__
        got = [int(x) for x in res.values.tolist()]
        if list(res.index.values.tolist()) != list(expd[2]):
            return 'labels', f'{res.index.values.tolist()} vs {expd[2]}'
        if got != expd[1]:
            return 'count-wrong', f'{got} vs {expd[1]}'
        return None
    if not isinstance(res, sf.Frame):
        return 'result-not-frame', type(res).__name__
    if kind == 'drop':
        kr, kc = expd[1], expd[2]
        erl, ecl = [rlabels[i] for i in kr], [clabels[j] for j in kc]
        grl, gcl = list(res.index.values.tolist()), list(res.columns.values.tolist())
        if grl != erl or gcl != ecl:
            return 'dropped-wrong-labels', f'index {grl} columns {gcl} vs index {erl} columns {ecl}'
        if res.shape != (len(kr), len(kc)) or res._blocks._shape != (len(kr), len(kc)):
            return 'shape', f'{res.shape}/{res._blocks._shape} vs {(len(kr), len(kc))}'
        if kr and kc:
            got = frame_cells(res)
            for a, i in enumerate(kr):
                for b, j in enumerate(kc):
                    e = NA if miss[i][j] else vals[i][j]
                    if not cell_ok(got[a][b], e):
                        return 'kept-cell-altered', f'cell ({i},{j}) = {got[a][b]!r}, expected {e!r}'
        return None
    if res.shape != (r, c) or res._blocks._shape != (r, c):
        return 'shape', f'{res.shape}/{res._blocks._shape} vs {(r, c)}'
    if list(res.index.values.tolist()) != rlabels or list(res.columns.values.tolist()) != clabels:
        return 'labels', f'{res.index.values.tolist()} {res.columns.values.tolist()}'
    got = frame_cells(res)
    if kind == 'mask':
        for i in range(r):
            for j in range(c):
                x = got[i][j]
                if not isinstance(x, (bool, np.bool_)) or bool(x) != expd[1][i][j]:
                    return 'mask-wrong', f'cell ({i},{j}) = {x!r}, expected {expd[1][i][j]}'
        return None
    sym, at = grid_symptom(got, expd[1], vals, miss)
    if sym:
        i, j = at
        return sym, f'cell ({i},{j}) = {got[i][j]!r}, expected {"<missing>" if expd[1][i][j] is NA else repr(expd[1][i][j])}'
    return None


def _scheme(op):
    return op[2] if op[0] in ('fillna_frame', 'fillna_series') else 'str'


def check_frame_case(rows, kinds, pattern, lay, op, tier, cache=None):
    """run one (frame, op); -> None | (key, what).  cache: dict for the layout independent parts"""
    cache = {} if cache is None else cache
    if 'cols' not in cache:
        cache['cols'], cache['vals'], cache['miss'] = make_columns(rows, kinds, pattern)
        cache['exp'] = {}
    cols, vals, miss = cache['cols'], cache['vals'], cache['miss']
    scheme = _scheme(op)
    if ('labels', scheme) not in cache:
        rl, cl = labels_for(rows, 'r', scheme), labels_for(len(kinds), 'c', scheme)
        fillers = frame_fillers(rl, cl, 'thorough')
        cache[('labels', scheme)] = (rl, cl, fillers, {k: build_frame_filler(v) for k, v in fillers.items()})
    rlabels, clabels, fillers, filler_frames = cache[('labels', scheme)]
    expd = cache['exp'].get(op)
    if expd is None:
        expd = cache['exp'][op] = frame_expected(op, vals, miss, rlabels, clabels, fillers)
    f = cache.get(('frame', lay, scheme))
    if f is None:
        f = cache[('frame', lay, scheme)] = frame_from(cols, lay, index=rlabels, column_labels=clabels)
    name = opname(op, 'frame')
    where = f'kinds={kinds} rows={rows} pattern={pattern:#x} layout={lay}'
    try:
        res = frame_apply(f, op, filler_frames)
    except Exception as e:  # raised by the operation under test
        return (raise_key('frame', name, e), f'Frame.{op} raises {e!r} ({where})')
    v = frame_verify(res, expd, vals, miss, rlabels, clabels, f)
    if v is None:
        return None
    return (f'C14:frame.{name}:{v[0]}', f'Frame.{op}: {v[0]}: {v[1]} ({where})')


# ---------------------------------------------------------------------------------------------
# Series

def series_expected(op, vals, miss, labels, fillers):
    n = op[0]
    L = len(vals)
    v2 = [[x] for x in vals]
    m2 = [[x] for x in miss]
    if n == 'isna':
        return ('mask', list(miss))
    if n == 'notna':
        return ('mask', [not x for x in miss])
    if n == 'count':
        return ('count', sum(1 for x in miss if not x))
    if n == 'dropna':
        return ('drop', [i for i in range(L) if not miss[i]])
    if n == 'fillna':
        g = ref_fill_element(v2, m2, FILL_ELEMENTS[op[1]])
    elif n == 'fillna_series':
        d = fillers[op[1]][1]
        g = ref_fill_container(v2, m2, labels, ['c'], {(a, 'c'): x for a, x in d.items()})
    elif n in ('fillna_forward', 'fillna_backward'):
        g = ref_directional(v2, m2, 0, n == 'fillna_forward', op[1])
    elif n in ('fillna_leading', 'fillna_trailing'):
        g = ref_sided(v2, m2, 0, n == 'fillna_leading', FILL_ELEMENTS[op[1]])
    else:
        raise ValueError(op)
    return ('grid', [row[0] for row in g])


def series_apply(s, op, filler_series):
    n = op[0]
    if n == 'isna':
        return s.isna()
    if n == 'notna':
        return s.notna()
    if n == 'count':
        return s.count()
    if n == 'dropna':
        return s.dropna()
    if n == 'fillna':
        return s.fillna(FILL_ELEMENTS[op[1]])
    if n == 'fillna_series':
        return s.fillna(filler_series[op[1]])
    if n == 'fillna_forward':
        return s.fillna_forward(op[1])
    if n == 'fillna_backward':
        return s.fillna_backward(op[1])
    if n == 'fillna_leading':
        return s.fillna_leading(FILL_ELEMENTS[op[1]])
    if n == 'fillna_trailing':
        return s.fillna_trailing(FILL_ELEMENTS[op[1]])
    raise ValueError(op)


def check_series_case(n, kind, pattern, op):
    import static_frame as sf
    cols, vals2, miss2 = make_columns(n, (kind,), pattern)
    vals = [r[0] for r in vals2]
    miss = [r[0] for r in miss2]
    labels = labels_for(n, 'r', _scheme(op))
    fillers = series_fillers(labels)
    filler_series = {k: build_series_filler(v) for k, v in fillers.items()}
    expd = series_expected(op, vals, miss, labels, fillers)
    s = sf.Series(cols[0], index=labels, name='nm')
    name = op[0]
    try:
        res = series_apply(s, op, filler_series)
    except Exception as e:
        return (raise_key('series', name, e), f'Series.{op} raises {e!r} for kind={kind} n={n} pattern={pattern:#x}')
    where = f'(kind={kind} n={n} pattern={pattern:#x})'
    if expd[0] == 'count':
        if isinstance(res, (bool, np.bool_)) or int(res) != expd[1]:
            return (f'C14:series.count:count-wrong', f'Series.count = {res!r}, expected {expd[1]} {where}')
        return None
    if not isinstance(res, sf.Series):
        return (f'C14:series.{name}:result-not-series', f'{type(res).__name__} {where}')
    got = list(res.values)
    glabels = list(res.index.values.tolist())
    if expd[0] == 'drop':
        keep = expd[1]
        if glabels != [labels[i] for i in keep] or len(got) != len(keep):
            return (f'C14:series.dropna:dropped-wrong-labels', f'labels {glabels}, expected {[labels[i] for i in keep]} {where}')
        for a, i in enumerate(keep):
            if not cell_ok(got[a], vals[i]):
                return (f'C14:series.dropna:kept-cell-altered', f'cell {i} = {got[a]!r}, expected {vals[i]!r} {where}')
        return None
    if glabels != labels or len(got) != n:
        return (f'C14:series.{name}:labels', f'labels {glabels} {where}')
    if expd[0] == 'mask':
        for i in range(n):
            if not isinstance(got[i], (bool, np.bool_)) or bool(got[i]) != expd[1][i]:
                return (f'C14:series.{name}:mask-wrong', f'cell {i} = {got[i]!r}, expected {expd[1][i]} {where}')
        return None
    sym, at = grid_symptom([[x] for x in got], [[x] for x in expd[1]], [[x] for x in vals], [[x] for x in miss])
    if sym:
        i = at[0]
        return (f'C14:series.{name}:{sym}', f'Series.{op}: cell {i} = {got[i]!r}, expected {"<missing>" if expd[1][i] is NA else repr(expd[1][i])} {where}')
    return None


# ---------------------------------------------------------------------------------------------
# enumeration

M3_QUICK = [('fff', 3), ('fif', 3), ('OfM', 3), ('ffU', 3), ('bOO', 3), ('MMf', 2), ('OOO', 2)]      # (kinds, max rows)
M4_QUICK = ['ffff', 'ffOO', 'ifbf', 'fOMU', 'MMif', 'OiUf']                                              # rows 1..2
M4_THOROUGH_2ROWS = M4_QUICK + ['fOMf', 'MfMf', 'fMOb']
M4_THOROUGH_3ROWS = ['ffff', 'ifbf', 'fOMU', 'MMif', 'OiUf', 'fifU', 'iObM', 'fiiU', 'OffU']    # 3x4
M3_THOROUGH_3ROWS_ALL_NULLABLE = ['fff', 'ffO', 'OOO', 'MMM', 'fMf', 'OfM']   # 512 patterns each
CHUNK = 32


def kind_tuples(tier):
    """yields (rows, kinds)"""
    six = 'fOMibU'
    for m in (1, 2):
        for kinds in itertools.product(six, repeat=m):
            for rows in (1, 2, 3):
                yield rows, ''.join(kinds)
    if tier == 'quick':
        for kinds, top in M3_QUICK:
            for rows in range(1, top + 1):
                yield rows, kinds
        for kinds in M4_QUICK:
            for rows in (1, 2):
                yield rows, kinds
    else:
        for kinds in itertools.product(six, repeat=3):
            kinds = ''.join(kinds)
            for rows in (1, 2, 3):
                if rows == 3 and all(k in NULLABLE for k in kinds) and kinds not in M3_THOROUGH_3ROWS_ALL_NULLABLE:
                    continue
                yield rows, kinds
        seen = set()
        for kinds in itertools.product('fOiU', repeat=4):
            kinds = ''.join(kinds)
            if sum(1 for k in kinds if k in NULLABLE) <= 2:
                seen.add(kinds)
                yield 1, kinds
                yield 2, kinds
        for kinds in M4_THOROUGH_2ROWS:
            if kinds not in seen:
                yield 1, kinds
                yield 2, kinds
        for kinds in M4_THOROUGH_3ROWS:
            yield 3, kinds


def frame_cases(tier):
    """yields (rows, kinds, lo, hi): a chunk of missing patterns; heavy cases are cut into chunks so shards balance"""
    for rows, kinds in kind_tuples(tier):
        n = n_patterns(rows, kinds)
        for lo in range(0, n, CHUNK):
            yield ('frame', rows, kinds, lo, min(n, lo + CHUNK))


def series_cases(tier):
    top = 5 if tier == 'quick' else 7
    for kind in 'fOMibU':
        for n in range(1, top + 1):
            yield ('series', n, kind, 0, n_patterns(n, kind))


def run(repo, task):
    import static_frame as sf
    tier = task.get('tier', 'quick')
    rep = Report('C14-missing', task,
                 rule='every missing pattern x every dtype-safe layout x every op of the catalogue (isna, notna, count, dropna all/any both axes, fillna element/'
                      'aligned container, forward/backward limit 0..n both axes, leading/trailing both axes) for Frame; same for Series of length 1..5(7); '
                      'one evaluation = one (input, layout, op) compared cell by cell to the pure-Python reference; a case (input, op) is non-trivial when the input '
                      'holds >= 1 missing cell',
                 bound=('quick: all kind tuples over {float64, object(None/NaN/NaT), datetime64[D], int64, bool, <U3} for 1-2 columns x 1-3 rows, 7 tuples of 3 columns x 1-3 rows, '
                        '6 tuples of 4 columns x 1-2 rows (i.e. up to 3x3 and 2x4); Series length <= 5' if tier == 'quick' else
                        'thorough: all kind tuples for 1-3 columns x 1-3 rows (3x3 with three nullable columns: 6 of the 27 tuples), 4 columns x 1-2 rows for every tuple over {f,O,i,U} with <= 2 nullable columns plus 9 selected, '
                        '3x4 for 9 selected tuples (ffff: all 4096 patterns); Series length <= 7') + '; exhaustive over missing patterns, layouts and limits')
    cases = itertools.chain(series_cases(tier), frame_cases(tier))
    for case in rep.shard(cases):
        try:
            if case[0] == 'series':
                _, n, kind, lo, hi = case
                ops = series_ops(n)
                for pattern in range(lo, hi):
                    for op in ops:
                        r = check_series_case(n, kind, pattern, op)
                        rep.count(distinct_key=('s', n, kind, pattern, op) if pattern else None,
                                  sample=dict(container='Series', kind=kind, n=n, pattern=pattern, op=list(op)) if pattern else None)
                        if r is not None:
                            rep.fail(r[0], r[1], dict(container='series', n=n, kind=kind, pattern=pattern, op=list(op)))
                continue
            _, rows, kinds, lo, hi = case
            # the 4096-pattern case uses the shorter (quick) list of fill elements / fillers to stay inside the time budget
            ops = frame_ops(rows, len(kinds), 'quick' if n_patterns(rows, kinds) > 2048 else tier)
            proto, _, _ = make_columns(rows, kinds, 0)
            lays = list(layouts_dtype_safe(proto))
            for pattern in range(lo, hi):
                cache = {}
                for lay in lays:
                    for op in ops:
                        r = check_frame_case(rows, kinds, pattern, lay, op, tier, cache)
                        rep.count(distinct_key=('f', rows, kinds, pattern, op) if pattern else None,
                                  sample=dict(container='Frame', kinds=kinds, rows=rows, pattern=pattern, layout=str(lay), op=list(op)) if pattern else None)
                        if r is not None:
                            rep.fail(r[0], r[1], dict(container='frame', rows=rows, kinds=kinds, pattern=pattern, layout=[list(x) for x in lay], op=list(op)))
        except Exception:
            rep.error(f'C14 harness case {case}')
    return rep.done()


def replay(repo, rp):
    op = tuple(rp['op'])
    try:
        if rp['container'] == 'series':
            r = check_series_case(rp['n'], rp['kind'], rp['pattern'], op)
        else:
            lay = tuple(tuple(x) for x in rp['layout'])
            r = check_frame_case(rp['rows'], rp['kinds'], rp['pattern'], lay, op, 'thorough', None)
    except Exception as e:
        return dict(outcome='error', detail=repr(e))
    if r is None:
        return dict(outcome='pass')
    return dict(outcome='fail', key=r[0], what=r[1])
