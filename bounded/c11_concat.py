"""C11 bounded stand-in: concatenation and overlay keep every input cell exactly once, aligned by label.

Contract (run-time, real package).  Every input container is described by a *spec* (labels, column kinds, block
layout, missing pattern); the reference model is the dictionary  (row label, column label) -> value  of each
spec, never the library's own view of the container.

  Frame.from_concat / Series.from_concat
      labels on the concat axis  = the inputs' labels in input order (or the replacement index / 0..n-1 for
      IndexAutoFactory); labels on the other axis = union / intersection of the inputs' labels (as a set, no
      duplicates; order is not part of the property) or the explicitly given labels;
      cell(p, o) = value of the input that owns position p at label o, else the fill value;
      non-unique concat labels without a replacement index: construction must fail (any exception is accepted,
      the property does not name the class at this level).
  from_concat_items     same cells, concat-axis labels are the pairs (outer key, inner label).
  from_overlay          labels = union / intersection / explicit; cell = first non-missing value in input order
                        (an input that does not hold the label counts as missing), missing if there is none.
Values are compared cell by cell (type class strict, int->float of equal value tolerated, any of NaN/None/NaT
accepted where the reference says "missing"); dtypes are not demanded."""
from __future__ import annotations
import datetime
import itertools
import numpy as np
from .common import Report, layouts_dtype_safe, frame_from, _cell

NA = ('NA',)
NULLABLE = 'fOM'
FILLS = {'nan': float('nan'), 'none': None, 'zero': 0, 'str': 'F'}
_DT = {'f': np.float64, 'O': object, 'M': 'M8[D]', 'i': np.int64, 'b': bool, 'U': '<U4'}


# ---------------------------------------------------------------------------------------------
# specs -> values

def _value(cid, kind, i, j):
    if kind == 'i':
        return 1000 * (cid + 1) + 10 * i + j
    if kind == 'f':
        return 1000 * (cid + 1) + 10 * i + j + 0.5
    if kind == 'b':
        return (i + j + cid) % 2 == 0
    if kind == 'U':
        return f'{"xyzw"[cid]}{i}{j}'
    if kind == 'O':
        return f'o{cid}{i}{j}' if (i + j) % 2 else 7000 + 100 * cid + 10 * i + j
    if kind == 'M':
        return np.datetime64('2020-01-01') + (100 * cid + 10 * i + j)
    raise ValueError(kind)


def _missing(kind, i, j):
    if kind == 'f':
        return float('nan')
    if kind == 'M':
        return np.datetime64('NaT')
    return (None, float('nan'))[(i + j) % 2]


def is_missing(x):
    if x is None:
        return True
    if isinstance(x, (float, np.floating, complex, np.complexfloating)):
        return x != x
    if isinstance(x, (np.datetime64, np.timedelta64)):
        return bool(np.isnat(x))
    return False


def _isnum(x):
    return isinstance(x, (int, float, np.integer, np.floating)) and not isinstance(x, (bool, np.bool_))


def cell_ok(x, exp):
    if exp is NA or is_missing(exp):
        return is_missing(x)
    if is_missing(x):
        return False
    if _isnum(x) and _isnum(exp):
        return bool(x == exp)
    return _cell(x) == _cell(exp)


def spec_grid(spec):
    """values and missing mask of a spec as row-major grids (Series: one column)"""
    rows, kinds = spec['rows'], spec['kinds']
    nullable = [j for j, k in enumerate(kinds) if k in NULLABLE]
    k = len(nullable)
    pat = spec.get('miss', 0)
    grid = []
    for i in range(len(rows)):
        line = []
        for j, kd in enumerate(kinds):
            m = kd in NULLABLE and (pat >> (i * k + nullable.index(j))) & 1
            line.append(_missing(kd, i, j) if m else _value(spec['cid'], kd, i, j))
        grid.append(line)
    return grid


def spec_cells(spec):
    """(row label, column label) -> value; a Series spec is presented the way Frame.from_concat sees it"""
    g = spec_grid(spec)
    return {(r, c): g[i][j] for i, r in enumerate(spec['rows']) for j, c in enumerate(spec['cols'])}


def build(spec):
    import static_frame as sf
    g = spec_grid(spec)
    rows, kinds = spec['rows'], spec['kinds']
    cols = []
    for j, kd in enumerate(kinds):
        a = np.empty(len(rows), dtype=_DT[kd])
        for i in range(len(rows)):
            a[i] = g[i][j]
        cols.append(a)
    if spec['type'] == 'series':
        return sf.Series(cols[0], index=list(rows), name=spec['cols'][0])
    lays = list(layouts_dtype_safe(cols))
    lay = lays[spec.get('layout', 0) % len(lays)]
    return frame_from(cols, lay, index=list(rows), column_labels=list(spec['cols']), name=spec.get('name'))


def n_layouts(kinds):
    cols = [np.empty(1, dtype=_DT[k]) for k in kinds]
    return len(list(layouts_dtype_safe(cols)))


def fspec(cid, rows, cols, kinds, layout=0, miss=0):
    return dict(type='frame', cid=cid, rows=list(rows), cols=list(cols), kinds=kinds, layout=layout, miss=miss)


def sspec(cid, labels, kind, name, miss=0):
    # a Series is a one-column table whose column label is its name
    return dict(type='series', cid=cid, rows=list(labels), cols=[name], kinds=kind, miss=miss)


# ---------------------------------------------------------------------------------------------
# reading results

def labels_of(index):
    v = index.values
    if v.ndim == 2:
        return [tuple(_py(x) for x in row) for row in v]
    return [_py(x) for x in v]


def _py(x):
    return x.item() if isinstance(x, np.generic) else x


def frame_cells(f):
    cols = []
    for b in f._blocks._blocks:
        if b.ndim == 1:
            cols.append(list(b))
        else:
            for k in range(b.shape[1]):
                cols.append(list(b[:, k]))
    rows = f._blocks._shape[0]
    return [[cols[j][i] for j in range(len(cols))] for i in range(rows)]


def exc_tag(e):
    msg = str(e)
    if isinstance(e, AttributeError) and 'in1d' in msg:
        return 'np.in1d-removed-in-numpy2'
    if isinstance(e, TypeError) and "'NoneType' object is not iterable" in msg:
        return 'TypeError-NoneType-not-iterable'
    return type(e).__name__


def _lab_eq(a, b):
    """label equality that keeps 1 / True / '1' apart"""
    if isinstance(a, tuple) or isinstance(b, tuple):
        return isinstance(a, tuple) and isinstance(b, tuple) and len(a) == len(b) and all(_lab_eq(x, y) for x, y in zip(a, b))
    return type(a) is type(b) and a == b


def _labs_eq(a, b):
    return len(a) == len(b) and all(_lab_eq(x, y) for x, y in zip(a, b))


# ---------------------------------------------------------------------------------------------
# reference model

def _ordered_set(labelsets, union):
    if not labelsets:
        return []
    if union:
        out = []
        for ls in labelsets:
            for x in ls:
                if x not in out:
                    out.append(x)
        return out
    out = list(labelsets[0])
    for ls in labelsets[1:]:
        out = [x for x in out if x in ls]
    return out


def as_table(spec, axis):
    """how a spec enters a Frame concat along `axis`: (concat labels, other labels, cell(concat label, other label))"""
    cells = spec_cells(spec)
    if spec['type'] == 'series':
        name = spec['cols'][0]
        if axis == 0:   # a Series is one row: label = name, columns = its index
            return [name], list(spec['rows']), lambda p, o: cells[(o, name)]
        return [name], list(spec['rows']), lambda p, o: cells[(o, name)]
    if axis == 0:
        return list(spec['rows']), list(spec['cols']), lambda p, o: cells[(p, o)]
    return list(spec['cols']), list(spec['rows']), lambda p, o: cells[(o, p)]


def ref_concat(specs, axis, union, other_explicit):
    """-> (cat: list of (k, label)), other labels (reference order), getter(k, label, o) -> value | KeyError)"""
    tables = [as_table(s, axis) for s in specs]
    cat = [(k, lab) for k, t in enumerate(tables) for lab in t[0]]
    other = list(other_explicit) if other_explicit is not None else _ordered_set([t[1] for t in tables], union)
    def get(k, lab, o):
        t = tables[k]
        if o in t[1]:
            return True, t[2](lab, o)
        return False, None
    return cat, other, get


def has_dups(labels):
    seen = []
    for x in labels:
        for y in seen:
            if _lab_eq(x, y):
                return True
        seen.append(x)
    return False


def ref_overlay(specs, union, rows_explicit, cols_explicit):
    rows = list(rows_explicit) if rows_explicit is not None else _ordered_set([s['rows'] for s in specs], union)
    cols = list(cols_explicit) if cols_explicit is not None else _ordered_set([s['cols'] for s in specs], union)
    cells = [spec_cells(s) for s in specs]
    grid = {}
    for r in rows:
        for c in cols:
            v = NA
            for d in cells:
                if (r, c) in d and not is_missing(d[(r, c)]):
                    v = d[(r, c)]
                    break
            grid[(r, c)] = v
    return rows, cols, grid


# ---------------------------------------------------------------------------------------------
# one evaluation

EXPLICIT_OTHER = ['b', 'zz', 'a']


def _maybe_gen(items, gen):
    return (x for x in items) if gen else list(items)


SHARED = [0]


def check_case(specs, op):
    """-> (nontrivial: bool, None | (key, what))"""
    import static_frame as sf
    name = op[0]
    conts = [build(s) for s in specs]
    where = f'op={op} specs={[_short(s) for s in specs]}'
    n = len(specs)
    if name in ('frame_concat_items', 'series_concat_items'):
        # inputs with the same labels on the concatenated axis hold the SAME index object (as a frame and a frame derived from it do)
        axis_ = op[1] if name == 'frame_concat_items' else 0
        same_type = len({type(c_) for c_ in conts}) == 1
        for k in range(1, n if same_type else 0):
            for j in range(k):
                ixj = conts[j].index if axis_ == 0 else conts[j].columns
                ixk = conts[k].index if axis_ == 0 else conts[k].columns
                if ixk is not ixj and len(ixk) and ixk.equals(ixj, compare_dtype=True, compare_class=True, compare_name=True):
                    shared = conts[k].relabel(ixj) if axis_ == 0 else conts[k].relabel(columns=ixj)
                    if (shared.index if axis_ == 0 else shared.columns) is ixj:
                        conts[k] = shared
                        SHARED[0] += 1
                    break

    if name in ('frame_concat', 'frame_concat_items'):
        if name == 'frame_concat':
            _, axis, union, index_mode, other_mode, fillk, gen, consolidate = op
            keys = None
        else:
            _, axis, union, keys_mode, fillk, gen, consolidate = op
            index_mode, other_mode = 'none', 'none'
            keys = [('K0' if keys_mode == 'dup' else f'K{k}') for k in range(n)]
        fill = FILLS[fillk]
        other_explicit = EXPLICIT_OTHER if other_mode == 'explicit' else None
        cat, other, get = ref_concat(specs, axis, union, other_explicit)
        if keys is not None:
            exp_cat_labels = [(keys[k], lab) for k, lab in cat]
        elif index_mode == 'explicit':
            exp_cat_labels = [f'E{p}' for p in range(len(cat))]
        elif index_mode == 'auto':
            exp_cat_labels = list(range(len(cat)))
        else:
            exp_cat_labels = [lab for _, lab in cat]
        must_fail = has_dups(exp_cat_labels)
        opn = f'Frame.{"from_concat" if keys is None else "from_concat_items"}.axis{axis}'
        kw = dict(axis=axis, union=union, fill_value=fill, consolidate_blocks=consolidate)
        cat_kw, other_kw = ('index', 'columns') if axis == 0 else ('columns', 'index')
        if keys is None:
            if index_mode == 'explicit':
                kw[cat_kw] = list(exp_cat_labels)
            elif index_mode == 'auto':
                kw[cat_kw] = sf.IndexAutoFactory
            if other_explicit is not None:
                kw[other_kw] = list(other_explicit)
        try:
            if keys is None:
                res = sf.Frame.from_concat(_maybe_gen(conts, gen), **kw)
            else:
                res = sf.Frame.from_concat_items(_maybe_gen(list(zip(keys, conts)), gen), **kw)
        except Exception as e:
            if must_fail or (keys is not None and has_dups(keys)):
                # duplicate outer keys: the pairs (key, label) may still be unique, but a refusal is not judged
                return True, None
            if n == 0:
                return False, None   # the property does not say what an empty input yields; not judged
            return True, (_raise_key(opn, e, specs, len(cat) * len(other)), f'{opn} raises {e!r}; {where}')
        if must_fail:
            return True, (f'C11:{opn}:duplicate-labels-accepted', f'{opn} returned a container with duplicate labels {exp_cat_labels}; {where}')
        if n == 0:
            ok = isinstance(res, sf.Frame) and res.shape[0 if axis == 0 else 1] == 0
            return False, (None if ok else (f'C11:{opn}:empty-input-not-empty', f'{opn} of no containers has shape {res.shape}'))
        got_rows, got_cols = labels_of(res.index), labels_of(res.columns)
        got_cat, got_other = (got_rows, got_cols) if axis == 0 else (got_cols, got_rows)
        if not _labs_eq(got_cat, exp_cat_labels):
            return True, (f'C11:{opn}:concat-axis-labels', f'{opn}: labels on the concat axis {got_cat}, expected {exp_cat_labels}; {where}')
        if has_dups(got_other) or len(got_other) != len(other) or not all(any(_lab_eq(x, y) for y in other) for x in got_other):
            return True, (f'C11:{opn}:aligned-axis-labels', f'{opn}: labels on the aligned axis {got_other}, expected the set {other}; {where}')
        if res.shape != (len(got_rows), len(got_cols)) or res._blocks._shape != res.shape:
            return True, (f'C11:{opn}:shape', f'{opn}: shape {res.shape} / blocks {res._blocks._shape} vs labels {(len(got_rows), len(got_cols))}; {where}')
        if keys is not None:
            # the two-level label must address the content it was built for
            cat_index = res.index if axis == 0 else res.columns
            for p, lab2 in enumerate(exp_cat_labels):
                try:
                    pos = cat_index.loc_to_iloc(lab2)
                except Exception as e:
                    pos = f'raises {e!r}'
                if not (isinstance(pos, (int, np.integer)) and int(pos) == p):
                    return True, (f'C11:{opn}:two-level-label-lookup', f'{opn}: looking up {lab2!r} gives {pos!r}, it labels position {p}; {where}')
        cells = frame_cells(res) if res.shape[0] and res.shape[1] else []
        for p, (k, lab) in enumerate(cat):
            for q, o in enumerate(got_other):
                x = cells[p][q] if axis == 0 else cells[q][p]
                present, v = get(k, lab, o)
                if present:
                    if not cell_ok(x, v):
                        return True, (f'C11:{opn}:cell-lost-or-moved', f'{opn}: result[{exp_cat_labels[p]!r}, {o!r}] = {x!r}, input {k} holds {v!r} there; {where}')
                elif not cell_ok(x, fill):
                    return True, (f'C11:{opn}:fill-wrong', f'{opn}: result[{exp_cat_labels[p]!r}, {o!r}] = {x!r}, input {k} lacks the label so the fill value {fill!r} is expected; {where}')
        return len(cat) > 0, None

    if name in ('series_concat', 'series_concat_items'):
        if name == 'series_concat':
            _, index_mode, gen = op
            keys = None
        else:
            _, keys_mode, gen = op
            index_mode = 'none'
            keys = [('K0' if keys_mode == 'dup' else f'K{k}') for k in range(n)]
        cat = [(k, lab) for k, s in enumerate(specs) for lab in s['rows']]
        vals = [spec_cells(s)[(lab, s['cols'][0])] for k, s in enumerate(specs) for lab in s['rows']]
        if keys is not None:
            exp_labels = [(keys[k], lab) for k, lab in cat]
        elif index_mode == 'explicit':
            exp_labels = [f'E{p}' for p in range(len(cat))]
        elif index_mode == 'auto':
            exp_labels = list(range(len(cat)))
        else:
            exp_labels = [lab for _, lab in cat]
        must_fail = has_dups(exp_labels)
        opn = 'Series.from_concat' if keys is None else 'Series.from_concat_items'
        try:
            if keys is None:
                kw = {}
                if index_mode == 'explicit':
                    kw['index'] = list(exp_labels)
                elif index_mode == 'auto':
                    kw['index'] = sf.IndexAutoFactory
                res = sf.Series.from_concat(_maybe_gen(conts, gen), **kw)
            else:
                res = sf.Series.from_concat_items(_maybe_gen(list(zip(keys, conts)), gen))
        except Exception as e:
            if must_fail or (keys is not None and has_dups(keys)):
                return True, None
            if n == 0:
                return False, None
            return True, (_raise_key(opn, e, specs, len(cat)), f'{opn} raises {e!r}; {where}')
        if must_fail:
            return True, (f'C11:{opn}:duplicate-labels-accepted', f'{opn} returned a container with duplicate labels {exp_labels}; {where}')
        got_labels = labels_of(res.index)
        got = list(res.values)
        if not _labs_eq(got_labels, exp_labels) or len(got) != len(vals):
            return True, (f'C11:{opn}:concat-axis-labels', f'{opn}: labels {got_labels}, expected {exp_labels}; {where}')
        if keys is not None:
            for p, lab2 in enumerate(exp_labels):
                try:
                    pos = res.index.loc_to_iloc(lab2)
                except Exception as e:
                    pos = f'raises {e!r}'
                if not (isinstance(pos, (int, np.integer)) and int(pos) == p):
                    return True, (f'C11:{opn}:two-level-label-lookup', f'{opn}: looking up {lab2!r} gives {pos!r}, it labels position {p}; {where}')
        for p, v in enumerate(vals):
            if not cell_ok(got[p], v):
                return True, (f'C11:{opn}:cell-lost-or-moved', f'{opn}: result[{exp_labels[p]!r}] = {got[p]!r}, input holds {v!r}; {where}')
        return len(cat) > 0, None

    if name == 'frame_overlay':
        _, union, explicit, gen = op
        rows_e = ['b', 'zz', 'a'] if explicit else None
        cols_e = ['y', 'qq', 'x'] if explicit else None
        rows, cols, grid = ref_overlay(specs, union, rows_e, cols_e)
        opn = 'Frame.from_overlay'
        kw = dict(union=union)
        if explicit:
            kw.update(index=list(rows_e), columns=list(cols_e))
        try:
            res = sf.Frame.from_overlay(_maybe_gen(conts, gen), **kw)
        except Exception as e:
            if n == 0:
                return False, None
            return True, (_raise_key(opn, e, specs, len(rows) * len(cols)), f'{opn} raises {e!r}; {where}')
        got_rows, got_cols = labels_of(res.index), labels_of(res.columns)
        for got_l, exp_l, what in ((got_rows, rows, 'index'), (got_cols, cols, 'columns')):
            if has_dups(got_l) or len(got_l) != len(exp_l) or not all(any(_lab_eq(x, y) for y in exp_l) for x in got_l):
                return True, (f'C11:{opn}:aligned-axis-labels', f'{opn}: {what} {got_l}, expected the set {exp_l}; {where}')
        if res.shape != (len(rows), len(cols)) or res._blocks._shape != res.shape:
            return True, (f'C11:{opn}:shape', f'{opn}: shape {res.shape} / blocks {res._blocks._shape}; {where}')
        cells = frame_cells(res) if rows and cols else []
        for a, r in enumerate(got_rows):
            for b, c in enumerate(got_cols):
                if not cell_ok(cells[a][b], grid[(r, c)]):
                    e = grid[(r, c)]
                    return True, (f'C11:{opn}:{"cell-not-first-non-missing" if e is not NA else "cell-filled-from-nowhere"}',
                                  f'{opn}: result[{r!r}, {c!r}] = {cells[a][b]!r}, expected {"<missing>" if e is NA else repr(e)}; {where}')
        return bool(rows and cols), None

    if name == 'series_overlay':
        _, union, explicit, gen = op
        rows_e = ['b', 'zz', 'a'] if explicit else None
        flat = [dict(s, cols=['v']) for s in specs]
        rows, _, grid = ref_overlay(flat, union, rows_e, ['v'])
        opn = 'Series.from_overlay'
        kw = dict(union=union)
        if explicit:
            kw['index'] = list(rows_e)
        try:
            res = sf.Series.from_overlay(_maybe_gen(conts, gen), **kw)
        except Exception as e:
            if n == 0:
                return False, None
            return True, (_raise_key(opn, e, specs, len(rows)), f'{opn} raises {e!r}; {where}')
        got_rows = labels_of(res.index)
        if has_dups(got_rows) or len(got_rows) != len(rows) or not all(any(_lab_eq(x, y) for y in rows) for x in got_rows):
            return True, (f'C11:{opn}:aligned-axis-labels', f'{opn}: index {got_rows}, expected the set {rows}; {where}')
        got = list(res.values)
        for a, r in enumerate(got_rows):
            e = grid[(r, 'v')]
            if not cell_ok(got[a], e):
                return True, (f'C11:{opn}:{"cell-not-first-non-missing" if e is not NA else "cell-filled-from-nowhere"}',
                              f'{opn}: result[{r!r}] = {got[a]!r}, expected {"<missing>" if e is NA else repr(e)}; {where}')
        return bool(rows), None
    raise ValueError(op)


def _raise_key(opn, e, specs, n_cells):
    """zero-size results / empty inputs are a different defect class than a raise on ordinary inputs: they get one key
    per exception class, independent of the entry point (from_concat_items delegates to from_concat)"""
    if exc_tag(e) == 'np.in1d-removed-in-numpy2':
        return 'C11:util.isin_array:np.in1d-removed-in-numpy2'
    if n_cells == 0 or any(len(s['rows']) == 0 or len(s['cols']) == 0 for s in specs):
        return f'C11:degenerate-input-or-zero-size-result:raises-{exc_tag(e)}'
    return f'C11:{opn}:raises-{exc_tag(e)}'


def _short(s):
    return f"{s['type'][0]}{s['cid']}:{s['rows']}x{s['cols']}:{s['kinds']}:L{s.get('layout', 0)}:m{s.get('miss', 0):#x}"


# ---------------------------------------------------------------------------------------------
# enumeration

LABELSETS_Q = [('a', 'b', 'c'), ('c', 'a', 'b'), ('b', 'c', 'd'), ('x', 'y'), ('b',)]
LABELSETS_T = LABELSETS_Q + [('a', 'b'), (1, 2, 'a')]
KINDS3 = ['iii', 'iif', 'ifU', 'ffb', 'OiO', 'UUU', 'bbi', 'fff', 'MMf', 'OOb']


def _kinds_for(width, salt):
    base = KINDS3[salt % len(KINDS3)]
    return (base * 2)[:width] if width else ''


def family_align(tier):
    """label alignment x options; kinds / layouts / fill / generator / consolidate cycle deterministically"""
    sets = LABELSETS_Q if tier == 'quick' else LABELSETS_T
    c = 0
    for n in (0, 1, 2, 3):
        for others in itertools.product(sets, repeat=n):
            for cat_mode in (('unique',) if n < 2 else ('unique', 'dup')):
                for axis in (0, 1):
                    specs = []
                    for k, oth in enumerate(others):
                        c += 1
                        if cat_mode == 'dup':
                            catl = ['p', f'q{k}']
                        else:
                            catl = [f'r{k}{i}' for i in range(1 + (c + k) % 3)] if (c + k) % 7 else []
                        kinds = _kinds_for(len(oth), c + k)
                        if (c % 5 == 0) and k == n - 1 and catl:
                            # a Series among the inputs: one row (axis 0) / one column (axis 1) labelled by its name
                            specs.append(sspec(k, oth, kinds[0], catl[0]))
                            continue
                        rows, cols = (catl, oth) if axis == 0 else (oth, catl)
                        kk = kinds if axis == 0 else _kinds_for(len(catl), c + k)
                        specs.append(fspec(k, rows, cols, kk, layout=c % 7))
                    for union in (True, False):
                        for index_mode in ('none', 'explicit', 'auto'):
                            for fillk in ('nan', 'none', 'zero', 'str'):
                                c += 1
                                yield specs, ('frame_concat', axis, union, index_mode, 'explicit' if c % 4 == 0 else 'none', fillk, c % 3 == 0, c % 5 == 1)
                        for keys_mode in ('unique', 'dup'):
                            c += 1
                            if cat_mode == 'dup' or keys_mode == 'dup' and c % 3:
                                continue
                            yield specs, ('frame_concat_items', axis, union, keys_mode, ('nan', 'str', 'none', 'zero')[c % 4], c % 2 == 0, c % 5 == 1)


def family_layout(tier):
    """every (kinds, layout) pair of two 3-column frames (vstack strategies: block-compatible / reblock / per column)"""
    menu = KINDS3[:6] if tier == 'quick' else KINDS3
    relations = {'same': ('a', 'b', 'c'), 'permuted': ('c', 'a', 'b'), 'partial': ('b', 'c', 'd')}
    variants = [(k, l) for k in menu for l in range(n_layouts(k))]
    c = 0
    for (k0, l0) in variants:
        for (k1, l1) in variants:
            for rel, other1 in relations.items():
                c += 1
                for axis in (0, 1):
                    def mk(cid, kinds, lay, oth, catl):
                        # the typed direction is always the columns: along axis 1 the other axis is the index
                        if axis == 0:
                            return fspec(cid, catl, oth, kinds, layout=lay)
                        return fspec(cid, oth, catl, kinds, layout=lay)
                    if axis == 0:
                        specs = [mk(0, k0, l0, ('a', 'b', 'c'), ['r00', 'r01']), mk(1, k1, l1, other1, ['r10', 'r11', 'r12'])]
                        if c % 4 == 0:
                            specs.append(mk(2, k0, l0, ('a', 'b', 'c'), ['r20']))
                    else:
                        specs = [mk(0, k0, l0, ('a', 'b', 'c'), ['c00', 'c01', 'c02']), mk(1, k1, l1, other1, ['c10', 'c11', 'c12'])]
                    yield specs, ('frame_concat', axis, c % 5 != 0, 'none', 'none', ('nan', 'none', 'str')[c % 3], False, c % 7 == 0)


def family_series(tier):
    sets = LABELSETS_Q if tier == 'quick' else LABELSETS_T
    kinds = 'ifbUOM'
    c = 0
    for n in (0, 1, 2, 3):
        for labs in itertools.product(sets + [()], repeat=n):
            c += 1
            for disjoint in (False, True):
                specs = []
                for k, l in enumerate(labs):
                    ll = [f'{x}{k}' if disjoint and isinstance(x, str) else (x + 10 * k if disjoint else x) for x in l]
                    specs.append(sspec(k, ll, kinds[(c + k) % 6] if (c % 4) else kinds[c % 6], 'nm' if c % 2 else f'n{k}'))
                for index_mode in ('none', 'explicit', 'auto'):
                    for gen in (False, True):
                        yield specs, ('series_concat', index_mode, gen)
                for keys_mode in ('unique', 'dup'):
                    yield specs, ('series_concat_items', keys_mode, c % 2 == 0)


OV_ROWS = {'same': ('a', 'b'), 'partial': ('b', 'c'), 'permuted': ('b', 'a')}
OV_COLS = {'same': ('x', 'y'), 'partial': ('y', 'z'), 'permuted': ('y', 'x')}
OV_KINDS = ['ff', 'fO', 'Of', 'MM', 'fi', 'Ub', 'OO', 'iM']


def family_overlay(tier):
    """exhaustive missing patterns over 2x2 inputs"""
    def npat(kinds):
        return 1 << (2 * sum(1 for k in kinds if k in NULLABLE))
    kind_pairs = [(a, b) for a in OV_KINDS for b in OV_KINDS]
    if tier == 'quick':
        kind_pairs = [p for i, p in enumerate(kind_pairs) if i % 3 == 0]
    c = 0
    for (k0, k1) in kind_pairs:
        for rrel, rows1 in OV_ROWS.items():
            for crel, cols1 in OV_COLS.items():
                for p0 in range(npat(k0)):
                    for p1 in range(npat(k1)):
                        c += 1
                        if tier == 'quick' and npat(k0) * npat(k1) > 16 and (c % 3):
                            continue
                        specs = [fspec(0, ('a', 'b'), ('x', 'y'), k0, layout=c % 3, miss=p0),
                                 fspec(1, rows1, cols1, k1, layout=(c // 3) % 3, miss=p1)]
                        if c % 6 == 0:
                            specs.append(fspec(2, ('c', 'a', 'b'), ('z', 'x', 'y'), 'fUO', layout=c % 4, miss=c % 64))
                        yield specs, ('frame_overlay', c % 3 != 0, c % 11 == 0, c % 2 == 0)
    # single input, and Series
    for k0 in OV_KINDS:
        for p0 in range(npat(k0)):
            yield [fspec(0, ('a', 'b'), ('x', 'y'), k0, miss=p0)], ('frame_overlay', True, p0 % 2 == 1, False)
    yield [], ('frame_overlay', True, False, False)
    yield [], ('series_overlay', True, False, False)
    kinds = 'fOMiUb'
    label_schemes = ([('a', 'b', 'c'), ('b', 'c', 'd'), ('c', 'a', 'b'), ('x',)],        # <U1 index
                     [('a', 2, 'c'), (2, 'c', 'd'), ('c', 'a', 2), ('x', 3)])             # object index
    for labs in label_schemes:
        for n in (1, 2, 3):
            for ks in itertools.product(kinds, repeat=n):
                if tier == 'quick' and n == 3 and ks[0] not in 'fO':
                    continue
                for ls in itertools.product(labs, repeat=n - 1):
                    pats = [range(1 << (len(l) if k in NULLABLE else 0)) for k, l in zip(ks, (labs[0],) + ls)]
                    for ps in itertools.product(*pats):
                        c += 1
                        if n == 3 and c % (8 if tier == 'quick' else 2):
                            continue
                        specs = [sspec(k, l, kd, 'nm', miss=p) for k, (kd, l, p) in enumerate(zip(ks, (labs[0],) + ls, ps))]
                        yield specs, ('series_overlay', c % 3 != 0, c % 7 == 0, c % 2 == 0)


def family_empty_inputs(tier):
    """inputs without any label on the aligned axis in leading / middle / trailing positions: the labels (and cells) of the other inputs all survive"""
    full = ('a', 'b', 'c')
    c = 0
    for kind in 'fOi':
        for shape in ((0, 0, 1), (0, 1, 0), (1, 0, 0), (0, 0, 0, 1), (0, 1, 0, 1), (0, 0, 1, 1), (0, 1), (1, 0)):
            for miss in (0, 2):
                c += 1
                specs = [sspec(k, full if flag else (), kind, 'nm', miss=(miss if flag and kind in NULLABLE else 0)) for k, flag in enumerate(shape)]
                yield specs, ('series_overlay', c % 3 != 0, False, c % 2 == 0)
    for shape in ((0, 0, 1), (0, 1, 0), (1, 0, 0), (0, 0, 1, 1)):
        c += 1
        specs = [fspec(k, ('a', 'b') if flag else (), ('x', 'y') if flag else (), 'ff' if flag else '', layout=0, miss=(5 if flag else 0)) for k, flag in enumerate(shape)]
        yield specs, ('frame_overlay', True, False, c % 2 == 0)


def family_shared_axis(tier):
    """from_concat_items over frames that carry the same labels on the concatenated axis (check_case makes them hold ONE index object)"""
    sets = LABELSETS_Q if tier == 'quick' else LABELSETS_T
    c = 0
    for n in (2, 3):
        for catl in (['r0', 'r1'], ['r0'], ['r0', 'r1', 'r2']):
            for si in range(len(sets)):
                for axis in (0, 1):
                    specs = []
                    for k in range(n):
                        c += 1
                        oth = sets[(si + (k if c % 2 else 0)) % len(sets)]
                        rows, cols = (catl, oth) if axis == 0 else (oth, catl)
                        kk = _kinds_for(len(cols), c + k)
                        specs.append(fspec(k, rows, cols, kk, layout=c % 7))
                    for union in (True, False):
                        c += 1
                        yield specs, ('frame_concat_items', axis, union, 'unique', ('nan', 'str', 'none', 'zero')[c % 4], c % 2 == 0, c % 5 == 1)


def _same_labels(got, want):
    """label by label the same value (a date given per year may come back as the first day of that year: the same instant; a day cut to its year is another label)"""
    if len(got) != len(want):
        return False
    for g, w in zip(got, want):
        try:
            if not bool(g == w):
                return False
        except Exception:
            return False
        if isinstance(w, np.datetime64) != isinstance(g, np.datetime64) and not isinstance(g, (datetime.date,)):
            return False
    return True


def run_index_classes(repo, task):
    """concatenation of inputs whose labels on the concatenated axis are held by DIFFERENT index classes (date indices of different resolution, plain indices) and
    carry the same or different index names: the result lists every input label unchanged (a label is never re-interpreted in another input's resolution)"""
    import static_frame as sf
    rep = Report('C11-index-classes', task, rule='every ordered pair / triple of {IndexYear, IndexYearMonth, IndexDate, Index[str], Index[int]} x index names same / different '
                 'x Series.from_concat, Frame.from_concat axis 0 and 1: labels of the result = labels of the inputs in order', bound='<= 3 inputs, 2 labels each')
    mk = {
        'year': lambda k, n: sf.IndexYear([f'{2010 + 2 * k}', f'{2011 + 2 * k}'], name=n),
        'month': lambda k, n: sf.IndexYearMonth([f'{2030 + k}-01', f'{2030 + k}-07'], name=n),
        'date': lambda k, n: sf.IndexDate([f'{2040 + k}-05-03', f'{2040 + k}-11-30'], name=n),
        'str': lambda k, n: sf.Index([f's{k}a', f's{k}b'], name=n),
        'int': lambda k, n: sf.Index([100 * (k + 1), 100 * (k + 1) + 1], name=n),
    }
    combos = [c for r in (2, 3) for c in itertools.product(mk, repeat=r)]
    only = task.get('only')
    for combo in rep.shard(combos):
        if only and tuple(combo) != tuple(only['combo']):
            continue
        for names in ('same', 'different', 'none'):
            if only and names != only['names']:
                continue
            idxs = [mk[c](k, {'same': 'nm', 'different': f'nm{k}', 'none': None}[names]) for k, c in enumerate(combo)]
            want = [l for ix in idxs for l in ix.values]
            for route in ('series', 'frame0', 'frame1'):
                if only and route != only['route']:
                    continue
                rp = dict(combo=list(combo), names=names, route=route)
                rep.count(distinct_key=(combo, names, route), sample=rp)
                try:
                    if route == 'series':
                        r = sf.Series.from_concat([sf.Series([10 * k, 10 * k + 1], index=ix) for k, ix in enumerate(idxs)])
                        got = list(r.index.values)
                    elif route == 'frame0':
                        r = sf.Frame.from_concat([sf.Frame.from_dict(dict(a=[k, k + 1]), index=ix) for k, ix in enumerate(idxs)], axis=0)
                        got = list(r.index.values)
                    else:
                        r = sf.Frame.from_concat([sf.Frame(np.array([[k, k + 1]]), index=('r',), columns=ix) for k, ix in enumerate(idxs)], axis=1)
                        got = list(r.columns.values)
                except Exception as e:
                    rep.fail(f'C11:index-classes:{route}:raises-{type(e).__name__}', f'{route} concat of index classes {combo} (names {names}) raises {e!r}', rp)
                    continue
                rep.check(_same_labels(got, want), f'C11:index-classes:{route}:labels-changed', f'{route} concat of index classes {combo} (names {names}): labels {[str(x) for x in got]}, inputs hold {[str(x) for x in want]}', rp)
    return rep.done()


def replay_index_classes(repo, rp):
    r = run_index_classes(repo, dict(tier='quick', shard=0, nshards=1, only=dict(combo=tuple(rp['combo']), names=rp['names'], route=rp['route'])))
    fails = list(r['failures'].values()) if isinstance(r['failures'], dict) else list(r['failures'])
    return dict(outcome='fail', key=fails[0]['key'], what=fails[0]['what']) if fails else dict(outcome='pass')


def cases(tier):
    return itertools.chain(family_empty_inputs(tier), family_series(tier), family_align(tier), family_layout(tier), family_overlay(tier), family_shared_axis(tier))


def run(repo, task):
    tier = task.get('tier', 'quick')
    rep = Report('C11-concat', task,
                 rule='one evaluation = one call of Frame/Series.from_concat, from_concat_items or from_overlay on 0..3 spec-built inputs, compared label by label and '
                      'cell by cell with the dictionary reference; families: label alignment (every tuple of label sets x unique/duplicated concat labels x axis x union x '
                      'index none/explicit/IndexAutoFactory x fill value; Series among the inputs; generator inputs; explicit aligned-axis labels), block layout (every pair of '
                      '(kinds, dtype-safe layout) of two 3-column frames x same/permuted/partial labels x axis), Series concat, overlay (every missing pattern of 2x2 inputs x '
                      'row/column relation x kinds), inputs without any label on the aligned axis in leading / middle / trailing positions (2-4 inputs), from_concat_items inputs holding one and the same index object on the concatenated axis; non-trivial when the expected result holds >= 1 cell or a duplicate-label refusal is expected',
                 bound=('quick' if tier == 'quick' else 'thorough') + ': <= 3 inputs, <= 3 labels per axis and input, label sets '
                       + repr(LABELSETS_Q if tier == 'quick' else LABELSETS_T) + ', kinds {int64,float64,bool,<U4,object,datetime64[D]}, fill in {nan,None,0,"F"}')
    for i, (specs, op) in enumerate(rep.shard(cases(tier))):
        try:
            nontrivial, r = check_case(specs, op)
        except Exception:
            rep.error(f'C11 harness specs={[_short(s) for s in specs]} op={op}')
            continue
        rep.count(distinct_key=(repr(specs), op) if nontrivial else None,
                  sample=dict(op=list(op), inputs=[_short(s) for s in specs]) if nontrivial else None)
        if r is not None:
            rep.fail(r[0], r[1], dict(specs=specs, op=list(op)))
    return rep.done()


def replay(repo, rp):
    if 'combo' in rp:
        return replay_index_classes(repo, rp)
    try:
        _, r = check_case(rp['specs'], tuple(rp['op']))
    except Exception as e:
        return dict(outcome='error', detail=repr(e))
    if r is None:
        return dict(outcome='pass')
    return dict(outcome='fail', key=r[0], what=r[1])
