"""C12 bounded stand-in: sorting permutes whole rows, orders the keys, is stable.

Contract (run-time, real package).  The input container is modelled as a list of (label, row) pairs; the reference arrangement is
Python's stable  sorted(pairs, key=...)  and, for descending, exactly its reverse (as the property defines it).  Checked for
Index.sort, IndexHierarchy.sort, Series.sort_index / sort_values, Frame.sort_index / sort_columns / sort_values (both axes):

  * result (label, row) sequence == reference (classified on mismatch: rows not permuted as wholes / keys not ordered / tie order);
  * the other axis, the container name, the index names and the per-column dtypes are carried over unchanged.

A result order that an IndexHierarchy cannot represent (not a tree form) is a precondition failure of the case, not a violation."""
from __future__ import annotations
import itertools
import numpy as np
from .common import Report, layouts_dtype_safe, frame_from

PID = 'C12'


# =============================================================================================
# helpers

def labels_of(idx):
    if getattr(idx, 'depth', 1) > 1:
        return [tuple(r) for r in idx.values.tolist()]
    v = idx.values
    return v.tolist() if v.dtype.kind != 'O' else list(v)


def _py(v):
    return v.item() if isinstance(v, np.generic) else v


def tree_form(labels):
    """can an IndexHierarchy (a tree) hold these tuples in this order?  every prefix must be contiguous"""
    if not labels or not isinstance(labels[0], tuple):
        return True
    depth = len(labels[0])
    for d in range(1, depth):
        seen, last = set(), None
        for l in labels:
            p = l[:d]
            if p != last:
                if p in seen:
                    return False
                seen.add(p)
                last = p
    return True


def reference(pairs, pykey, ascending):
    """pairs: list of (label, row);  pykey: (label, row) -> sort key"""
    asc = sorted(pairs, key=pykey)
    return asc if ascending else asc[::-1]


def classify(got, exp, inp, pykey, ascending):
    """defect class of a wrong arrangement"""
    def canon(ps):
        return sorted(map(repr, ps))
    if canon(got) != canon(inp):
        return 'rows-not-kept-whole'
    keys = [pykey(p) for p in got]
    mono = all((a <= b) if ascending else (a >= b) for a, b in zip(keys, keys[1:]))
    if not mono:
        return 'keys-not-ordered'
    return 'tie-order'


def mk_index(spec, labels, name='iname', like=None):
    """spec: 'Index' | 'IndexGO' | 'IndexDate' | 'IH' | 'IHGO';  like: labels fixing the dtype of an empty index"""
    import static_frame as sf
    if not labels and like and spec in ('Index', 'IndexGO'):
        return getattr(sf, spec)((), name=name, dtype=np.array(like).dtype)
    if spec in ('IH', 'IHGO'):
        cls = sf.IndexHierarchy if spec == 'IH' else sf.IndexHierarchyGO
        return cls.from_labels(labels, name=name, depth_reference=len(labels[0]) if labels else 2)
    cls = getattr(sf, spec)
    return cls(labels, name=name)


# key functions: name -> (callable applied by the package, python key on one label / value, applicable predicate)
def index_keys():
    import static_frame as sf
    return {
        'none': (None, lambda l: l),
        'neg-array': (lambda i: -i.values, lambda l: -l),
        'mod2-array': (lambda i: i.values % 2, lambda l: l % 2),
        'abs-array': (lambda i: np.abs(i.values), lambda l: abs(l)),
        'lower-array': (lambda i: np.char.lower(i.values), lambda l: l.lower()),
        'len-array': (lambda i: np.char.str_len(i.values), lambda l: len(l)),
        'const-array': (lambda i: np.zeros(len(i), dtype=int), lambda l: 0),
        'identity-index': (lambda i: i, lambda l: l),
    }


def hier_keys():
    import static_frame as sf
    return {
        'none': (None, lambda l: l),
        'depth1-array': (lambda i: i.values_at_depth(1), lambda l: l[1]),
        'depth0-array': (lambda i: i.values_at_depth(0), lambda l: l[0]),
        'flip-2d-array': (lambda i: np.column_stack([i.values_at_depth(d) for d in range(i.depth - 1, -1, -1)]), lambda l: tuple(l[::-1])),
        'identity-hierarchy': (lambda i: i, lambda l: l),
        'const-array': (lambda i: np.zeros(len(i), dtype=int), lambda l: 0),
    }


INDEX_POOLS = {
    # name: (class spec, labels, applicable key names)
    'int': ('Index', [3, -1, 2, 0], ('none', 'neg-array', 'mod2-array', 'abs-array', 'const-array', 'identity-index')),
    'intGO': ('IndexGO', [3, -1, 2, -2], ('none', 'abs-array', 'mod2-array')),
    # positions: in their natural order these are the labels of an auto-supplied index
    'pos': ('Index', [0, 1, 2, 3], ('none', 'neg-array', 'mod2-array', 'const-array', 'identity-index')),
    'float': ('Index', [1.5, -2.0, 0.25, -0.25], ('none', 'neg-array', 'abs-array', 'identity-index')),
    'str': ('Index', ['b', 'A', 'a', 'Bc'], ('none', 'lower-array', 'len-array', 'const-array', 'identity-index')),
    'date': ('IndexDate', ['2020-03-01', '2019-12-31', '2020-01-15', '2020-02-29'], ('none', 'const-array', 'identity-index')),
    # 40 labels: long enough that an unstable sort kind (quicksort / heapsort) reorders ties (NumPy sorts short arrays by insertion)
    'intlong': ('Index', [(i * 37) % 101 - 50 for i in range(40)], ('none', 'mod2-array', 'abs-array', 'const-array')),
}
LONG = 40


def _long_labels(n):
    return [1000 - 7 * i for i in range(n)]
HIER_POOLS = {
    'd2': ('IH', [('b', 2), ('b', 1), ('a', 2), ('a', 3), ('c', 1)], ('none', 'depth1-array', 'depth0-array', 'flip-2d-array', 'identity-hierarchy', 'const-array')),
    'd2i': ('IH', [(2, -1), (2, 5), (1, 5), (0, 0)], ('none', 'depth1-array', 'flip-2d-array', 'identity-hierarchy')),
    'd3': ('IH', [('a', 1, 'y'), ('a', 1, 'x'), ('a', 0, 'x'), ('b', 1, 'x')], ('none', 'depth1-array', 'flip-2d-array', 'identity-hierarchy')),
    'd2GO': ('IHGO', [('b', 2), ('b', 1), ('a', 2)], ('none', 'depth1-array')),
}


def _canon_labels(spec, labels):
    """labels as the package reports them (dates become datetime.date)"""
    return labels_of(mk_index(spec, labels))


# =============================================================================================
# Index.sort / IndexHierarchy.sort

def check_index_case(p):
    """p: dict(pool, order (positions), ascending, key)"""
    hier = p['pool'] in HIER_POOLS
    spec, universe, _ = (HIER_POOLS if hier else INDEX_POOLS)[p['pool']]
    labels = [universe[i] for i in p['order']]
    if hier and not tree_form(labels):
        return None, False
    try:
        idx = mk_index(spec, labels, like=universe)
    except Exception as e:
        if type(e).__name__ == 'ErrorInitIndex' and hier:
            return None, False
        raise
    fn, pyk = (hier_keys() if hier else index_keys())[p['key']]
    inp = [(l, ()) for l in labels_of(idx)]
    pykey = lambda pr: pyk(pr[0])
    exp = reference(inp, pykey, p['ascending'])
    area = f"{PID}:{'IndexHierarchy' if hier else 'Index'}.sort"
    desc = f"{spec}({labels}).sort(ascending={p['ascending']}, key={p['key']})"
    try:
        r = idx.sort(ascending=p['ascending'], key=fn) if fn is not None else idx.sort(ascending=p['ascending'])
    except Exception as e:
        if hier and type(e).__name__ == 'ErrorInitIndex' and not tree_form([l for l, _ in exp]):
            return [], False        # the sorted order is not a tree form: cannot be held by an IndexHierarchy
        return [(f'{area}:raises-{type(e).__name__}', f'{desc} raises {e!r}')], True
    fails = []
    got = [(l, ()) for l in labels_of(r)]
    if got != exp:
        fails.append((f'{area}:{classify(got, exp, inp, pykey, p["ascending"])}', f'{desc} gives {[l for l, _ in got]}, reference {[l for l, _ in exp]}'))
    if r.name != idx.name:
        fails.append((f'{area}:name-lost', f'{desc}: name {idx.name!r} became {r.name!r}'))
    if type(r) is not type(idx):
        fails.append((f'{area}:class-changed', f'{desc}: returns {type(r).__name__}'))
    if not hier and r.values.dtype != idx.values.dtype:
        fails.append((f'{area}:dtype-changed', f'{desc}: dtype {idx.values.dtype} became {r.values.dtype}'))
    if hier and [str(d) for d in r.dtypes.values] != [str(d) for d in idx.dtypes.values]:
        fails.append((f'{area}:dtype-changed', f'{desc}: depth dtypes {list(idx.dtypes.values)} became {list(r.dtypes.values)}'))
    return fails, len(labels) > 1


# =============================================================================================
# Series

SERIES_VALUES = {
    # kind: (alphabet, dtype, key names)
    'int': ([-1, 0, 2], np.int64, ('none', 'neg-container', 'abs-array', 'mod2-array')),
    'float': ([-1.5, 0.0, 2.25], np.float64, ('none', 'neg-container', 'abs-array')),
    'str': (['b', 'a', 'B'], '<U1', ('none', 'lower-array')),
    'bool': ([True, False], bool, ('none',)),
}


def series_keys():
    return {
        'none': (None, lambda v: v),
        'neg-container': (lambda s: -s, lambda v: -v),
        'abs-array': (lambda s: np.abs(s.values), lambda v: abs(v)),
        'mod2-array': (lambda s: s.values % 2, lambda v: v % 2),
        'lower-array': (lambda s: np.char.lower(s.values), lambda v: v.lower()),
    }


def check_series_values_case(p):
    """p: dict(kind, values (positions into the alphabet), index ('int'|'str'|'d2'), ascending, key)"""
    import static_frame as sf
    alphabet, dtype, _ = SERIES_VALUES[p['kind']]
    vals = [alphabet[i] for i in p['values']]
    n = len(vals)
    if p['index'] == 'd2':
        lab = [('a', 2), ('a', 1), ('b', 5), ('b', 0), ('c', 1)][:n]
        idx = mk_index('IH', lab)
    elif p['index'] == 'str':
        idx = mk_index('Index', ['w', 'z', 'x', 'y', 'v'][:n])
    else:
        idx = mk_index('Index', [30, 10, 20, 0, 40][:n] if n <= 5 else _long_labels(n))
    arr = np.array(vals, dtype=dtype)
    s = sf.Series(arr, index=idx, name='sname')
    fn, pyk = series_keys()[p['key']]
    inp = [(l, (_py(v),)) for l, v in zip(labels_of(idx), arr)]
    pykey = lambda pr: pyk(pr[1][0])
    exp = reference(inp, pykey, p['ascending'])
    area = f'{PID}:Series.sort_values'
    desc = f"Series({vals}, index={labels_of(idx)}).sort_values(ascending={p['ascending']}, key={p['key']})"
    try:
        r = s.sort_values(ascending=p['ascending'], key=fn) if fn is not None else s.sort_values(ascending=p['ascending'])
    except Exception as e:
        if p['index'] == 'd2' and type(e).__name__ == 'ErrorInitIndex' and not tree_form([l for l, _ in exp]):
            return [], False
        return [(f'{area}:raises-{type(e).__name__}', f'{desc} raises {e!r}')], True
    return _series_result_checks(area, desc, s, r, inp, exp, pykey, p['ascending']), n > 1


def _series_result_checks(area, desc, s, r, inp, exp, pykey, ascending):
    fails = []
    got = [(l, (_py(v),)) for l, v in zip(labels_of(r.index), r.values)]
    if got != exp:
        fails.append((f'{area}:{classify(got, exp, inp, pykey, ascending)}', f'{desc} gives {got}, reference {exp}'))
    if r.name != s.name:
        fails.append((f'{area}:name-lost', f'{desc}: name {s.name!r} became {r.name!r}'))
    if r.index.name != s.index.name:
        fails.append((f'{area}:index-name-lost', f'{desc}: index name {s.index.name!r} became {r.index.name!r}'))
    if r.values.dtype != s.values.dtype:
        fails.append((f'{area}:dtype-changed', f'{desc}: dtype {s.values.dtype} became {r.values.dtype}'))
    if type(r) is not type(s) or type(r.index) is not type(s.index):
        fails.append((f'{area}:class-changed', f'{desc}: returns {type(r).__name__} with {type(r.index).__name__}'))
    return fails


def check_series_index_case(p):
    """p: dict(pool, order, ascending, key): Series.sort_index"""
    import static_frame as sf
    hier = p['pool'] in HIER_POOLS
    spec, universe, _ = (HIER_POOLS if hier else INDEX_POOLS)[p['pool']]
    spec = {'IndexGO': 'Index', 'IHGO': 'IH'}.get(spec, spec)      # a Series holds static indices only
    labels = [universe[i] for i in p['order']]
    if hier and not tree_form(labels):
        return None, False
    idx = mk_index(spec, labels, like=universe)
    vals = np.array([10.5 * (i + 1) for i in p['order']])            # value identifies the label it belongs to
    s = sf.Series(vals, index=idx, name='sname')
    fn, pyk = (hier_keys() if hier else index_keys())[p['key']]
    inp = [(l, (_py(v),)) for l, v in zip(labels_of(idx), vals)]
    pykey = lambda pr: pyk(pr[0])
    exp = reference(inp, pykey, p['ascending'])
    area = f'{PID}:Series.sort_index'
    desc = f"Series(index={labels}).sort_index(ascending={p['ascending']}, key={p['key']})"
    try:
        r = s.sort_index(ascending=p['ascending'], key=fn) if fn is not None else s.sort_index(ascending=p['ascending'])
    except Exception as e:
        if hier and type(e).__name__ == 'ErrorInitIndex' and not tree_form([l for l, _ in exp]):
            return [], False
        return [(f'{area}:raises-{type(e).__name__}', f'{desc} raises {e!r}')], True
    return _series_result_checks(area, desc, s, r, inp, exp, pykey, p['ascending']), len(labels) > 1


# =============================================================================================
# Frame

def _frame_obs(f):
    """(row labels, column labels, column arrays, dtypes)"""
    cols = list(f.iter_array(axis=0)) if f.shape[1] else []
    return labels_of(f.index), labels_of(f.columns), cols, [a.dtype for a in cols]


def _rows(rl, cols):
    return [(l, tuple(_py(c[i]) for c in cols)) for i, l in enumerate(rl)]


def _cols(cl, cols):
    return [(l, tuple(_py(v) for v in cols[j])) for j, l in enumerate(cl)]


def _frame_checks(area, desc, f, r, axis, inp, exp, pykey, ascending):
    """axis: 'rows' (rows were re-ordered) or 'cols'"""
    fails = []
    rl0, cl0, cols0, dt0 = _frame_obs(f)
    rl, cl, cols, dt = _frame_obs(r)
    got = _rows(rl, cols) if axis == 'rows' else _cols(cl, cols)
    if got != exp:
        fails.append((f'{area}:{classify(got, exp, inp, pykey, ascending)}', f'{desc} gives {got}, reference {exp}'))
    if axis == 'rows':
        if cl != cl0:
            fails.append((f'{area}:columns-changed', f'{desc}: columns {cl0} became {cl}'))
        elif [str(d) for d in dt] != [str(d) for d in dt0]:
            fails.append((f'{area}:dtype-changed', f'{desc}: dtypes {dt0} became {dt}'))
    else:
        if rl != rl0:
            fails.append((f'{area}:index-changed', f'{desc}: index {rl0} became {rl}'))
        else:
            want = dict(zip(map(repr, cl0), map(str, dt0)))
            if any(want.get(repr(c)) != str(d) for c, d in zip(cl, dt)):
                fails.append((f'{area}:dtype-changed', f'{desc}: dtypes per column {want} became {dict(zip(map(repr, cl), map(str, dt)))}'))
    if r.name != f.name:
        fails.append((f'{area}:name-lost', f'{desc}: name {f.name!r} became {r.name!r}'))
    if r.index.name != f.index.name or r.columns.name != f.columns.name:
        fails.append((f'{area}:index-name-lost', f'{desc}: index/columns names {f.index.name!r}/{f.columns.name!r} became {r.index.name!r}/{r.columns.name!r}'))
    if type(r) is not type(f):
        fails.append((f'{area}:class-changed', f'{desc}: returns {type(r).__name__}'))
    return fails


_KIND_DT = dict(i=np.int64, f=np.float64, U='<U2', b=bool, O=object)


def _payload(kind, n, j):
    """distinct values per row so rows are identifiable"""
    if kind == 'i':
        return np.array([100 * (j + 1) + i for i in range(n)], dtype=np.int64)
    if kind == 'f':
        return np.array([0.5 + i + 10 * j for i in range(n)], dtype=np.float64)
    if kind == 'U':
        return np.array([f'{i:02d}'[-2:] if n > 6 else 'pqrstu'[i] + 'xyz'[j % 3] for i in range(n)], dtype='<U2')
    if kind == 'b':
        return np.array([(i + j) % 2 == 0 for i in range(n)], dtype=bool)
    if kind == 'O':
        return np.array([None, 'o', 3, 2.5, (1,)][:n] if n <= 5 else [None] * n, dtype=object)
    raise ValueError(kind)


def check_frame_labels_case(p):
    """Frame.sort_index / sort_columns.  p: dict(op ('sort_index'|'sort_columns'), pool, order, kinds (per column), layout, ascending, key, cls)"""
    import static_frame as sf
    hier = p['pool'] in HIER_POOLS
    spec, universe, _ = (HIER_POOLS if hier else INDEX_POOLS)[p['pool']]
    labels = [universe[i] for i in p['order']]
    if hier and not tree_form(labels):
        return None, False
    cls = getattr(sf, p.get('cls', 'Frame'))
    rows_sorted = p['op'] == 'sort_index'
    kinds = p['kinds']
    if rows_sorted:
        n = len(labels)
        arrays = [_payload(k, n, j) for j, k in enumerate(kinds)]
        index = mk_index({'IndexGO': 'Index', 'IHGO': 'IH'}.get(spec, spec), labels)
        columns = mk_index('IndexGO' if cls is sf.FrameGO else 'Index', [f'c{j}' for j in range(len(kinds))], name='cname')
    else:
        # the sorted labels are the columns: one column per label, kinds cycle over the labels
        n = 3
        kinds = [kinds[j % len(kinds)] for j in range(len(labels))]
        arrays = [_payload(k, n, j) for j, k in enumerate(kinds)]
        index = mk_index('Index', ['r0', 'r1', 'r2'], name='iname')
        cspec = {'Index': 'IndexGO', 'IH': 'IHGO'}.get(spec, spec) if cls is sf.FrameGO else {'IndexGO': 'Index', 'IHGO': 'IH'}.get(spec, spec)
        columns = mk_index(cspec, labels, name='cname')
    lay = tuple(tuple(x) for x in p['layout']) if p.get('layout') is not None else tuple((1, True) for _ in arrays)
    f = frame_from(arrays, lay, index=index, column_labels=columns, cls=cls, name='fname')
    fn, pyk = (hier_keys() if hier else index_keys())[p['key']]
    rl, cl, cols, _ = _frame_obs(f)
    inp = _rows(rl, cols) if rows_sorted else _cols(cl, cols)
    pykey = lambda pr: pyk(pr[0])
    exp = reference(inp, pykey, p['ascending'])
    area = f"{PID}:Frame.{p['op']}"
    desc = f"{cls.__name__}[{''.join(kinds)} layout {p.get('layout')}] labels {labels}.{p['op']}(ascending={p['ascending']}, key={p['key']})"
    target = f
    if p.get('auto_index'):
        # the same rows under the auto-supplied positional index (labels 0..n-1 held without a label map): a key function still decides the order
        if not rows_sorted or hier or sorted(labels) != list(range(len(labels))) or labels != sorted(labels):
            return None, False
        f = f.relabel(index=sf.IndexAutoFactory)
        if f.index._map is not None:
            return None, False
        target = f
        desc = 'auto index: ' + desc
    if p.get('grown'):
        # the same frame reached by growth: all but the last column built (and their label caches read), the last column added, and the sort is the
        # FIRST operation after the growth.  `f` (built in one go) is only the reference for the observations.
        if cls is not sf.FrameGO or rows_sorted or len(labels) < 2:
            return None, False
        g = frame_from(arrays[:-1], tuple((1, True) for _ in arrays[:-1]), index=mk_index('Index', ['r0', 'r1', 'r2'], name='iname'),
                       column_labels=mk_index(cspec, labels[:-1], name='cname'), cls=cls, name='fname')
        g.columns.values
        if hier:
            for d_ in range(g.columns.depth):
                g.columns.values_at_depth(d_)
        g[labels[-1]] = arrays[-1]
        target = g
        desc = 'grown by one column, then ' + desc
    try:
        meth = getattr(target, p['op'])
        r = meth(ascending=p['ascending'], key=fn) if fn is not None else meth(ascending=p['ascending'])
    except Exception as e:
        if hier and type(e).__name__ == 'ErrorInitIndex' and not tree_form([l for l, _ in exp]):
            return [], False
        return [(f'{area}:raises-{type(e).__name__}', f'{desc} raises {e!r}')], True
    return _frame_checks(area, desc, f, r, 'rows' if rows_sorted else 'cols', inp, exp, pykey, p['ascending']), len(labels) > 1


# ---- sort_values ---------------------------------------------------------------------------

KEYCOL = {
    # key column name: (kind, alphabet)
    'k1': ('i', [0, 1, -1]),
    'k2': ('U', ['a', 'b', 'B']),
    'k3': ('f', [-1.5, 2.0, 0.0]),
    'k4': ('b', [False, True]),
    'k5': ('i', [2**53 + 1, 2**53, 2**53 + 2]),      # int64 keys that only an exact integer comparison tells apart (not representable in float64)
}


def frame_value_keys():
    return {
        'none': (None, None),
        'neg-container': (lambda c: -c, lambda v: -v),                      # Series -> Series / Frame -> Frame
        'neg-array': (lambda c: -c.values, lambda v: -v),                    # -> ndarray (1-D or 2-D)
        'abs-array': (lambda c: np.abs(c.values), lambda v: abs(v)),
    }


def check_frame_values_case(p):
    """Frame.sort_values.  p: dict(axis (1: order rows by key columns / 0: order columns by key rows), patterns {key name: [positions into alphabet]},
    by (list of key names, or a single name), position (where the key vectors sit among the payload vectors), layout, ascending, key, cls, index)"""
    import static_frame as sf
    axis = p['axis']
    cls = getattr(sf, p.get('cls', 'Frame'))
    by = p['by']
    by_list = [by] if isinstance(by, str) else list(by)
    names = list(p['patterns'])
    n = len(p['patterns'][names[0]])
    vectors = {}
    for nm in names:
        kind, alphabet = KEYCOL[nm]
        vectors[nm] = (kind, [alphabet[i] for i in p['patterns'][nm]])
    if axis == 1:
        # key vectors are columns; payload columns around them
        order = list(p['position'])            # e.g. ['p0', 'k1', 'k2', 'p1']
        arrays, col_labels = [], []
        for j, nm in enumerate(order):
            if nm in vectors:
                kind, vals = vectors[nm]
                arrays.append(np.array(vals, dtype=_KIND_DT[kind]))
            else:
                arrays.append(_payload(nm[1], n, j))       # 'pi' / 'pf' / 'pU' / 'pO': payload of that kind
            col_labels.append(nm)
        idx_labels = {'int': [30, 10, 20, 0, 40][:n] if n <= 5 else _long_labels(n), 'd2': [('a', 2), ('a', 1), ('b', 5), ('b', 0), ('c', 1)][:n]}[p.get('index', 'int')]
        index = mk_index('IH' if p.get('index') == 'd2' else 'Index', idx_labels)
        columns = mk_index('IndexGO' if cls is sf.FrameGO else 'Index', col_labels, name='cname')
    else:
        # key vectors are rows: every column is numeric (int / float alternate) so a row can be consolidated
        row_names = list(p['position'])        # e.g. ['k1', 'p', 'k3']
        col_kinds = p['col_kinds']              # dtype kind per column, length n
        table = []
        for nm in row_names:
            if nm in vectors:
                table.append(vectors[nm][1])
            else:
                table.append([100 + c for c in range(n)])        # payload row: identifies the column
        arrays = []
        for c in range(n):
            arrays.append(np.array([table[r][c] for r in range(len(row_names))], dtype=_KIND_DT[col_kinds[c]]))
        index = mk_index('Index', row_names, name='iname')
        columns = mk_index('IndexGO' if cls is sf.FrameGO else 'Index', [f'c{c}' for c in ([3, 1, 2, 0, 4][:n] if n <= 5 else [(c * 7) % n for c in range(n)])], name='cname')
    lay = tuple(tuple(x) for x in p['layout']) if p.get('layout') is not None else tuple((1, True) for _ in arrays)
    f = frame_from(arrays, lay, index=index, column_labels=columns, cls=cls, name='fname')
    fn, pyk = frame_value_keys()[p['key']]
    rl, cl, cols, _ = _frame_obs(f)
    if axis == 1:
        inp = _rows(rl, cols)
        pos = [cl.index(nm) for nm in by_list]
    else:
        inp = _cols(cl, cols)
        pos = [rl.index(nm) for nm in by_list]
    if pyk is None:
        pykey = lambda pr: tuple(pr[1][q] for q in pos)
    else:
        pykey = lambda pr: tuple(pyk(pr[1][q]) for q in pos)
    exp = reference(inp, pykey, p['ascending'])
    area = f'{PID}:Frame.sort_values:axis{axis}'
    desc = (f"{cls.__name__} {'columns' if axis == 1 else 'rows'} {p['position']} {({k: v[1] for k, v in vectors.items()})} layout {p.get('layout')}"
            f".sort_values({by!r}, axis={axis}, ascending={p['ascending']}, key={p['key']})")
    try:
        kw = dict(ascending=p['ascending'], axis=axis)
        if fn is not None:
            kw['key'] = fn
        r = f.sort_values(by if isinstance(by, str) else list(by), **kw)
    except Exception as e:
        if p.get('index') == 'd2' and axis == 1 and type(e).__name__ == 'ErrorInitIndex' and not tree_form([l for l, _ in exp]):
            return [], False
        return [(f'{area}:raises-{type(e).__name__}', f'{desc} raises {e!r}')], True
    nkeys = 'multi-key' if len(by_list) > 1 else 'single-key'
    fails = _frame_checks(area, desc, f, r, 'rows' if axis == 1 else 'cols', inp, exp, pykey, p['ascending'])
    fails = [(k.replace(f'{area}:', f'{area}:{nkeys}:', 1) if k.split(':')[-1] in ('rows-not-kept-whole', 'keys-not-ordered', 'tie-order') else k, w) for k, w in fails]
    return fails, n > 1


# =============================================================================================
# enumeration

def _layouts(kinds, tier, full=True, cap=None):
    if len(kinds) > 6:
        return [tuple((1, True) for _ in kinds), tuple((1, False) for _ in kinds)]
    arrays = [np.empty(0, dtype=_KIND_DT[k]) for k in kinds]
    lays = [tuple(l) for l in layouts_dtype_safe(arrays)]
    if cap is not None and len(lays) > cap:          # evenly spread sample that keeps the first and the last layout
        step = (len(lays) - 1) / (cap - 1)
        lays = [lays[round(i * step)] for i in range(cap)]
    if full or len(lays) <= 3:
        return lays
    return [lays[0], lays[len(lays) // 2], lays[-1]]


def _patterns(alphabet_size, n, tier):
    """value patterns of a key vector: every assignment of the first two alphabet members (ties!) + some with the third"""
    pats = [list(t) for t in itertools.product(range(min(2, alphabet_size)), repeat=n)]
    if alphabet_size > 2:
        extra = [[2, 0, 1, 0, 2][:n], [1, 2, 2, 0, 1][:n], [2, 2, 1, 1, 0][:n]]
        pats += extra if tier == 'quick' else [list(t) for t in itertools.product(range(3), repeat=n) if 2 in t]
    return pats


def cases(tier):
    quick = tier == 'quick'
    # A. Index.sort / IndexHierarchy.sort and Series.sort_index: every order of the pool labels (hierarchies: the tree-form orders)
    for area in ('index', 'series_index'):
        for pool, (spec, universe, keys) in list(INDEX_POOLS.items()) + list(HIER_POOLS.items()):
            n = len(universe)
            if n > 6:
                for order in (list(range(n)), list(range(n - 1, -1, -1)), list(range(n // 3, n)) + list(range(n // 3)), [(i * 7) % n for i in range(n)][:n - 1]):
                    yield dict(area=area, pool=pool, order=order, keys=keys)
                continue
            sizes = (n, n - 1) if quick else range(0, n + 1)
            for k in sizes:
                for order in itertools.permutations(range(n), k):
                    yield dict(area=area, pool=pool, order=list(order), keys=keys)
    # B. Series.sort_values: every value assignment
    for kind, (alphabet, dtype, keys) in SERIES_VALUES.items():
        for n in ((3, 4) if quick else (0, 1, 2, 3, 4, 5)):
            for values in itertools.product(range(len(alphabet)), repeat=n):
                yield dict(area='series_values', kind=kind, values=list(values), keys=keys)
        for mul in (7, 11, 5):      # long vectors with many ties
            yield dict(area='series_values', kind=kind, values=[((i * mul) + i // 5) % len(alphabet) for i in range(LONG)], keys=keys)
    # C. Frame.sort_index / sort_columns
    kind_sets = (['i', 'f', 'U'], ['i', 'i', 'f'], ['b', 'O']) if quick else (['i', 'f', 'U'], ['i', 'i', 'f'], ['b', 'O'], ['f', 'f', 'f', 'i'], ['U'])
    for op in ('sort_index', 'sort_columns'):
        for pool, (spec, universe, keys) in list(INDEX_POOLS.items()) + list(HIER_POOLS.items()):
            if quick and pool in ('float', 'd2i', 'intGO'):
                continue
            n = len(universe)
            if n > 6:
                for order in (list(range(n)), [(i * 7) % n for i in range(n)]):
                    yield dict(area='frame_labels', op=op, pool=pool, order=order, kinds=['i', 'f'], keys=keys)
                continue
            orders = list(itertools.permutations(range(n), n))
            if quick and n > 4:
                orders = orders[::5]
            for order in orders:
                for kinds in kind_sets:
                    yield dict(area='frame_labels', op=op, pool=pool, order=list(order), kinds=kinds, keys=keys)
    # D. Frame.sort_values, axis 1: key columns k1 (int), k2 (str), k3 (float), k4 (bool) with ties
    n = 4
    k1_pats = _patterns(3, n, tier)
    k2_pats = [[0, 1, 0, 1], [1, 1, 0, 0], [2, 0, 1, 0]] + ([] if quick else [[0, 0, 0, 0], [2, 2, 0, 1]])
    k3_pats = [[0, 0, 1, 1], [1, 0, 2, 0]] + ([] if quick else [[0, 1, 0, 1]])
    positions = [['pi', 'k1', 'k2', 'k3', 'pU'], ['k3', 'k2', 'pf', 'k1'], ['k1', 'k3', 'k2']]
    for pos in positions:
        for a in k1_pats:
            for b in k2_pats:
                for c in k3_pats:
                    yield dict(area='frame_values', axis=1, patterns=dict(k1=a, k2=b, k3=c), position=pos)
    for a in k1_pats:                # an int64 key beyond 2**53 next to a float key: every key column is compared in its own dtype
        for c in k3_pats:
            yield dict(area='frame_values', axis=1, patterns=dict(k5=a, k3=c), position=['k5', 'pi', 'k3'])
    for mul in (7, 11):             # long key columns with many ties (single-key sorts go through argsort(kind))
        yield dict(area='frame_values', axis=1, position=['pi', 'k1', 'k2', 'k3'],
                   patterns=dict(k1=[(i * mul + i // 5) % 3 for i in range(LONG)], k2=[(i * mul // 3) % 3 for i in range(LONG)], k3=[(i * 5 + i // mul) % 3 for i in range(LONG)]))
        yield dict(area='frame_values', axis=0, position=['k1', 'p', 'k3'], col_kinds=['i', 'f'] * (LONG // 2),
                   patterns=dict(k1=[(i * mul + i // 5) % 3 for i in range(LONG)], k3=[(i * 5 + i // mul) % 3 for i in range(LONG)]))
    # axis 0: key rows over heterogeneous numeric columns
    k1r = _patterns(3, n, tier)
    k3r = [[0, 0, 1, 1], [1, 0, 2, 0], [0, 1, 0, 1]] + ([] if quick else [[0, 0, 0, 0], [2, 2, 0, 0], [1, 0, 0, 1]])
    for pos in (['k1', 'p', 'k3'], ['k3', 'k1', 'p'], ['p', 'k1']):
        for col_kinds in (['i', 'f', 'i', 'f'], ['f', 'f', 'i', 'i'], ['i', 'i', 'i', 'i']):
            for a in k1r:
                for c in (k3r if 'k3' in pos else [None]):
                    pats = dict(k1=a) if c is None else dict(k1=a, k3=c)
                    yield dict(area='frame_values', axis=0, patterns=pats, position=pos, col_kinds=col_kinds)


def expand(case, tier):
    """concrete parameter dicts of one outer case"""
    quick = tier == 'quick'
    area = case['area']
    if area in ('index', 'series_index'):
        for key in case['keys']:
            for asc in (True, False):
                yield dict(area=area, pool=case['pool'], order=case['order'], ascending=asc, key=key)
    elif area == 'series_values':
        for key in case['keys']:
            for asc in (True, False):
                for index in (('int', 'd2') if ((quick and key == 'none') or not quick) and len(case['values']) <= 5 else ('int',)):
                    yield dict(area=area, kind=case['kind'], values=case['values'], index=index, ascending=asc, key=key)
    elif area == 'frame_labels':
        rows_sorted = case['op'] == 'sort_index'
        nlab = len(case['order'])
        kinds = case['kinds'] if rows_sorted else [case['kinds'][j % len(case['kinds'])] for j in range(nlab)]
        keys = case['keys'] if not quick else case['keys'][:3]
        lays = _layouts(kinds, tier, full=not quick or case['order'] == sorted(case['order'], reverse=True) or case['order'][0] == 1)
        for key in keys:
            for asc in (True, False):
                for li, lay in enumerate(lays):
                    if quick and key != 'none' and li not in (0, len(lays) - 1):
                        continue
                    yield dict(area=area, op=case['op'], pool=case['pool'], order=case['order'], kinds=case['kinds'], layout=[list(x) for x in lay],
                               ascending=asc, key=key, cls='Frame')
        yield dict(area=area, op=case['op'], pool=case['pool'], order=case['order'], kinds=case['kinds'], layout=None, ascending=True, key='none', cls='FrameGO')
        if not rows_sorted:
            for asc in (True, False):
                yield dict(area=area, op=case['op'], pool=case['pool'], order=case['order'], kinds=case['kinds'], layout=None, ascending=asc, key='none', cls='FrameGO', grown=True)
        else:
            for key in keys:
                for asc in (True, False):
                    yield dict(area=area, op=case['op'], pool=case['pool'], order=case['order'], kinds=case['kinds'], layout=None, ascending=asc, key=key, cls='Frame', auto_index=True)
    elif area == 'frame_values':
        axis = case['axis']
        names = [nm for nm in case['position'] if nm in case['patterns']]
        bys = []
        for k in (1, 2, 3):
            for combo in itertools.permutations(names, k):
                bys.append(combo[0] if k == 1 else list(combo))
        if len(names) >= 1:
            bys.append([names[0]])          # a one-element list is still a multi-label selection
        if axis == 1:
            kinds = [KEYCOL[nm][0] if nm in KEYCOL else nm[1] for nm in case['position']]
        else:
            kinds = case['col_kinds']
        lays = _layouts(kinds, tier, full=not quick, cap=6)
        for bi, by in enumerate(bys):
            by_list = [by] if isinstance(by, str) else by
            numeric = all(KEYCOL[nm][0] in 'if' for nm in by_list)
            keyfns = ['none'] + (['neg-container', 'neg-array', 'abs-array'] if numeric else [])
            if 'k5' in by_list and len(by_list) > 1:
                # a key function that consolidates the selected columns itself (c.values) would hand back float64 keys: not the library's doing
                keyfns = [k for k in keyfns if k in ('none', 'neg-container')]
            if quick:
                keyfns = keyfns[:1] + keyfns[1 + bi % 3:2 + bi % 3]
            for key in keyfns:
                for asc in (True, False):
                    for li, lay in enumerate(lays):
                        if quick and key != 'none' and li != bi % len(lays):
                            continue
                        p = dict(area=area, axis=axis, patterns=case['patterns'], by=by, position=case['position'], layout=[list(x) for x in lay],
                                 ascending=asc, key=key, cls='Frame', index='int')
                        if axis == 0:
                            p['col_kinds'] = case['col_kinds']
                        yield p
        # class / hierarchical index variants on the first selection
        extra = dict(area=area, axis=axis, patterns=case['patterns'], by=bys[-2] if len(bys) > 1 else bys[0], position=case['position'], layout=None,
                     ascending=False, key='none')
        if axis == 0:
            extra['col_kinds'] = case['col_kinds']
        yield dict(extra, cls='FrameGO', index='int')
        if axis == 1 and len(next(iter(case['patterns'].values()))) <= 5:
            yield dict(extra, cls='Frame', index='d2')


CHECKS = {
    'index': check_index_case,
    'series_index': check_series_index_case,
    'series_values': check_series_values_case,
    'frame_labels': check_frame_labels_case,
    'frame_values': check_frame_values_case,
}


def run(repo, task):
    tier = task.get('tier', 'quick')
    rep = Report('C12-sort', task,
                 rule='Index.sort / IndexHierarchy.sort / Series.sort_index over every (tree-form) order of the pool labels; Series.sort_values over every '
                      'assignment of a 2-3 letter alphabet to 4 cells (duplicates, negatives, strings, bools); Frame.sort_index / sort_columns over label '
                      'orders x column dtype mixes x dtype-safe block layouts; Frame.sort_values on both axes with 1-3 key vectors (int / str / float with '
                      'ties, every selection and order of the key labels) x layouts; each x ascending/descending x key functions returning arrays or '
                      'containers; FrameGO and hierarchical-index variants; non-trivial = at least 2 rows to arrange and the result order representable',
                 bound='<= 5 labels / rows, <= 5 columns, hierarchy depth 2-3, key alphabets of 2-3 values, NaN-free keys, default sort kind')
    for case in rep.shard(cases(tier)):
        try:
            for p in expand(case, tier):
                fails, nt = CHECKS[p['area']](p)
                if fails is None:
                    continue
                rep.count(distinct_key=repr(sorted(p.items(), key=lambda kv: kv[0])) if nt else None, sample=p)
                for key, what in fails:
                    rep.fail(key, what, p)
        except Exception:
            rep.error(f'sort harness {case}')
    return rep.done()


def replay(repo, rp):
    try:
        fails, _ = CHECKS[rp['area']](rp)
    except Exception as e:
        return dict(outcome='fail', raised=repr(e))
    if fails is None:
        return dict(outcome='pass', note='precondition not met: label order is not a tree form')
    return dict(outcome='fail' if fails else 'pass', failures=[dict(key=k, what=w) for k, w in fails])
